#!/usr/bin/env python3
"""tools/try_seed.py <patch.diff> [demo.rs]

Protocol for a seeded change (never committed to /repo):
  1. in a scratch worktree of /repo (outside /repo and /verif): apply the patch, build, run the 44-test suite (must stay
     green), run the demo (must fail); without the patch the demo must pass;  (skipped with --no-confirm)
  2. git -C /repo apply <patch>; run every check's quick command; git -C /repo checkout -- . ;
  3. print which properties / rules fired.
Prints one JSON object."""
import json
import os
import re
import shutil
import subprocess
import sys
import tempfile

VERIF = os.path.dirname(os.path.dirname(os.path.abspath(__file__)))
REPO = '/repo'


def sh(cmd, cwd=None, env=None, timeout=1200):
    e = dict(os.environ)
    e['CARGO_NET_OFFLINE'] = 'true'
    if env:
        e.update(env)
    r = subprocess.run(cmd, cwd=cwd, env=e, stdout=subprocess.PIPE, stderr=subprocess.STDOUT, text=True, timeout=timeout)
    return r.returncode, r.stdout


def confirm(patch, demo):
    wt = tempfile.mkdtemp(prefix='raqote-seedwt-')
    os.rmdir(wt)
    res = {}
    rc, out = sh(['git', '-C', REPO, 'worktree', 'add', '-q', '--detach', wt, 'HEAD'])
    if rc != 0:
        return {'error': out}
    tgt = os.environ.get('SEED_TARGET_DIR') or os.path.join(tempfile.gettempdir(), 'raqote-seed-target')
    env = {'CARGO_TARGET_DIR': tgt}
    try:
        if demo:
            os.makedirs(os.path.join(wt, 'tests'), exist_ok=True)
            shutil.copy(demo, os.path.join(wt, 'tests', 'seed_demo.rs'))
            rc, out = sh(['cargo', 'test', '--offline', '--test', 'seed_demo'], cwd=wt, env=env)
            res['demo_passes_without_change'] = (rc == 0)
            res['demo_without_tail'] = out[-300:] if rc != 0 else ''
        rc, out = sh(['git', 'apply', os.path.abspath(patch)], cwd=wt)
        res['applies'] = (rc == 0)
        if rc != 0:
            res['apply_error'] = out[-400:]
            return res
        rc, out = sh(['cargo', 'test', '--offline', '--lib'], cwd=wt, env=env)
        m = re.search(r'test result: (\w+)\. (\d+) passed; (\d+) failed', out)
        res['compiles'] = 'error: could not compile' not in out and 'error[' not in out
        res['suite'] = m.group(0) if m else out[-300:]
        res['suite_green'] = bool(m and m.group(1) == 'ok' and m.group(2) == '44')
        if demo:
            try:
                rc, out = sh(['cargo', 'test', '--offline', '--test', 'seed_demo'], cwd=wt, env=env, timeout=300)
                res['demo_fails_with_change'] = (rc != 0)
                res['demo_with_tail'] = out[-400:]
            except subprocess.TimeoutExpired:
                res['demo_fails_with_change'] = True
                res['demo_with_tail'] = 'timeout (hang)'
    finally:
        sh(['git', '-C', REPO, 'worktree', 'remove', '--force', wt])
    return res


def run_checks(patch):
    """run every check's quick command against a scratch worktree of /repo's HEAD with the patch applied
    (VERIF_REPO), so that /repo itself is never modified; the worktree is removed afterwards"""
    wt = tempfile.mkdtemp(prefix='raqote-seedchk-')
    os.rmdir(wt)
    rc, out = sh(['git', '-C', REPO, 'worktree', 'add', '-q', '--detach', wt, 'HEAD'])
    if rc != 0:
        return {'error': out}
    fired = {}
    try:
        rc, out = sh(['git', 'apply', os.path.abspath(patch)], cwd=wt)
        if rc != 0:
            return {'error': 'patch does not apply to HEAD: ' + out[-300:]}
        evdir = tempfile.mkdtemp(prefix='raqote-seed-ev-')
        for l in open(os.path.join(VERIF, 'properties.jsonl')):
            pid = json.loads(l)['id']
            rc, out = sh([os.path.join(VERIF, 'check'), pid, '--tier', 'quick'], cwd=VERIF, env={'VERIF_EVIDENCE_DIR': evdir, 'VERIF_REPO': wt})
            if rc != 0:
                rules = sorted(set(re.findall(r'\[(R[0-9]+\.[0-9a-z]+|[a-z_0-9]+)\] ', out)))
                lines = [x for x in out.splitlines() if re.match(r'^\S+: \[', x)]
                fired[pid] = {'rules': rules, 'first': lines[0][:400] if lines else out[-300:]}
        shutil.rmtree(evdir, ignore_errors=True)
    finally:
        sh(['git', '-C', REPO, 'worktree', 'remove', '--force', wt])
    return {'fired': fired}


def rebased(patch):
    """a version of the patch that applies to /repo's HEAD (3-way merge in a scratch worktree when the context moved)"""
    rc, out = sh(['git', '-C', REPO, 'apply', '--check', os.path.abspath(patch)])
    if rc == 0:
        return patch, False
    wt = tempfile.mkdtemp(prefix='raqote-rebase-')
    os.rmdir(wt)
    sh(['git', '-C', REPO, 'worktree', 'add', '-q', '--detach', wt, 'HEAD'])
    try:
        rc, out = sh(['git', 'apply', '--3way', os.path.abspath(patch)], cwd=wt)
        if rc != 0:
            return patch, False
        sh(['git', 'reset', '-q'], cwd=wt)
        rc, diff = sh(['git', 'diff'], cwd=wt)
        fd, newp = tempfile.mkstemp(prefix='raqote-rebased-', suffix='.diff')
        os.write(fd, diff.encode())
        os.close(fd)
        return newp, True
    finally:
        sh(['git', '-C', REPO, 'worktree', 'remove', '--force', wt])


def main():
    args = [a for a in sys.argv[1:] if not a.startswith('--')]
    patch, was_rebased = rebased(args[0])
    demo = args[1] if len(args) > 1 else None
    res = {'patch': patch, 'rebased': was_rebased}
    if '--no-confirm' not in sys.argv:
        res['confirm'] = confirm(patch, demo)
    res.update(run_checks(patch))
    print(json.dumps(res, indent=1))


if __name__ == '__main__':
    main()
