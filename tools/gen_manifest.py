#!/usr/bin/env python3
"""Regenerate /verif/MANIFEST.json from the META of every rules/props/cNN.py and tools/not_applicable.json."""
import importlib
import json
import os
import sys

VERIF = os.path.dirname(os.path.dirname(os.path.abspath(__file__)))
sys.path.insert(0, os.path.join(VERIF, 'rules'))

props = [json.loads(l) for l in open(os.path.join(VERIF, 'properties.jsonl'))]
na_path = os.path.join(VERIF, 'tools', 'not_applicable.json')
na_reasons = json.load(open(na_path)) if os.path.exists(na_path) else {}

checks = []
not_applicable = []
for p in props:
    pid = p['id']
    try:
        mod = importlib.import_module('props.' + pid.lower())
    except ImportError:
        mod = None
    if mod is None or pid in na_reasons:
        not_applicable.append({'property_id': pid, 'reason': na_reasons.get(pid, 'no static clause decided yet')})
        continue
    M = mod.META
    checks.append({
        'property_id': pid,
        'quick_cmd': './check %s --tier quick' % pid,
        'thorough_cmd': './check %s --tier thorough' % pid,
        'evidence_file': 'evidence/%s.json' % pid,
        'replay_cmd_template': './check %s --tier quick   # the finding is in {path}' % pid,
        'engine': 'mirfacts+rules',
        'level_claimed': {
            'category': 'other',
            'text': 'Static necessary-condition rules over the type-checked MIR of the current tree (no execution): '
                    + '; '.join(M['decides']) + '. Each rule instance is an obligation that is discharged or reported '
                    'with the violating construct. This decides these structural clauses of the property, not the '
                    'behaviour as a whole.',
            'design_ref': 'DESIGN.md section 3, ' + pid,
        },
        'level_note': 'Does not decide: ' + '; '.join(M['does_not_decide']) + '. Assumes: ' + '; '.join(M.get('assumptions', [])),
        'technique': M.get('technique', 'static analysis: custom MIR rules (rustc_private driver) — dataflow/provenance, CFG dominance, dispatch-table and sibling comparison'),
    })

manifest = {
    'version': 1,
    'setup_cmd': 'cd driver && CARGO_NET_OFFLINE=true cargo build --offline && cd .. && python3 rules/extract.py default',
    'hooks': {
        'guard': 'raqote_verif',
        'enable': 'none: the analysis reads the code exactly as cargo builds it; no instrumentation exists',
        'baseline_off_cmd': 'cd /repo && cargo test --workspace --no-fail-fast --offline',
        'source_commits': [],
        'add_only': True,
    },
    'engines': [
        {'name': 'mirfacts', 'path': 'driver/', 'serves_properties': [c['property_id'] for c in checks],
         'kind_free_text': 'rustc_private driver run as RUSTC_WORKSPACE_WRAPPER under cargo +nightly check: serialises type-checked MIR, ADTs, impls, resolved callees'},
        {'name': 'rules', 'path': 'rules/', 'serves_properties': [c['property_id'] for c in checks],
         'kind_free_text': 'Python static analyses over the fact file: reaching definitions and symbolic terms, may-depend closure, dominators/post-dominators, match-arm tables, polynomial normal forms, call graph'},
    ],
    'checks': checks,
    'not_applicable': not_applicable,
    'notes': 'Technique family: static analysis only. Every verdict is computed from the MIR of /repo\'s current working tree; '
             'no raqote code is executed by any check. selftest/run.py (mutants + benign edits) measures rule sensitivity and is not a check.',
}
with open(os.path.join(VERIF, 'MANIFEST.json'), 'w') as f:
    json.dump(manifest, f, indent=1)
print('claimed:', [c['property_id'] for c in checks])
print('not applicable:', [n['property_id'] for n in not_applicable])
