#!/usr/bin/env python3
"""tools/save_benign.py <round> <srcdir>
Keep the behaviour-preserving refactorings produced by sub-agents (<srcdir>/<Cnn>/OUT/refactor<i>.diff + rnotes<i>.md) under
/verif/benign/<round>/ so that they can be re-run against every check later (tools/try_benign.py benign/<round>/*.diff)."""
import os
import re
import shutil
import sys

VERIF = os.path.dirname(os.path.dirname(os.path.abspath(__file__)))


def main():
    rnd, src = sys.argv[1], sys.argv[2]
    dest = os.path.join(VERIF, 'benign', rnd)
    os.makedirs(dest, exist_ok=True)
    n = 0
    for p in sorted(os.listdir(src)):
        if not re.match(r'^C[0-9]+$', p):
            continue
        out = os.path.join(src, p, 'OUT')
        for i in (1, 2, 3, 4, 5):
            d = os.path.join(out, 'refactor%d.diff' % i)
            if os.path.exists(d) and os.path.getsize(d) > 0:
                shutil.copy(d, os.path.join(dest, '%s-%d.diff' % (p, i)))
                nt = os.path.join(out, 'rnotes%d.md' % i)
                if os.path.exists(nt):
                    shutil.copy(nt, os.path.join(dest, '%s-%d.md' % (p, i)))
                n += 1
    print('saved', n, 'refactorings to', dest)


if __name__ == '__main__':
    main()
