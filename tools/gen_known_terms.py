#!/usr/bin/env python3
"""tools/gen_known_terms.py — regenerate rules/known_terms.json from /repo's current (audited) tree.

For every small pure helper of the audited tree (crate-private, non-recursive, no stores, one return term that is fully
expressed over its parameters) record the return term as a pattern over ('param', i) together with the helper's raw
facts (and those of its closures).  When an edited tree no longer has the helper because it was inlined at its call
sites, the term builder recognises the pattern there and restores the call (rules/outline.py)."""
import json
import os
import sys

VERIF = os.path.dirname(os.path.dirname(os.path.abspath(__file__)))
sys.path.insert(0, os.path.join(VERIF, 'rules'))
os.chdir(VERIF)
import extract
import engine
from facts import Facts
from util import *
from terms import subterms
import shared
import outline


def main():
    os.environ.setdefault('VERIF_REPO', '/repo')
    path, info = extract.extract('default')
    raw = json.load(open(path))
    F = Facts(path)
    ctx = engine.Ctx('C00', 'quick', F, 'default')
    import hazard
    api = set(hazard.api_roots(F))
    out = {}
    for q, b in sorted(F.bodies.items()):
        if '::{closure' in q or q in api or b.raw.get('kind') not in ('Fn', 'AssocFn') or b.raw.get('impl_trait'):
            continue
        an = ctx.an(b)
        if any(kind == 'assign' for a, v, pt, kind in an.stores):
            continue
        rts = shared.ret_terms(ctx, b)
        if len(rts) != 1:
            continue
        pat = outline.to_pattern(ctx, rts[0])
        if pat is None:
            continue
        size = sum(1 for _ in subterms(rts[0]))
        ncalls = sum(1 for x in subterms(rts[0]) if x[0] == 'call')
        if size < 6 or (ncalls == 0 and size < 8):
            continue
        # calls itself?
        if any(x[0] == 'call' and x[1] == q for x in subterms(rts[0])):
            continue
        bodies = [rb for rb in raw['bodies'] if rb['q'] == q or rb['q'].startswith(q + '::{closure')]
        out[q] = {'argc': b.argc, 'term': pat, 'bodies': bodies}
        print('%-70s size %3d' % (q, size))
    with open(os.path.join(VERIF, 'rules', 'known_terms.json'), 'w') as f:
        json.dump(out, f)
    print(len(out), 'patterns')


if __name__ == '__main__':
    main()
