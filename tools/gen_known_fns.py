#!/usr/bin/env python3
"""tools/gen_known_fns.py — regenerate rules/known_fns.json (the function / ADT inventory of the audited tree) from
/repo's current tree.  Run only when /repo itself changes (a fix: commit that adds or renames an item)."""
import json
import os
import sys

VERIF = os.path.dirname(os.path.dirname(os.path.abspath(__file__)))
sys.path.insert(0, os.path.join(VERIF, 'rules'))
os.chdir(VERIF)
import extract


def tuple_joins(b):
    """types of tuple-typed temporaries with two or more whole aggregate definitions (joins of alternatives)"""
    n = {}
    for blk in b['blocks']:
        for st in blk['st']:
            if st.get('k') == 'assign' and not st['p']['pr'] and st['rv'].get('k') == 'agg' and st['rv'].get('ak') == 'tuple':
                n[st['p']['l']] = n.get(st['p']['l'], 0) + 1
    return sorted(set(b['locals'][l].get('ty') for l, c in n.items() if c >= 2))


def main():
    os.environ.setdefault('VERIF_REPO', '/repo')
    path, info = extract.extract('default')
    raw = json.load(open(path))
    fns = {}
    for b in raw['bodies']:
        callees = set()
        for blk in b['blocks']:
            t = blk['t']
            if t['k'] == 'call':
                c = ((t.get('f') or {}).get('fn') or {}).get('def')
                if c and c.startswith(raw['crate'] + '::'):
                    callees.add(c)
        fns[b['q']] = {'sig': b.get('sig'), 'impl_self': b.get('impl_self'), 'kind': b.get('kind'), 'argc': b.get('argc'), 'vis': b.get('vis'),
                       'impl_trait': b.get('impl_trait'), 'tuple_joins': tuple_joins(b), 'callees': sorted(callees)}
    adts = {}
    for a in raw['adts']:
        adts[a['q']] = {'kind': a['kind'], 'variants': [{'name': v['name'], 'fields': [[f['name'], f['ty'], f.get('pub')] for f in v['fields']]} for v in a['variants']]}
    out = os.path.join(VERIF, 'rules', 'known_fns.json')
    old = json.load(open(out)) if os.path.exists(out) else {}
    json.dump({'fns': fns, 'adts': adts}, open(out, 'w'), indent=0, sort_keys=True)
    print(len(fns), 'functions,', len(adts), 'ADTs;', 'previously', len(old.get('fns', {})), len(old.get('adts', {})))
    # differences worth a look
    for q in sorted(set(old.get('fns', {})) ^ set(fns)):
        print('  function set differs:', q)
    for q in sorted(set(old.get('fns', {})) & set(fns)):
        for k in ('sig', 'impl_self', 'kind', 'argc', 'vis', 'impl_trait'):
            if old['fns'][q].get(k) != fns[q].get(k):
                print('  %s.%s: %r -> %r' % (q, k, old['fns'][q].get(k), fns[q].get(k)))


if __name__ == '__main__':
    main()
