#!/usr/bin/env python3
"""tools/try_benign.py <patch.diff> ...
For each behaviour-preserving refactoring: apply it to a scratch worktree of /repo (never /repo itself), check that it
compiles and keeps the 44-test suite green, and run every check's quick command against it.  Any check that fires is a
false alarm candidate to be read by hand.  Prints one line per patch and per firing check."""
import json
import os
import re
import sys
import tempfile

sys.path.insert(0, os.path.dirname(os.path.abspath(__file__)))
import try_seed as T


def suite_green(patch):
    wt = tempfile.mkdtemp(prefix='raqote-benwt-')
    os.rmdir(wt)
    rc, out = T.sh(['git', '-C', T.REPO, 'worktree', 'add', '-q', '--detach', wt, 'HEAD'])
    try:
        rc, out = T.sh(['git', 'apply', os.path.abspath(patch)], cwd=wt)
        if rc != 0:
            return None, 'does not apply: ' + out[-200:]
        tgt = os.environ.get('SEED_TARGET_DIR') or os.path.join(tempfile.gettempdir(), 'raqote-seed-target')
        rc, out = T.sh(['cargo', 'test', '--offline', '--lib'], cwd=wt, env={'CARGO_TARGET_DIR': tgt})
        m = re.search(r'test result: (\w+)\. (\d+) passed; (\d+) failed', out)
        return bool(m and m.group(1) == 'ok' and m.group(2) == '44'), (m.group(0) if m else out[-300:])
    finally:
        T.sh(['git', '-C', T.REPO, 'worktree', 'remove', '--force', wt])


def main():
    args = [a for a in sys.argv[1:] if not a.startswith('--')]
    for patch in args:
        green, msg = (True, 'not run') if '--no-tests' in sys.argv else suite_green(patch)
        if not green:
            print('%s: SKIPPED (%s)' % (patch, msg))
            continue
        res = T.run_checks(patch)
        fired = res.get('fired') or {}
        if res.get('error'):
            print('%s: ERROR %s' % (patch, res['error']))
        elif not fired:
            print('%s: silent' % patch)
        else:
            print('%s: FIRED %s' % (patch, sorted(fired)))
            for pid, v in sorted(fired.items()):
                print('    %s %s | %s' % (pid, v['rules'], v['first'][:260]))


if __name__ == '__main__':
    main()
