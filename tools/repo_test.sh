#!/bin/sh
# run the repository's baseline suite (guard off: there is no guard) and undo the doctest's side effect on example.png
cd /repo && CARGO_NET_OFFLINE=true cargo test --offline --workspace --no-fail-fast 2>&1 | grep -E "^test result|FAILED|failed|error" | head -8
git -C /repo checkout -- example.png 2>/dev/null
git -C /repo status --short | head
