#!/usr/bin/env python3
"""tools/refresh_seeds.py [id-prefix ...]
Re-run every check against each kept seeded change (scratch worktree, /repo untouched) and refresh
meta.json's caught_by / first_report / detected / target_check_fires; rewrite seeded/SUMMARY.md."""
import json
import os
import shutil
import subprocess
import sys
from concurrent.futures import ThreadPoolExecutor

VERIF = os.path.dirname(os.path.dirname(os.path.abspath(__file__)))
SEEDED = os.path.join(VERIF, 'seeded')


def one(d):
    dd = os.path.join(SEEDED, d)
    patch = os.path.join(dd, 'patch.diff')
    r = subprocess.run([sys.executable, os.path.join(VERIF, 'tools', 'try_seed.py'), patch, '--no-confirm'], stdout=subprocess.PIPE, stderr=subprocess.STDOUT, text=True)
    try:
        res = json.loads(r.stdout)
    except ValueError:
        return d, None, r.stdout[-300:]
    if 'error' in res:
        return d, None, res['error']
    if res.get('rebased'):
        shutil.copy(res['patch'], patch)
    mp = os.path.join(dd, 'meta.json')
    meta = json.load(open(mp))
    fired = res.get('fired') or {}
    meta['caught_by'] = {pid: v['rules'] for pid, v in fired.items()}
    meta['first_report'] = {pid: v['first'] for pid, v in fired.items()}
    meta['detected'] = bool(fired)
    meta['target_check_fires'] = meta['breaks_property'] in fired
    json.dump(meta, open(mp, 'w'), indent=1)
    return d, meta, None


def main():
    pre = sys.argv[1:]
    ds = sorted(d for d in os.listdir(SEEDED) if os.path.isdir(os.path.join(SEEDED, d)) and (not pre or any(d.startswith(p) for p in pre)))
    # sequential: the checks share the fact cache and its lock
    results = [one(d) for d in ds]
    rows = []
    for d in sorted(x for x in os.listdir(SEEDED) if os.path.isdir(os.path.join(SEEDED, x))):
        try:
            m = json.load(open(os.path.join(SEEDED, d, 'meta.json')))
        except Exception:
            continue
        tgt = m['breaks_property']
        cb = m.get('caught_by', {})
        own = ', '.join(cb.get(tgt, [])) or '—'
        others = '; '.join('%s: %s' % (p, ', '.join(r)) for p, r in sorted(cb.items()) if p != tgt) or '—'
        rows.append('| %s | %s | %s | %s | %s |' % (d, tgt, 'yes' if m.get('detected') else '**NO**', own, others))
    with open(os.path.join(SEEDED, 'SUMMARY.md'), 'w') as f:
        f.write('# Seeded changes and the checks that report them\n\n'
                'Every change below compiles, keeps the 44-test suite green and makes its demonstration fail (see each meta.json).\n'
                'Regenerate with `python3 tools/refresh_seeds.py`.\n\n'
                '| seed | breaks | detected | rules firing in the target property\'s check | other checks firing |\n|---|---|---|---|---|\n')
        f.write('\n'.join(rows) + '\n')
    for d, meta, err in results:
        if err:
            print(d, 'ERROR', err)
        else:
            print(d, 'detected' if meta['detected'] else 'NOT DETECTED', 'target fires' if meta['target_check_fires'] else 'target silent', sorted(meta['caught_by']))


if __name__ == '__main__':
    main()
