#!/bin/sh
# tools/regress.sh — the whole both-ways regression in parallel shards (logs under /tmp/regress/):
#   selftest mutants, selftest benign edits, the saved benign refactorings per round, the kept seeded changes per round.
# Prints one summary line per shard; the merged selftest result is written to selftest/last_run.json.
cd "$(dirname "$0")/.."
L=/tmp/regress; rm -rf $L; mkdir -p $L
python3 selftest/run.py --mutants-only --out $L/mutants.json > $L/mutants.log 2>&1 &
python3 selftest/run.py --benign-only --out $L/benign.json > $L/benign.log 2>&1 &
for r in $(ls -d benign/*/ | xargs -n1 basename); do
  python3 selftest/run.py --corpus-only --only benign/$r/ --out $L/corpus-$r.json > $L/corpus-$r.log 2>&1 &
done
for r in r1 r2 r3 r4 r5 r6 r7 r8 r9; do
  ls seeded | grep -q "^$r-" && python3 tools/refresh_seeds.py $r- > $L/seeds-$r.log 2>&1 &
done
wait
python3 - <<'P'
import json, glob
out = []
for f in ['/tmp/regress/mutants.json', '/tmp/regress/benign.json']:
    out += json.load(open(f))
json.dump(out, open('selftest/last_run.json', 'w'), indent=1)
P
for f in $L/mutants.log $L/benign.log $L/corpus-*.log; do echo "$(basename $f): $(tail -1 $f)"; grep -E "^(FALSE-ALARM|MISSED|caught-by-other|SKIP|does-not)" $f; done
for f in $L/seeds-*.log; do echo "$(basename $f): $(grep -c 'detected target fires' $f) target fires, $(grep -c 'target silent' $f) target silent, $(grep -c 'NOT DETECTED' $f) missed"; grep -E "NOT DETECTED|target silent" $f; done
