#!/usr/bin/env python3
"""tools/save_seeds.py <round> <srcdir-of-Cnn/OUT dirs> [Cnn ...]
Ingest seeded changes produced by sub-agents: re-confirm each (compiles, 44 tests green, demo fails with / passes
without the change), run all checks against it, and store patch.diff, the demonstration and meta.json under
/verif/seeded/<round>-<Cnn>-<i>/ ."""
import json
import os
import re
import shutil
import subprocess
import sys

VERIF = os.path.dirname(os.path.dirname(os.path.abspath(__file__)))


def main():
    rnd, src = sys.argv[1], sys.argv[2]
    props = sys.argv[3:] or sorted(d for d in os.listdir(src) if re.match(r'^C[0-9]+$', d))
    for p in props:
        out = os.path.join(src, p, 'OUT')
        for i in (1, 2, 3):
            patch = os.path.join(out, 'change%d.diff' % i)
            demo = os.path.join(out, 'demo%d.rs' % i)
            notes = os.path.join(out, 'notes%d.md' % i)
            if not os.path.exists(patch):
                continue
            r = subprocess.run([sys.executable, os.path.join(VERIF, 'tools', 'try_seed.py'), patch, demo], stdout=subprocess.PIPE, stderr=subprocess.STDOUT, text=True)
            try:
                res = json.loads(r.stdout)
            except ValueError:
                print(p, i, 'tool error', r.stdout[-300:])
                continue
            c = res.get('confirm', {})
            good = c.get('applies') and c.get('suite_green') and c.get('demo_fails_with_change') and c.get('demo_passes_without_change')
            dest = os.path.join(VERIF, 'seeded', '%s-%s-%d' % (rnd, p, i))
            print('%s change%d: confirmed=%s fired=%s' % (p, i, bool(good), sorted((res.get('fired') or {}).keys())))
            if not good:
                print('   NOT KEPT:', {k: c.get(k) for k in ('applies', 'suite_green', 'demo_fails_with_change', 'demo_passes_without_change')})
                continue
            os.makedirs(dest, exist_ok=True)
            shutil.copy(res['patch'], os.path.join(dest, 'patch.diff'))
            shutil.copy(demo, os.path.join(dest, 'demo.rs'))
            if os.path.exists(notes):
                shutil.copy(notes, os.path.join(dest, 'notes.md'))
            needs = ''
            if os.path.exists(notes):
                needs = open(notes).read()[:1500]
            meta = {
                'id': '%s-%s-%d' % (rnd, p, i),
                'breaks_property': p,
                'source': 'fresh sub-agent given only the property text and its own scratch worktree of /repo',
                'needs_to_manifest': needs,
                'patch_rebased_onto_current_head': res.get('rebased', False),
                'what_i_ran': [
                    'scratch worktree of /repo HEAD: git apply patch.diff; cargo test --offline --lib  -> %s' % c.get('suite'),
                    'cargo test --offline --test demo (demo.rs copied to tests/) with the change -> fails: %s' % bool(c.get('demo_fails_with_change')),
                    'same demo on unchanged HEAD -> passes: %s' % bool(c.get('demo_passes_without_change')),
                    'every check\'s quick command against a scratch worktree with the patch applied (tools/try_seed.py)',
                ],
                'caught_by': {pid: v['rules'] for pid, v in (res.get('fired') or {}).items()},
                'first_report': {pid: v['first'] for pid, v in (res.get('fired') or {}).items()},
                'detected': bool(res.get('fired')),
            }
            with open(os.path.join(dest, 'meta.json'), 'w') as f:
                json.dump(meta, f, indent=1)


if __name__ == '__main__':
    main()
