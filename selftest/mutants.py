"""Mutants (each compiles, keeps the 44 tests green, must make the named rule fire)
and benign edits (behaviour-preserving; every listed check must stay silent).
Edits are (file, old text, new text) against /repo's current working tree."""

MUTANTS = [
    # ---------------------------------------------------------------- C20
    dict(id='C20-rect-corner', prop='C20', rule='R20.2', file='src/path_builder.rs',
         old='self.line_to(x + width, y + height);', new='self.line_to(x + width, y + width);'),
    dict(id='C20-rect-order', prop='C20', rule='R20.2', file='src/path_builder.rs',
         old='        self.line_to(x + width, y + height);\n        self.line_to(x, y + height);',
         new='        self.line_to(x, y + height);\n        self.line_to(x + width, y + height);'),
    dict(id='C20-transform-cubic-p2', prop='C20', rule='R20.3', file='src/path_builder.rs',
         old='                xform.transform_point(p2),\n                xform.transform_point(p3),',
         new='                p2,\n                xform.transform_point(p3),'),
    dict(id='C20-transform-swap-quad', prop='C20', rule='R20.3', file='src/path_builder.rs',
         old='                xform.transform_point(p1),\n                xform.transform_point(p2)\n',
         new='                xform.transform_point(p2),\n                xform.transform_point(p1)\n'),
    dict(id='C20-arc-swap-angles', prop='C20', rule='R20.4', file='src/path_builder.rs',
         old='            start_angle: Angle::radians(start_angle),\n            sweep_angle: Angle::radians(sweep_angle),',
         new='            start_angle: Angle::radians(sweep_angle),\n            sweep_angle: Angle::radians(start_angle),'),
    dict(id='C20-arc-no-line', prop='C20', rule='R20.4', file='src/path_builder.rs',
         old='        self.line_to(start.x, start.y);\n        a.for_each', new='        a.for_each'),
    dict(id='C20-quad-swapped-coords', prop='C20', rule='R20.1', file='src/path_builder.rs',
         old='.push(PathOp::QuadTo(Point::new(cx, cy), Point::new(x, y)))', new='.push(PathOp::QuadTo(Point::new(cx, cy), Point::new(y, x)))'),
    dict(id='C20-transform-winding', prop='C20', rule='R20.3', file='src/path_builder.rs',
         old='        Path { ops, winding }\n    }\n}\n\n/// A helper struct', new='        let _ = winding;\n        Path { ops, winding: Winding::NonZero }\n    }\n}\n\n/// A helper struct'),
]

BENIGN = [
    dict(id='B20-rect-temps', props=['C20'], file='src/path_builder.rs',
         old='        self.line_to(x + width, y);\n        self.line_to(x + width, y + height);',
         new='        let right = width + x;\n        self.line_to(right, y);\n        let bottom = height + y;\n        self.line_to(right, bottom);'),
    dict(id='B20-transform-rename', props=['C20'], file='src/path_builder.rs',
         old='            PathOp::LineTo(p) => PathOp::LineTo(xform.transform_point(p)),',
         new='            PathOp::LineTo(pt) => { let q = xform.transform_point(pt); PathOp::LineTo(q) }'),
]
