#!/usr/bin/env python3
"""Self-test of the checker, both ways (DESIGN 2.5).

  selftest/run.py [--only ID-substring] [--tests] [--benign-only|--mutants-only] [--all-props] [--corpus|--corpus-only] [--out FILE]

For every entry of mutants.py: copy /repo's working tree to a scratch directory
outside /repo and /verif, apply the textual edit, run the named property's check
against the copy (VERIF_REPO) and require that the named rule fires (mutants) or
that every listed property stays silent (benign edits).  With --tests the 44-test
suite is also run on the mutated copy (it must stay green: the mutant is one the
tests cannot see).  Nothing here decides a property; it measures rule sensitivity."""
import json
import os
import shutil
import subprocess
import sys
import tempfile

HERE = os.path.dirname(os.path.abspath(__file__))
VERIF = os.path.dirname(HERE)
sys.path.insert(0, HERE)
import mutants as M

REPO = '/repo'


def make_copy():
    d = tempfile.mkdtemp(prefix='raqote-selftest-')
    for f in ('Cargo.toml', 'Cargo.lock'):
        shutil.copy(os.path.join(REPO, f), d)
    shutil.copytree(os.path.join(REPO, 'src'), os.path.join(d, 'src'))
    for extra in ('benches', 'examples'):
        if os.path.isdir(os.path.join(REPO, extra)):
            shutil.copytree(os.path.join(REPO, extra), os.path.join(d, extra))
    return d


def apply(d, m):
    edits = m.get('edits') or [(m['file'], m['old'], m['new'])]
    saved = {}
    for f, old, new in edits:
        p = os.path.join(d, f)
        s = open(p).read()
        saved.setdefault(p, s)
        if s.count(old) < 1:
            raise RuntimeError('%s: anchor text not found in %s' % (m['id'], f))
        if s.count(old) > 1 and not m.get('all'):
            raise RuntimeError('%s: anchor text ambiguous (%d) in %s' % (m['id'], s.count(old), f))
        s = s.replace(old, new)
        open(p, 'w').write(s)
    return saved


def apply_diff(d, path):
    """apply a unified diff of the benign corpus to the copy; returns the saved contents of the files it touches"""
    import re
    files = re.findall(r'^\+\+\+ b/(\S+)', open(path).read(), re.M)
    saved = {}
    for f in files:
        p = os.path.join(d, f)
        if os.path.exists(p):
            saved[p] = open(p).read()
    r = subprocess.run(['git', 'apply', os.path.abspath(path)], cwd=d, stdout=subprocess.PIPE, stderr=subprocess.STDOUT, text=True)
    if r.returncode != 0:
        restore(saved)
        raise RuntimeError('%s does not apply: %s' % (path, r.stdout[-200:]))
    return saved


def restore(saved):
    for p, s in saved.items():
        open(p, 'w').write(s)


def run_check(d, prop, evdir, tier='quick'):
    env = dict(os.environ)
    env['VERIF_REPO'] = d
    env['VERIF_EVIDENCE_DIR'] = evdir
    r = subprocess.run([os.path.join(VERIF, 'check'), prop, '--tier', tier], cwd=VERIF, env=env,
                       stdout=subprocess.PIPE, stderr=subprocess.STDOUT, text=True)
    return r.returncode, r.stdout


def run_tests(d, tgt):
    env = dict(os.environ)
    env['CARGO_TARGET_DIR'] = tgt
    env['CARGO_NET_OFFLINE'] = 'true'
    r = subprocess.run(['cargo', 'test', '--offline', '--lib', '-q'], cwd=d, env=env,
                       stdout=subprocess.PIPE, stderr=subprocess.STDOUT, text=True)
    ok = r.returncode == 0 and 'test result: ok' in r.stdout
    return ok, r.stdout[-1500:]


ALL_PROPS = ['C%02d' % i for i in range(1, 21)]
try:
    EXPECTED = json.load(open(os.path.join(VERIF, 'benign', 'expected_fail_closed.json')))['entries']
except Exception:
    EXPECTED = {}


def main():
    args = sys.argv[1:]
    only = args[args.index('--only') + 1] if '--only' in args else None
    with_tests = '--tests' in args
    d = make_copy()
    evdir = tempfile.mkdtemp(prefix='raqote-selftest-ev-')
    tgt = tempfile.mkdtemp(prefix='raqote-selftest-tgt-') if with_tests else None
    results = []
    bad = 0
    try:
        entries = []
        if '--benign-only' not in args:
            entries += [('mutant', m) for m in M.MUTANTS]
        if '--mutants-only' not in args:
            entries += [('benign', m) for m in M.BENIGN]
        if '--corpus' in args or '--corpus-only' in args:
            # the saved behaviour-preserving refactorings (benign/<round>/*.diff, written by fresh sub-agents): every
            # property's check must stay silent on each of them
            import glob
            if '--corpus-only' in args:
                entries = []
            for path in sorted(glob.glob(os.path.join(VERIF, 'benign', '*', '*.diff'))):
                rel = os.path.relpath(path, VERIF)
                entries.append(('benign', {'id': rel, 'props': ALL_PROPS, 'diff': path}))
        for kind, m in entries:
            if only and only not in m['id']:
                continue
            try:
                saved = apply_diff(d, m['diff'] if os.path.isabs(m['diff']) else os.path.join(VERIF, m['diff'])) if m.get('diff') else apply(d, m)
            except RuntimeError as e:
                print('SKIP  %s' % e)
                results.append({'id': m['id'], 'kind': kind, 'status': 'anchor-missing'})
                bad += 1
                continue
            try:
                if kind == 'mutant':
                    rc, out = run_check(d, m['prop'], evdir, m.get('tier', 'quick'))
                    if 'could not compile' in out or 'cargo check failed' in out:
                        status = 'does-not-compile'
                    else:
                        rules = m['rule'] if isinstance(m['rule'], (list, tuple)) else [m['rule']]
                        fired = [r for r in rules if ('[%s]' % r) in out]
                        status = 'caught' if (rc == 1 and fired) else ('caught-by-other-rule' if rc == 1 else 'MISSED')
                    tests = None
                    if with_tests and status != 'does-not-compile':
                        tests, tout = run_tests(d, tgt)
                        if not tests:
                            status += '+TESTS-FAIL'
                    print('%-22s %-34s %s %s' % (status, m['id'], m['prop'], m['rule']))
                    if status not in ('caught',):
                        bad += 1
                        if status.startswith('MISSED') or status.startswith('caught-by-other'):
                            print('    ' + '\n    '.join(out.strip().splitlines()[-6:]))
                    results.append({'id': m['id'], 'kind': kind, 'prop': m['prop'], 'rule': m['rule'], 'status': status, 'tests_green': tests})
                else:
                    noisy = []
                    props = ALL_PROPS if '--all-props' in args else m['props']
                    for prop in props:
                        rc, out = run_check(d, prop, evdir)
                        if rc != 0:
                            noisy.append((prop, out))
                    status = 'silent' if not noisy else 'FALSE-ALARM'
                    documented = EXPECTED.get(m['id'])
                    if documented and noisy:
                        status = 'fail-closed(documented)'
                    elif documented and not noisy:
                        status = 'NOW-SILENT'
                    print('%-22s %-34s %s' % (status, m['id'], ','.join(m['props']) if len(m['props']) < 20 else 'all'))
                    if status == 'FALSE-ALARM':
                        for prop, out in noisy:
                            bad += 1
                            print('    ' + '\n    '.join(out.strip().splitlines()[-6:]))
                    elif status == 'fail-closed(documented)':
                        print('    %s: %s' % (','.join(p for p, o in noisy), documented[:160]))
                    results.append({'id': m['id'], 'kind': kind, 'props': m['props'], 'status': status})
            finally:
                restore(saved)
    finally:
        shutil.rmtree(d, ignore_errors=True)
        shutil.rmtree(evdir, ignore_errors=True)
        if tgt:
            shutil.rmtree(tgt, ignore_errors=True)
    outp = args[args.index('--out') + 1] if '--out' in args else os.path.join(HERE, 'last_run.json')
    with open(outp, 'w') as f:
        json.dump(results, f, indent=1)
    print('%d entries, %d not as expected' % (len(results), bad))
    return 1 if bad else 0


if __name__ == '__main__':
    sys.exit(main())
