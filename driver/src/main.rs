// mirfacts: a rustc_private driver that serialises the type-checked MIR of the
// local crate (bodies, places with resolved field names, constants, resolved
// callees, ADT tables, trait impls) as one JSON document.  It contains no
// property logic; the rules live in /verif/rules (Python).
//
// Invocation: as RUSTC_WORKSPACE_WRAPPER under `cargo +nightly check`; argv[1]
// is the real rustc path and is dropped.  Output file: $MIRFACTS_OUT (one write
// per process).  Only the crate named $MIRFACTS_CRATE (default "raqote") is
// dumped.
#![feature(rustc_private)]
#![allow(clippy::all)]

extern crate rustc_abi;
extern crate rustc_driver;
extern crate rustc_hir;
extern crate rustc_interface;
extern crate rustc_middle;
extern crate rustc_session;
extern crate rustc_span;

use rustc_driver::Compilation;
use rustc_hir::def::DefKind;
use rustc_hir::def_id::{DefId, LocalDefId, LOCAL_CRATE};
use rustc_middle::mir::{
    self, AggregateKind, BasicBlock, Body, BorrowKind, CastKind, Const, Operand, Place,
    PlaceElem, Rvalue, StatementKind, TerminatorKind, VarDebugInfoContents,
};
use rustc_middle::ty::print::with_no_trimmed_paths;
use rustc_middle::ty::{self, Instance, Ty, TyCtxt, TypingEnv};
use rustc_span::Span;
use std::fmt::Write as _;

// ---------------------------------------------------------------- JSON writer
struct J {
    s: String,
}
impl J {
    fn new() -> J {
        J { s: String::with_capacity(1 << 22) }
    }
    fn raw(&mut self, t: &str) {
        self.s.push_str(t);
    }
    fn str(&mut self, t: &str) {
        self.s.push('"');
        for c in t.chars() {
            match c {
                '"' => self.s.push_str("\\\""),
                '\\' => self.s.push_str("\\\\"),
                '\n' => self.s.push_str("\\n"),
                '\r' => self.s.push_str("\\r"),
                '\t' => self.s.push_str("\\t"),
                c if (c as u32) < 0x20 => {
                    let _ = write!(self.s, "\\u{:04x}", c as u32);
                }
                c => self.s.push(c),
            }
        }
        self.s.push('"');
    }
    fn key(&mut self, k: &str) {
        self.str(k);
        self.s.push(':');
    }
    fn kv_str(&mut self, k: &str, v: &str) {
        self.key(k);
        self.str(v);
    }
    fn kv_raw(&mut self, k: &str, v: &str) {
        self.key(k);
        self.raw(v);
    }
    fn comma(&mut self) {
        self.s.push(',');
    }
    fn trim_comma(&mut self) {
        if self.s.ends_with(',') {
            self.s.pop();
        }
    }
}

// ---------------------------------------------------------------- naming
fn ty_str<'tcx>(ty: Ty<'tcx>) -> String {
    with_no_trimmed_paths!(ty.to_string())
}

fn path_str(tcx: TyCtxt<'_>, did: DefId) -> String {
    with_no_trimmed_paths!(tcx.def_path_str(did))
}

/// A line-free, impl-number-free qualified name for an item:
///   free fn                  raqote::geom::intrect
///   inherent method          raqote::draw_target::DrawTarget::composite
///   trait impl method        <raqote::blitter::ShaderMaskBlitter as raqote::blitter::Blitter>::blit_span
///   closure                  <parent qname>::{closure#k}
///   nested item in a fn      <parent qname>::Name
fn qname(tcx: TyCtxt<'_>, did: DefId) -> String {
    let kind = tcx.def_kind(did);
    match kind {
        DefKind::Closure | DefKind::InlineConst | DefKind::AnonConst => {
            let parent = tcx.parent(did);
            let key = tcx.def_key(did);
            return format!(
                "{}::{{{}#{}}}",
                qname(tcx, parent),
                match kind {
                    DefKind::Closure => "closure",
                    DefKind::InlineConst => "inline_const",
                    _ => "anon_const",
                },
                key.disambiguated_data.disambiguator
            );
        }
        _ => {}
    }
    if let Some(name) = tcx.opt_item_name(did) {
        if let Some(parent) = tcx.opt_parent(did) {
            match tcx.def_kind(parent) {
                DefKind::Impl { of_trait } => {
                    let self_ty = tcx.type_of(parent).instantiate_identity().skip_norm_wip();
                    let self_s = self_ty_name(tcx, self_ty);
                    if of_trait {
                        let tr = tcx.impl_trait_ref(parent).instantiate_identity().skip_norm_wip();
                        return format!("<{} as {}>::{}", self_s, trait_ref_name(tcx, tr), name);
                    } else {
                        return format!("{}::{}", self_s, name);
                    }
                }
                DefKind::Mod => {
                    if parent.is_crate_root() {
                        return format!("{}::{}", tcx.crate_name(parent.krate), name);
                    }
                    return format!("{}::{}", qname(tcx, parent), name);
                }
                DefKind::Trait => {
                    return format!("{}::{}", item_name(tcx, parent), name);
                }
                _ => {
                    return format!("{}::{}", qname(tcx, parent), name);
                }
            }
        }
        return name.to_string();
    }
    if did.is_crate_root() {
        return tcx.crate_name(did.krate).to_string();
    }
    // impls and other unnamed things
    match kind {
        DefKind::Impl { of_trait } => {
            let self_ty = tcx.type_of(did).instantiate_identity().skip_norm_wip();
            let self_s = self_ty_name(tcx, self_ty);
            if of_trait {
                let tr = tcx.impl_trait_ref(did).instantiate_identity().skip_norm_wip();
                format!("<{} as {}>", self_s, trait_ref_name(tcx, tr))
            } else {
                format!("<impl {}>", self_s)
            }
        }
        _ => path_str(tcx, did),
    }
}

/// Name of a self type without generic arguments: ADTs by their qname (so nested
/// ADTs declared inside functions keep a stable name), everything else printed.
fn self_ty_name<'tcx>(tcx: TyCtxt<'tcx>, ty: Ty<'tcx>) -> String {
    match ty.kind() {
        ty::Adt(def, _) => {
            if def.did().is_local() {
                qname(tcx, def.did())
            } else {
                path_str(tcx, def.did())
            }
        }
        _ => ty_str(ty),
    }
}


fn trait_ref_name<'tcx>(tcx: TyCtxt<'tcx>, tr: ty::TraitRef<'tcx>) -> String {
    let base = item_name(tcx, tr.def_id);
    let rest: Vec<String> = tr.args.iter().skip(1).filter_map(|a| a.as_type()).map(|t| self_ty_name(tcx, t)).collect();
    if rest.is_empty() { base } else { format!("{}<{}>", base, rest.join(",")) }
}

fn item_name(tcx: TyCtxt<'_>, did: DefId) -> String {
    if did.is_local() {
        qname(tcx, did)
    } else {
        path_str(tcx, did)
    }
}

// ---------------------------------------------------------------- emitter
struct Em<'a, 'tcx> {
    tcx: TyCtxt<'tcx>,
    body: &'a Body<'tcx>,
    env: TypingEnv<'tcx>,
    j: &'a mut J,
}

fn span_json(tcx: TyCtxt<'_>, j: &mut J, sp: Span) {
    let sm = tcx.sess.source_map();
    let lo = sm.lookup_char_pos(sp.lo());
    let hi = sm.lookup_char_pos(sp.hi());
    let fname = format!("{}", lo.file.name.prefer_local_unconditionally());
    j.raw("{");
    j.kv_str("f", &fname);
    j.comma();
    j.kv_raw("l", &lo.line.to_string());
    j.comma();
    j.kv_raw("c", &lo.col.0.to_string());
    j.comma();
    j.kv_raw("l2", &hi.line.to_string());
    j.comma();
    j.kv_raw("exp", if sp.from_expansion() { "true" } else { "false" });
    j.raw("}");
}

impl<'a, 'tcx> Em<'a, 'tcx> {
    fn place(&mut self, p: &Place<'tcx>) {
        let tcx = self.tcx;
        self.j.raw("{");
        self.j.kv_raw("l", &p.local.as_usize().to_string());
        self.j.comma();
        self.j.key("pr");
        self.j.raw("[");
        let mut pty = mir::PlaceTy::from_ty(self.body.local_decls[p.local].ty);
        for elem in p.projection.iter() {
            self.j.raw("{");
            match elem {
                PlaceElem::Deref => {
                    self.j.kv_str("k", "deref");
                }
                PlaceElem::Field(f, _fty) => {
                    self.j.kv_str("k", "field");
                    self.j.comma();
                    self.j.kv_raw("i", &f.as_usize().to_string());
                    match pty.ty.kind() {
                        ty::Adt(adt, _) => {
                            let vidx = pty.variant_index.unwrap_or(rustc_abi::FIRST_VARIANT);
                            let v = adt.variant(vidx);
                            let fname = v.fields[f].name.to_string();
                            self.j.comma();
                            self.j.kv_str("n", &fname);
                            self.j.comma();
                            self.j.kv_str("adt", &item_name(tcx, adt.did()));
                            if adt.is_enum() {
                                self.j.comma();
                                self.j.kv_str("v", &v.name.to_string());
                            }
                        }
                        ty::Tuple(_) => {
                            self.j.comma();
                            self.j.kv_str("n", &f.as_usize().to_string());
                            self.j.comma();
                            self.j.kv_str("adt", "(tuple)");
                        }
                        ty::Closure(..) => {
                            self.j.comma();
                            self.j.kv_str("n", &format!("upvar{}", f.as_usize()));
                            self.j.comma();
                            self.j.kv_str("adt", "(closure)");
                        }
                        _ => {
                            self.j.comma();
                            self.j.kv_str("n", &f.as_usize().to_string());
                            self.j.comma();
                            self.j.kv_str("adt", "(other)");
                        }
                    }
                }
                PlaceElem::Index(l) => {
                    self.j.kv_str("k", "index");
                    self.j.comma();
                    self.j.kv_raw("l", &l.as_usize().to_string());
                }
                PlaceElem::ConstantIndex { offset, min_length, from_end } => {
                    self.j.kv_str("k", "cidx");
                    self.j.comma();
                    self.j.kv_raw("off", &offset.to_string());
                    self.j.comma();
                    self.j.kv_raw("min", &min_length.to_string());
                    self.j.comma();
                    self.j.kv_raw("end", if from_end { "true" } else { "false" });
                }
                PlaceElem::Subslice { from, to, from_end } => {
                    self.j.kv_str("k", "subslice");
                    self.j.comma();
                    self.j.kv_raw("from", &from.to_string());
                    self.j.comma();
                    self.j.kv_raw("to", &to.to_string());
                    self.j.comma();
                    self.j.kv_raw("end", if from_end { "true" } else { "false" });
                }
                PlaceElem::Downcast(name, vidx) => {
                    self.j.kv_str("k", "downcast");
                    self.j.comma();
                    let n = match name {
                        Some(s) => s.to_string(),
                        None => match pty.ty.kind() {
                            ty::Adt(adt, _) => adt.variant(vidx).name.to_string(),
                            _ => vidx.as_usize().to_string(),
                        },
                    };
                    self.j.kv_str("v", &n);
                    if let ty::Adt(adt, _) = pty.ty.kind() {
                        self.j.comma();
                        self.j.kv_str("adt", &item_name(tcx, adt.did()));
                    }
                }
                PlaceElem::OpaqueCast(_) => {
                    self.j.kv_str("k", "opaque");
                }
                PlaceElem::UnwrapUnsafeBinder(_) => {
                    self.j.kv_str("k", "unwrap_binder");
                }
            }
            self.j.raw("}");
            self.j.comma();
            pty = pty.projection_ty(tcx, elem);
        }
        self.j.trim_comma();
        self.j.raw("]}");
    }

    fn fn_def(&mut self, did: DefId, args: ty::GenericArgsRef<'tcx>) {
        // "def": item name, "substs": [...], optional "trait", "self", "res", "res_substs"
        let tcx = self.tcx;
        self.j.kv_str("def", &item_name(tcx, did));
        self.j.comma();
        self.j.kv_str("path", &path_str(tcx, did));
        self.j.comma();
        self.j.kv_str("name", &tcx.opt_item_name(did).map(|s| s.to_string()).unwrap_or_default());
        self.j.comma();
        self.j.kv_raw("local", if did.is_local() { "true" } else { "false" });
        self.j.comma();
        self.j.key("substs");
        self.j.raw("[");
        for a in args.iter() {
            let s = with_no_trimmed_paths!(a.to_string());
            self.j.str(&s);
            self.j.comma();
        }
        self.j.trim_comma();
        self.j.raw("]");
        // also give ADT names of type substs without their own generics (for table rules)
        self.j.comma();
        self.j.key("subst_heads");
        self.j.raw("[");
        for a in args.iter() {
            let s = match a.as_type() {
                Some(t) => match t.kind() {
                    ty::Adt(d, _) => item_name(tcx, d.did()),
                    ty::Param(p) => format!("param:{}", p.name),
                    _ => ty_str(t),
                },
                None => String::from("-"),
            };
            self.j.str(&s);
            self.j.comma();
        }
        self.j.trim_comma();
        self.j.raw("]");
        if let Some(assoc) = tcx.opt_associated_item(did) {
            if let Some(tr) = assoc.trait_container(tcx) {
                self.j.comma();
                self.j.kv_str("trait", &item_name(tcx, tr));
                if let Some(t) = args.get(0).and_then(|a| a.as_type()) {
                    self.j.comma();
                    self.j.kv_str("self", &ty_str(t));
                    self.j.comma();
                    self.j.kv_str("self_head", &match t.kind() {
                        ty::Adt(d, _) => item_name(tcx, d.did()),
                        ty::Param(p) => format!("param:{}", p.name),
                        ty::Dynamic(..) => format!("dyn:{}", ty_str(t)),
                        ty::Ref(_, inner, _) => match inner.kind() {
                            ty::Adt(d, _) => format!("&{}", item_name(tcx, d.did())),
                            _ => ty_str(t),
                        },
                        _ => ty_str(t),
                    });
                }
            } else if let Some(imp) = assoc.impl_container(tcx) {
                if tcx.impl_opt_trait_ref(imp).is_some() {
                    let tr = tcx.impl_trait_ref(imp).instantiate_identity().skip_norm_wip();
                    self.j.comma();
                    self.j.kv_str("impl_trait", &item_name(tcx, tr.def_id));
                }
            }
        }
        // resolution
        if let Ok(Some(inst)) = Instance::try_resolve(tcx, self.env, did, args) {
            let rdid = inst.def_id();
            if rdid != did {
                self.j.comma();
                self.j.kv_str("res", &item_name(tcx, rdid));
            }
            self.j.comma();
            self.j.kv_str("res_kind", match inst.def {
                ty::InstanceKind::Item(_) => "item",
                ty::InstanceKind::Virtual(..) => "virtual",
                ty::InstanceKind::Intrinsic(_) => "intrinsic",
                ty::InstanceKind::ClosureOnceShim { .. } => "closure_once_shim",
                ty::InstanceKind::FnPtrShim(..) => "fnptr_shim",
                ty::InstanceKind::ReifyShim(..) => "reify_shim",
                ty::InstanceKind::DropGlue(..) => "drop_glue",
                ty::InstanceKind::CloneShim(..) => "clone_shim",
                _ => "other",
            });
        }
    }

    fn constant(&mut self, c: &mir::ConstOperand<'tcx>) {
        let tcx = self.tcx;
        let ty = c.const_.ty();
        self.j.raw("{");
        self.j.kv_str("k", "const");
        self.j.comma();
        self.j.kv_str("ty", &ty_str(ty));
        match ty.kind() {
            ty::FnDef(did, args) => {
                self.j.comma();
                self.j.key("fn");
                self.j.raw("{");
                self.fn_def(*did, args);
                self.j.raw("}");
            }
            _ => {
                if let Const::Unevaluated(uv, _) = c.const_ {
                    self.j.comma();
                    if let Some(p) = uv.promoted {
                        self.j.kv_raw("promoted", &p.as_usize().to_string());
                    } else {
                        self.j.kv_str("cdef", &item_name(tcx, uv.def));
                    }
                }
                if ty.is_integral() || ty.is_bool() || ty.is_char() || ty.is_floating_point() {
                    if let Some(si) = c.const_.try_eval_scalar_int(tcx, self.env) {
                        let size = si.size();
                        let bits = si.to_bits(size);
                        self.j.comma();
                        self.j.kv_str("bits", &bits.to_string());
                        self.j.comma();
                        self.j.kv_raw("size", &size.bytes().to_string());
                        // convenience: signed interpretation / float text
                        let val = if ty.is_floating_point() {
                            match size.bytes() {
                                4 => format!("{:?}", f32::from_bits(bits as u32)),
                                8 => format!("{:?}", f64::from_bits(bits as u64)),
                                _ => String::from("?"),
                            }
                        } else if ty.is_signed() {
                            let sh = 128 - size.bits() as u32;
                            (((bits as i128) << sh) >> sh).to_string()
                        } else {
                            bits.to_string()
                        };
                        self.j.comma();
                        self.j.kv_str("val", &val);
                    }
                } else if let ty::Adt(..) | ty::Tuple(..) | ty::Ref(..) | ty::Array(..) = ty.kind() {
                    // zero-sized or aggregate constants: print debug text (bounded)
                    let mut s = format!("{:?}", c.const_);
                    if s.len() > 200 {
                        s.truncate(200);
                    }
                    self.j.comma();
                    self.j.kv_str("text", &s);
                }
            }
        }
        self.j.raw("}");
    }

    fn operand(&mut self, o: &Operand<'tcx>) {
        match o {
            Operand::Copy(p) => {
                self.j.raw("{");
                self.j.kv_str("k", "copy");
                self.j.comma();
                self.j.key("p");
                self.place(p);
                self.j.raw("}");
            }
            Operand::Move(p) => {
                self.j.raw("{");
                self.j.kv_str("k", "move");
                self.j.comma();
                self.j.key("p");
                self.place(p);
                self.j.raw("}");
            }
            Operand::Constant(c) => self.constant(c),
            Operand::RuntimeChecks(rc) => {
                self.j.raw("{");
                self.j.kv_str("k", "rtcheck");
                self.j.comma();
                self.j.kv_str("what", &format!("{:?}", rc));
                self.j.raw("}");
            }
        }
    }

    fn rvalue(&mut self, rv: &Rvalue<'tcx>) {
        let tcx = self.tcx;
        self.j.raw("{");
        match rv {
            Rvalue::Use(o, _) => {
                self.j.kv_str("k", "use");
                self.j.comma();
                self.j.key("o");
                self.operand(o);
            }
            Rvalue::Repeat(o, n) => {
                self.j.kv_str("k", "repeat");
                self.j.comma();
                self.j.key("o");
                self.operand(o);
                self.j.comma();
                self.j.kv_str("n", &format!("{}", n));
            }
            Rvalue::Ref(_, bk, p) => {
                self.j.kv_str("k", "ref");
                self.j.comma();
                self.j.kv_raw("mut", if matches!(bk, BorrowKind::Mut { .. }) { "true" } else { "false" });
                self.j.comma();
                self.j.key("p");
                self.place(p);
            }
            Rvalue::ThreadLocalRef(d) => {
                self.j.kv_str("k", "tlref");
                self.j.comma();
                self.j.kv_str("def", &item_name(tcx, *d));
            }
            Rvalue::RawPtr(kind, p) => {
                self.j.kv_str("k", "rawptr");
                self.j.comma();
                self.j.kv_raw("mut", if matches!(kind, mir::RawPtrKind::Mut) { "true" } else { "false" });
                self.j.comma();
                self.j.key("p");
                self.place(p);
            }
            Rvalue::Cast(ck, o, ty) => {
                self.j.kv_str("k", "cast");
                self.j.comma();
                let cks = match ck {
                    CastKind::PointerCoercion(pc, _) => format!("PointerCoercion({:?})", pc),
                    other => format!("{:?}", other),
                };
                self.j.kv_str("ck", &cks);
                self.j.comma();
                self.j.kv_str("ty", &ty_str(*ty));
                self.j.comma();
                self.j.kv_str("from_ty", &ty_str(o.ty(&self.body.local_decls, tcx)));
                self.j.comma();
                self.j.key("o");
                self.operand(o);
            }
            Rvalue::BinaryOp(op, ab) => {
                self.j.kv_str("k", "binop");
                self.j.comma();
                self.j.kv_str("op", &format!("{:?}", op));
                self.j.comma();
                self.j.kv_str("ty", &ty_str(ab.0.ty(&self.body.local_decls, tcx)));
                self.j.comma();
                self.j.key("a");
                self.operand(&ab.0);
                self.j.comma();
                self.j.key("b");
                self.operand(&ab.1);
            }
            Rvalue::UnaryOp(op, o) => {
                self.j.kv_str("k", "unop");
                self.j.comma();
                self.j.kv_str("op", &format!("{:?}", op));
                self.j.comma();
                self.j.kv_str("ty", &ty_str(o.ty(&self.body.local_decls, tcx)));
                self.j.comma();
                self.j.key("o");
                self.operand(o);
            }
            Rvalue::Discriminant(p) => {
                self.j.kv_str("k", "discr");
                self.j.comma();
                let pty = p.ty(&self.body.local_decls, tcx).ty;
                if let ty::Adt(adt, _) = pty.kind() {
                    self.j.kv_str("adt", &item_name(tcx, adt.did()));
                    self.j.comma();
                }
                self.j.key("p");
                self.place(p);
            }
            Rvalue::Aggregate(kind, ops) => {
                self.j.kv_str("k", "agg");
                self.j.comma();
                match &**kind {
                    AggregateKind::Array(t) => {
                        self.j.kv_str("ak", "array");
                        self.j.comma();
                        self.j.kv_str("ty", &ty_str(*t));
                    }
                    AggregateKind::Tuple => {
                        self.j.kv_str("ak", "tuple");
                    }
                    AggregateKind::Adt(did, vidx, args, _, _) => {
                        self.j.kv_str("ak", "adt");
                        self.j.comma();
                        self.j.kv_str("adt", &item_name(tcx, *did));
                        let adt = tcx.adt_def(*did);
                        let v = adt.variant(*vidx);
                        self.j.comma();
                        self.j.kv_str("v", &v.name.to_string());
                        self.j.comma();
                        self.j.key("fields");
                        self.j.raw("[");
                        for f in v.fields.iter() {
                            self.j.str(&f.name.to_string());
                            self.j.comma();
                        }
                        self.j.trim_comma();
                        self.j.raw("]");
                        self.j.comma();
                        self.j.key("substs");
                        self.j.raw("[");
                        for a in args.iter() {
                            let s = with_no_trimmed_paths!(a.to_string());
                            self.j.str(&s);
                            self.j.comma();
                        }
                        self.j.trim_comma();
                        self.j.raw("]");
                    }
                    AggregateKind::Closure(did, _) => {
                        self.j.kv_str("ak", "closure");
                        self.j.comma();
                        self.j.kv_str("def", &item_name(tcx, *did));
                    }
                    AggregateKind::Coroutine(did, _) | AggregateKind::CoroutineClosure(did, _) => {
                        self.j.kv_str("ak", "coroutine");
                        self.j.comma();
                        self.j.kv_str("def", &item_name(tcx, *did));
                    }
                    AggregateKind::RawPtr(t, _) => {
                        self.j.kv_str("ak", "rawptr");
                        self.j.comma();
                        self.j.kv_str("ty", &ty_str(*t));
                    }
                }
                self.j.comma();
                self.j.key("ops");
                self.j.raw("[");
                for o in ops.iter() {
                    self.operand(o);
                    self.j.comma();
                }
                self.j.trim_comma();
                self.j.raw("]");
            }
            Rvalue::CopyForDeref(p) => {
                self.j.kv_str("k", "use");
                self.j.comma();
                self.j.key("o");
                self.j.raw("{");
                self.j.kv_str("k", "copy");
                self.j.comma();
                self.j.key("p");
                self.place(p);
                self.j.raw("}");
            }
            Rvalue::WrapUnsafeBinder(o, _) => {
                self.j.kv_str("k", "use");
                self.j.comma();
                self.j.key("o");
                self.operand(o);
            }
        }
        self.j.raw("}");
    }

    fn bb(&mut self, b: BasicBlock) -> String {
        b.as_usize().to_string()
    }

    fn body(&mut self) {
        let tcx = self.tcx;
        let body = self.body;
        // locals
        self.j.key("locals");
        self.j.raw("[");
        let mut names: Vec<Option<String>> = vec![None; body.local_decls.len()];
        for vdi in body.var_debug_info.iter() {
            if let VarDebugInfoContents::Place(p) = &vdi.value {
                if p.projection.is_empty() {
                    names[p.local.as_usize()] = Some(vdi.name.to_string());
                }
            }
        }
        for (l, decl) in body.local_decls.iter_enumerated() {
            self.j.raw("{");
            self.j.kv_str("ty", &ty_str(decl.ty));
            if let Some(n) = &names[l.as_usize()] {
                self.j.comma();
                self.j.kv_str("name", n);
            }
            self.j.raw("}");
            self.j.comma();
        }
        self.j.trim_comma();
        self.j.raw("]");
        self.j.comma();
        // debug info for projected places (closure upvars)
        self.j.key("debug");
        self.j.raw("[");
        for vdi in body.var_debug_info.iter() {
            if let VarDebugInfoContents::Place(p) = &vdi.value {
                self.j.raw("{");
                self.j.kv_str("name", &vdi.name.to_string());
                self.j.comma();
                self.j.key("p");
                self.place(p);
                self.j.raw("}");
                self.j.comma();
            }
        }
        self.j.trim_comma();
        self.j.raw("]");
        self.j.comma();
        self.j.kv_raw("argc", &body.arg_count.to_string());
        self.j.comma();
        self.j.key("blocks");
        self.j.raw("[");
        for (_bb, data) in body.basic_blocks.iter_enumerated() {
            self.j.raw("{");
            if data.is_cleanup {
                self.j.kv_raw("cleanup", "true");
                self.j.comma();
            }
            self.j.key("st");
            self.j.raw("[");
            for st in data.statements.iter() {
                match &st.kind {
                    StatementKind::Assign(b) => {
                        let (p, rv) = &**b;
                        self.j.raw("{");
                        self.j.kv_str("k", "assign");
                        self.j.comma();
                        self.j.key("p");
                        self.place(p);
                        self.j.comma();
                        self.j.key("rv");
                        self.rvalue(rv);
                        self.j.comma();
                        self.j.kv_str("ty", &ty_str(p.ty(&body.local_decls, tcx).ty));
                        self.j.comma();
                        self.j.key("sp");
                        span_json(tcx, self.j, st.source_info.span);
                        self.j.raw("}");
                        self.j.comma();
                    }
                    StatementKind::SetDiscriminant { place, variant_index } => {
                        self.j.raw("{");
                        self.j.kv_str("k", "setdiscr");
                        self.j.comma();
                        self.j.key("p");
                        self.place(place);
                        self.j.comma();
                        self.j.kv_raw("vi", &variant_index.as_usize().to_string());
                        self.j.comma();
                        self.j.key("sp");
                        span_json(tcx, self.j, st.source_info.span);
                        self.j.raw("}");
                        self.j.comma();
                    }
                    StatementKind::Intrinsic(i) => {
                        self.j.raw("{");
                        self.j.kv_str("k", "intrinsic");
                        self.j.comma();
                        self.j.kv_str("text", &format!("{:?}", i));
                        self.j.comma();
                        self.j.key("sp");
                        span_json(tcx, self.j, st.source_info.span);
                        self.j.raw("}");
                        self.j.comma();
                    }
                    _ => {}
                }
            }
            self.j.trim_comma();
            self.j.raw("]");
            self.j.comma();
            self.j.key("t");
            let term = data.terminator();
            self.j.raw("{");
            match &term.kind {
                TerminatorKind::Goto { target } => {
                    self.j.kv_str("k", "goto");
                    self.j.comma();
                    let t = self.bb(*target);
                    self.j.kv_raw("t", &t);
                }
                TerminatorKind::SwitchInt { discr, targets } => {
                    self.j.kv_str("k", "switch");
                    self.j.comma();
                    self.j.key("o");
                    self.operand(discr);
                    self.j.comma();
                    self.j.kv_str("ty", &ty_str(discr.ty(&body.local_decls, tcx)));
                    self.j.comma();
                    self.j.key("targets");
                    self.j.raw("[");
                    for (v, t) in targets.iter() {
                        let _ = write!(self.j.s, "[\"{}\",{}],", v, t.as_usize());
                    }
                    self.j.trim_comma();
                    self.j.raw("]");
                    self.j.comma();
                    let t = self.bb(targets.otherwise());
                    self.j.kv_raw("otherwise", &t);
                }
                TerminatorKind::UnwindResume => {
                    self.j.kv_str("k", "resume");
                }
                TerminatorKind::UnwindTerminate(_) => {
                    self.j.kv_str("k", "terminate");
                }
                TerminatorKind::Return => {
                    self.j.kv_str("k", "return");
                }
                TerminatorKind::Unreachable => {
                    self.j.kv_str("k", "unreachable");
                }
                TerminatorKind::Drop { place, target, .. } => {
                    self.j.kv_str("k", "drop");
                    self.j.comma();
                    self.j.key("p");
                    self.place(place);
                    self.j.comma();
                    let t = self.bb(*target);
                    self.j.kv_raw("t", &t);
                }
                TerminatorKind::Call { func, args, destination, target, .. } => {
                    self.j.kv_str("k", "call");
                    self.j.comma();
                    self.j.key("f");
                    self.operand(func);
                    self.j.comma();
                    self.j.key("args");
                    self.j.raw("[");
                    for a in args.iter() {
                        self.operand(&a.node);
                        self.j.comma();
                    }
                    self.j.trim_comma();
                    self.j.raw("]");
                    self.j.comma();
                    self.j.key("arg_tys");
                    self.j.raw("[");
                    for a in args.iter() {
                        let t = a.node.ty(&body.local_decls, tcx);
                        self.j.str(&ty_str(t));
                        self.j.comma();
                    }
                    self.j.trim_comma();
                    self.j.raw("]");
                    self.j.comma();
                    self.j.kv_str("dest_ty", &ty_str(destination.ty(&body.local_decls, tcx).ty));
                    self.j.comma();
                    self.j.key("dest");
                    self.place(destination);
                    if let Some(t) = target {
                        self.j.comma();
                        let t = self.bb(*t);
                        self.j.kv_raw("t", &t);
                    }
                }
                TerminatorKind::TailCall { func, args, .. } => {
                    self.j.kv_str("k", "tailcall");
                    self.j.comma();
                    self.j.key("f");
                    self.operand(func);
                    self.j.comma();
                    self.j.key("args");
                    self.j.raw("[");
                    for a in args.iter() {
                        self.operand(&a.node);
                        self.j.comma();
                    }
                    self.j.trim_comma();
                    self.j.raw("]");
                }
                TerminatorKind::Assert { cond, expected, msg, target, .. } => {
                    self.j.kv_str("k", "assert");
                    self.j.comma();
                    self.j.key("o");
                    self.operand(cond);
                    self.j.comma();
                    self.j.kv_raw("expected", if *expected { "true" } else { "false" });
                    self.j.comma();
                    let kind = match &**msg {
                        mir::AssertKind::BoundsCheck { .. } => "BoundsCheck".to_string(),
                        mir::AssertKind::Overflow(op, _, _) => format!("Overflow({:?})", op),
                        mir::AssertKind::OverflowNeg(_) => "OverflowNeg".to_string(),
                        mir::AssertKind::DivisionByZero(_) => "DivisionByZero".to_string(),
                        mir::AssertKind::RemainderByZero(_) => "RemainderByZero".to_string(),
                        mir::AssertKind::MisalignedPointerDereference { .. } => "Misaligned".to_string(),
                        mir::AssertKind::NullPointerDereference => "NullDeref".to_string(),
                        other => {
                            let mut s = format!("{:?}", other);
                            s.truncate(40);
                            s
                        }
                    };
                    self.j.kv_str("msg", &kind);
                    if let mir::AssertKind::BoundsCheck { len, index } = &**msg {
                        self.j.comma();
                        self.j.key("len");
                        self.operand(len);
                        self.j.comma();
                        self.j.key("index");
                        self.operand(index);
                    }
                    self.j.comma();
                    let t = self.bb(*target);
                    self.j.kv_raw("t", &t);
                }
                TerminatorKind::FalseEdge { real_target, .. } => {
                    self.j.kv_str("k", "goto");
                    self.j.comma();
                    let t = self.bb(*real_target);
                    self.j.kv_raw("t", &t);
                }
                TerminatorKind::FalseUnwind { real_target, .. } => {
                    self.j.kv_str("k", "goto");
                    self.j.comma();
                    let t = self.bb(*real_target);
                    self.j.kv_raw("t", &t);
                }
                TerminatorKind::InlineAsm { .. } => {
                    self.j.kv_str("k", "asm");
                }
                TerminatorKind::Yield { .. } | TerminatorKind::CoroutineDrop => {
                    self.j.kv_str("k", "coroutine");
                }
            }
            self.j.comma();
            self.j.key("sp");
            span_json(tcx, self.j, term.source_info.span);
            self.j.raw("}");
            self.j.raw("}");
            self.j.comma();
        }
        self.j.trim_comma();
        self.j.raw("]");
    }
}

fn dump_body<'tcx>(tcx: TyCtxt<'tcx>, j: &mut J, ldid: LocalDefId) {
    let did = ldid.to_def_id();
    let kind = tcx.def_kind(did);
    let body: &Body<'tcx> = tcx.optimized_mir(did);
    let env = TypingEnv::post_analysis(tcx, did);
    j.raw("{");
    j.kv_str("q", &qname(tcx, did));
    j.comma();
    j.kv_str("path", &path_str(tcx, did));
    j.comma();
    j.kv_str("defpath", &tcx.def_path(did).to_string_no_crate_verbose());
    j.comma();
    j.kv_str("kind", &format!("{:?}", kind));
    j.comma();
    j.kv_str("name", &tcx.opt_item_name(did).map(|s| s.to_string()).unwrap_or_default());
    j.comma();
    if matches!(kind, DefKind::Fn | DefKind::AssocFn) {
        let vis = tcx.visibility(did);
        j.kv_str("vis", &match vis {
            ty::Visibility::Public => "pub".to_string(),
            ty::Visibility::Restricted(m) => {
                if m.is_crate_root() { "crate".to_string() } else { format!("in:{}", item_name(tcx, m)) }
            }
        });
        j.comma();
        let sig = tcx.fn_sig(did).instantiate_identity().skip_norm_wip();
        j.kv_str("sig", &with_no_trimmed_paths!(format!("{}", sig)));
        j.comma();
    }
    if let Some(assoc) = tcx.opt_associated_item(did) {
        if let Some(imp) = assoc.impl_container(tcx) {
            let self_ty = tcx.type_of(imp).instantiate_identity().skip_norm_wip();
            j.kv_str("impl_self", &self_ty_name(tcx, self_ty));
            j.comma();
            j.kv_str("impl_self_ty", &ty_str(self_ty));
            j.comma();
            if tcx.impl_opt_trait_ref(imp).is_some() {
                let tr = tcx.impl_trait_ref(imp).instantiate_identity().skip_norm_wip();
                j.kv_str("impl_trait", &item_name(tcx, tr.def_id));
                j.comma();
            }
        }
    }
    if matches!(kind, DefKind::Closure) {
        j.kv_str("parent", &qname(tcx, tcx.parent(did)));
        j.comma();
    }
    j.key("sp");
    span_json(tcx, j, tcx.def_span(did));
    j.comma();
    let full = body.span;
    j.key("body_sp");
    span_json(tcx, j, full);
    j.comma();
    let mut em = Em { tcx, body, env, j };
    em.body();
    // promoted constants of this body (e.g. `&BlendMode::SrcOver` in a comparison)
    j.comma();
    j.key("promoted");
    j.raw("[");
    let proms = tcx.promoted_mir(did);
    for pb in proms.iter() {
        j.raw("{");
        let mut em = Em { tcx, body: pb, env, j };
        em.body();
        j.raw("}");
        j.comma();
    }
    j.trim_comma();
    j.raw("]");
    j.raw("}");
}

fn dump_adts<'tcx>(tcx: TyCtxt<'tcx>, j: &mut J) {
    j.key("adts");
    j.raw("[");
    for ldid in tcx.hir_crate_items(()).definitions() {
        let did = ldid.to_def_id();
        let kind = tcx.def_kind(did);
        if !matches!(kind, DefKind::Struct | DefKind::Enum | DefKind::Union) {
            continue;
        }
        let adt = tcx.adt_def(did);
        j.raw("{");
        j.kv_str("q", &qname(tcx, did));
        j.comma();
        j.kv_str("kind", &format!("{:?}", kind));
        j.comma();
        j.key("sp");
        span_json(tcx, j, tcx.def_span(did));
        j.comma();
        j.key("variants");
        j.raw("[");
        for (vi, v) in adt.variants().iter_enumerated() {
            j.raw("{");
            j.kv_str("name", &v.name.to_string());
            j.comma();
            j.kv_raw("idx", &vi.as_usize().to_string());
            if adt.is_enum() {
                let d = adt.discriminant_for_variant(tcx, vi);
                j.comma();
                j.kv_str("discr", &d.val.to_string());
            }
            j.comma();
            j.key("fields");
            j.raw("[");
            for f in v.fields.iter() {
                j.raw("{");
                j.kv_str("name", &f.name.to_string());
                j.comma();
                let fty = tcx.type_of(f.did).instantiate_identity().skip_norm_wip();
                j.kv_str("ty", &ty_str(fty));
                j.comma();
                j.kv_raw("pub", if f.vis.is_public() { "true" } else { "false" });
                j.raw("}");
                j.comma();
            }
            j.trim_comma();
            j.raw("]");
            j.raw("}");
            j.comma();
        }
        j.trim_comma();
        j.raw("]");
        j.raw("}");
        j.comma();
    }
    j.trim_comma();
    j.raw("]");
}

fn dump_impls<'tcx>(tcx: TyCtxt<'tcx>, j: &mut J) {
    j.key("impls");
    j.raw("[");
    for ldid in tcx.hir_crate_items(()).definitions() {
        let did = ldid.to_def_id();
        if let DefKind::Impl { of_trait } = tcx.def_kind(did) {
            let self_ty = tcx.type_of(did).instantiate_identity().skip_norm_wip();
            j.raw("{");
            j.kv_str("self", &self_ty_name(tcx, self_ty));
            j.comma();
            j.kv_str("self_ty", &ty_str(self_ty));
            j.comma();
            if of_trait {
                let tr = tcx.impl_trait_ref(did).instantiate_identity().skip_norm_wip();
                j.kv_str("trait", &item_name(tcx, tr.def_id));
                j.comma();
                j.kv_str("trait_ref", &trait_ref_name(tcx, tr));
                j.comma();
            }
            j.key("sp");
            span_json(tcx, j, tcx.def_span(did));
            j.comma();
            j.key("items");
            j.raw("[");
            for it in tcx.associated_items(did).in_definition_order() {
                j.raw("{");
                j.kv_str("name", &it.name().to_string());
                j.comma();
                j.kv_str("q", &qname(tcx, it.def_id));
                j.comma();
                j.kv_str("kind", &format!("{:?}", tcx.def_kind(it.def_id)));
                j.raw("}");
                j.comma();
            }
            j.trim_comma();
            j.raw("]");
            j.raw("}");
            j.comma();
        }
    }
    j.trim_comma();
    j.raw("]");
}

fn dump_consts<'tcx>(tcx: TyCtxt<'tcx>, j: &mut J) {
    // named const items with scalar values
    j.key("consts");
    j.raw("[");
    for ldid in tcx.hir_crate_items(()).definitions() {
        let did = ldid.to_def_id();
        if !matches!(tcx.def_kind(did), DefKind::Const { .. }) {
            continue;
        }
        if tcx.generics_of(did).requires_monomorphization(tcx) {
            continue;
        }
        let ty = tcx.type_of(did).instantiate_identity().skip_norm_wip();
        j.raw("{");
        j.kv_str("q", &qname(tcx, did));
        j.comma();
        j.kv_str("ty", &ty_str(ty));
        if ty.is_integral() || ty.is_floating_point() || ty.is_bool() {
            let c = Const::from_unevaluated(tcx, did).instantiate_identity().skip_norm_wip();
            let env = TypingEnv::fully_monomorphized();
            if let Some(si) = c.try_eval_scalar_int(tcx, env) {
                let size = si.size();
                let bits = si.to_bits(size);
                let val = if ty.is_floating_point() {
                    match size.bytes() {
                        4 => format!("{:?}", f32::from_bits(bits as u32)),
                        8 => format!("{:?}", f64::from_bits(bits as u64)),
                        _ => String::from("?"),
                    }
                } else if ty.is_signed() {
                    let sh = 128 - size.bits() as u32;
                    (((bits as i128) << sh) >> sh).to_string()
                } else {
                    bits.to_string()
                };
                j.comma();
                j.kv_str("val", &val);
            }
        }
        j.comma();
        j.key("sp");
        span_json(tcx, j, tcx.def_span(did));
        j.raw("}");
        j.comma();
    }
    j.trim_comma();
    j.raw("]");
}

fn is_test_item(tcx: TyCtxt<'_>, did: DefId) -> bool {
    // anything under a module named `tests` (cfg(test) modules are absent in
    // non-test builds anyway)
    let p = tcx.def_path(did).to_string_no_crate_verbose();
    p.starts_with("::tests")
}

struct Cb {
    out: Option<String>,
    krate: String,
}

impl rustc_driver::Callbacks for Cb {
    fn after_analysis<'tcx>(
        &mut self,
        _compiler: &rustc_interface::interface::Compiler,
        tcx: TyCtxt<'tcx>,
    ) -> Compilation {
        let out = match &self.out {
            Some(o) => o.clone(),
            None => return Compilation::Continue,
        };
        let cname = tcx.crate_name(LOCAL_CRATE).to_string();
        if cname != self.krate {
            return Compilation::Continue;
        }
        if tcx.sess.dcx().has_errors().is_some() {
            return Compilation::Continue;
        }
        let mut j = J::new();
        j.raw("{");
        j.kv_str("crate", &cname);
        j.comma();
        j.kv_str("rustc", &format!("{}", rustc_interface::util::rustc_version_str().unwrap_or("?")));
        j.comma();
        j.key("cfg_features");
        j.raw("[");
        for (name, val) in tcx.sess.config.iter() {
            if name.as_str() == "feature" {
                if let Some(v) = val {
                    j.str(v.as_str());
                    j.comma();
                }
            }
        }
        j.trim_comma();
        j.raw("]");
        j.comma();
        j.kv_raw("is_test", if tcx.sess.is_test_crate() { "true" } else { "false" });
        j.comma();
        j.kv_raw("overflow_checks", if tcx.sess.overflow_checks() { "true" } else { "false" });
        j.comma();
        j.kv_raw("debug_assertions", if tcx.sess.opts.debug_assertions { "true" } else { "false" });
        j.comma();
        dump_adts(tcx, &mut j);
        j.comma();
        dump_impls(tcx, &mut j);
        j.comma();
        dump_consts(tcx, &mut j);
        j.comma();
        j.key("bodies");
        j.raw("[");
        let mut n = 0usize;
        for ldid in tcx.mir_keys(()).iter() {
            let did = ldid.to_def_id();
            let kind = tcx.def_kind(did);
            if !matches!(kind, DefKind::Fn | DefKind::AssocFn | DefKind::Closure) {
                continue;
            }
            if is_test_item(tcx, did) {
                continue;
            }
            dump_body(tcx, &mut j, *ldid);
            j.comma();
            n += 1;
        }
        j.trim_comma();
        j.raw("]");
        j.comma();
        j.kv_raw("n_bodies", &n.to_string());
        j.raw("}");
        std::fs::write(&out, j.s.as_bytes()).expect("mirfacts: cannot write output");
        Compilation::Continue
    }
}

fn main() {
    let mut args: Vec<String> = std::env::args().collect();
    // RUSTC_WORKSPACE_WRAPPER: argv[1] is the path of the real rustc
    if args.len() > 1 && (args[1].ends_with("rustc") || args[1].contains("/rustc")) {
        args.remove(1);
    }
    let out = std::env::var("MIRFACTS_OUT").ok();
    let krate = std::env::var("MIRFACTS_CRATE").unwrap_or_else(|_| "raqote".to_string());
    let mut cb = Cb { out, krate };
    rustc_driver::run_compiler(&args, &mut cb);
}
