"""Cache dissolution (A13): a *derived cache* added to an audited struct is replaced by the computation it caches.

A frequent optimisation keeps the result of a pure computation over other fields in a new private field — the inverse of
the current transform, the surface rectangle, a tolerance derived from the transform — eagerly (`F = f(G)` wherever G is
written) or lazily (`F = None` wherever G is written, `F = Some(f(G))` on first use).  The rules are anchored on the
audited form (`self.transform.inverse()` inside `composite`), so the cache would hide the computation from them.

The normaliser proves the **cache lemma** on the MIR terms of the edited tree and, only if it holds, rewrites the facts:

  (1) every store to F outside constructors is `W(f(a1..an))` or the lazy marker `None`, where f is pure, every ai is a
      constant or (a reference to) a field Gi of the same struct as it is at that point — written `self.Gi`, or as the
      very value stored to `self.Gi` just before in the same function — and W is the identity or `Some`;
  (2) every write to a Gi outside constructors (a store, a `&mut` borrow, a call destination) is followed in straight
      line by a store to F of form (1), before anything else can run;
  (3) every constructor initialises F with `W(f(..))` of the values it gives the Gi, or with the lazy marker;

hence at every read F is `W(f(G))` of the current G, or (lazy) `None` — and the reading code, which on `None` computes
`f(G)` itself, gets `f(G)` either way.  The rewrite then computes `W(f(&self.G..))` once before the first read in each
function that reads F, replaces the reads by that value, folds a `match` on the lazy cache to its `Some` arm, deletes
the stores to F and removes the field.  If any condition fails nothing is changed: the rules then see the field as it
is (R10.6 reports a cache that is not kept coherent; R11.2 and others fail closed on the form they cannot read).

On the audited tree there is no new field and the step is the identity."""
import copy

from facts import Body
from terms import Analysis
from util import strip_all, nosite, field_path, const_val

PURE_EXTERNAL = ('euclid::Transform2D::<T, Src, Dst>::inverse', 'euclid::Transform2D::<T, Src, Dst>::determinant',
                 'euclid::Transform2D::<T, Src, Dst>::then', 'euclid::Transform2D::<T, Src, Dst>::identity')


class _Stub:
    def __init__(self, raw):
        self.adts = {a['q']: a for a in raw['adts']}
        self.bodies = {}
        self.raw = raw


def _walk_places(node, fn):
    if isinstance(node, dict):
        if 'l' in node and isinstance(node.get('pr'), list):
            fn(node)
        for k, v in node.items():
            if k in ('sp', 'fn'):
                continue
            _walk_places(v, fn)
    elif isinstance(node, list):
        for v in node:
            _walk_places(v, fn)


def _field_pos(place, aq, F):
    """index in place['pr'] of the projection `.F` of struct aq, or None"""
    for i, e in enumerate(place.get('pr') or []):
        if e.get('k') == 'field' and e.get('n') == F and (e.get('adt') or '') == aq:
            return i
    return None


def _mentions(node, aq, F):
    hit = []
    _walk_places(node, lambda p: hit.append(p) if _field_pos(p, aq, F) is not None else None)
    return hit


def _is_pure_local(rb):
    for blk in rb['blocks']:
        for s in blk['st']:
            if s['k'] == 'assign' and any(e.get('k') == 'deref' for e in (s['p'].get('pr') or [])):
                return False
        t = blk['t']
        if t['k'] == 'call':
            if any(('&mut' in (ty or '')) or ('*mut' in (ty or '')) for ty in (t.get('arg_tys') or ['&mut'])):
                return False
            c = (t.get('f') or {}).get('fn') or {}
            d = c.get('def') or ''
            if not (d.startswith('core::') or d.startswith('std::') or d.startswith('euclid::') or d.startswith('raqote::geom::')):
                return False
    return True


def dissolve_caches(raw, kadts):
    if not kadts:
        return raw, []
    done = []
    for a in raw['adts']:
        ka = kadts.get(a['q'])
        if not ka or a.get('kind') != 'Struct' or len(a.get('variants') or []) != 1:
            continue
        def names(x):
            return [(f[0] if isinstance(f, list) else f['name']) for f in x['variants'][0]['fields']]
        known = names(ka)
        cur = names(a)
        if not all(k in cur for k in known):
            continue
        for F in [f for f in cur if f not in known]:
            # on a copy: a proof that fails half-way (or a rewrite that meets something unexpected) leaves the facts untouched
            trial = copy.deepcopy(raw)
            ta = next(x for x in trial['adts'] if x['q'] == a['q'])
            try:
                msg = _try_dissolve(trial, ta, F, known)
            except _Bail as e:
                msg = None
                import os
                if os.environ.get('VERIF_DEBUG_CACHES'):
                    print('caches: %s.%s not dissolved: %s' % (a['q'], F, e))
            if msg:
                done.append(msg)
                raw.clear()
                raw.update(trial)
                # the adt list changed under the loop: start over for any further new field
                return raw, done + dissolve_caches(raw, kadts)[1]
    return raw, done


class _Bail(Exception):
    pass


def _try_dissolve(raw, adt, F, audited_fields):
    aq = adt['q']
    stub = _Stub(raw)
    bodies = [b for b in raw['bodies'] if _mentions(b['blocks'], aq, F) or any(s['k'] == 'assign' and s['rv'].get('k') == 'agg' and s['rv'].get('adt') == aq for blk in b['blocks'] for s in blk['st'])]
    if not bodies:
        raise _Bail('b1')
    if any('{closure' in b['q'] for b in bodies if _mentions(b['blocks'], aq, F)):
        raise _Bail('b2')
    ans = {}
    for rb in bodies:
        bd = Body(rb, stub)
        ans[rb['q']] = (bd, Analysis(bd))

    def is_F(addr):
        t = strip_all(addr)
        return t[0] == 'field' and t[2] == F and t[3] == aq
    def self_field(t):
        """audited field name if t is (a reference to) (*self).G with self = parameter 1"""
        t = strip_all(t)
        while t[0] in ('ref', 'deref') and isinstance(t[1], tuple) and t[0] == 'ref':
            t = strip_all(t[1])
        if t[0] == 'field' and t[3] == aq and t[2] in audited_fields and strip_all(t[1]) in (('param', 1), ('deref', ('param', 1))):
            return t[2]
        return None

    spec = {'f': None, 'wrap': None, 'tree': None, 'lazy': False}
    G = set()

    def parse_expr(an, bd, t, g_before, depth=0):
        """the cached computation as a tree: ('field', G) | ('const', term) | ('call', callee, [children], template terminator)"""
        g = self_field(t)
        if g is not None:
            return ('field', g)
        x = t
        while x[0] == 'ref' or (x[0] == 'cast' and x[1] in ('PtrToPtr',)):
            x = x[1] if x[0] == 'ref' else x[3]
        x = strip_all(x)
        g = self_field(x)
        if g is not None:
            return ('field', g)
        if x[0] == 'const':
            return ('const', nosite(x))
        for gname, gval in g_before:
            if nosite(strip_all(gval)) == nosite(x):
                return ('field', gname)
        if x[0] == 'call' and isinstance(x[1], str) and depth < 5 and len(x) > 3 and isinstance(x[3], int):
            tm = bd.blocks[x[3]]['t'] if 0 <= x[3] < len(bd.blocks) else None
            if tm is None or tm.get('k') != 'call' or ((tm.get('f') or {}).get('fn') or {}).get('def') != x[1]:
                raise _Bail('b4a')
            return ('call', x[1], [parse_expr(an, bd, a, g_before, depth + 1) for a in x[2]], copy.deepcopy(tm))
        raise _Bail('b4')

    def key_of(tree):
        if tree[0] == 'call':
            return ('call', tree[1], tuple(key_of(c) for c in tree[2]))
        return tree

    def parse_value(an, bd, val, g_stores_before):
        """('none',) | ('fill', wrap, tree)"""
        v = strip_all(val)
        wrap = None
        if v[0] == 'agg' and v[1] == 'adt' and (v[2] or '').endswith('option::Option'):
            if v[3] == 'None':
                return ('none',)
            wrap = 'Some'
            v = strip_all(v[4][0][1])
        if v[0] != 'call' or not isinstance(v[1], str):
            raise _Bail('b3')
        return ('fill', wrap, parse_expr(an, bd, v, g_stores_before))

    def order_before(bd, pt_a, pt_b):
        """pt_a executes before pt_b with nothing but straight-line code in between"""
        (ba, ia), (bb, ib) = pt_a, pt_b
        cur = ba
        for _ in range(8):
            if cur == bb:
                return (ia < ib) if cur == ba else True
            t = bd.blocks[cur]['t']
            if t['k'] == 'goto':
                cur = t['t']
            elif t['k'] in ('call', 'drop', 'assert') and t.get('t') is not None:
                cur = t['t']
            else:
                return False
        return False

    ctor_bodies = set()
    fills = []
    for q, (bd, an) in ans.items():
        gst = []      # (field, value term, pt)
        fst = []
        for addr, val, pt, kind in an.stores:
            if kind not in ('assign', 'call'):
                continue
            if is_F(addr):
                fst.append((val, pt))
            else:
                g = None
                t = strip_all(addr)
                if t[0] == 'field' and t[3] == aq and t[2] in audited_fields and strip_all(t[1]) in (('param', 1), ('deref', ('param', 1))):
                    g = t[2]
                if g:
                    gst.append((g, val, pt))
        # stores below F (F.x = ..) or &mut F: not a cache we understand
        for bi, blk in enumerate(bd.blocks):
            for k2, s in enumerate(blk['st']):
                if s['k'] != 'assign':
                    continue
                pos = _field_pos(s['p'], aq, F)
                if pos is not None and pos != len(s['p']['pr']) - 1:
                    raise _Bail('b5')
                rv = s['rv']
                if rv.get('k') in ('ref', 'rawptr') and rv.get('mut') and _field_pos(rv['p'], aq, F) is not None:
                    raise _Bail('b6')
        parsed = []
        for val, pt in fst:
            # the value a G holds at the store to F: that of the closest preceding store to it
            before = []
            for g0 in set(g for g, v, p2 in gst):
                cands = [(v, p2) for g, v, p2 in gst if g == g0 and order_before(bd, p2, pt)]
                last = [c for c in cands if not any(c2 is not c and order_before(bd, c[1], c2[1]) for c2 in cands)]
                if len(last) == 1:
                    before.append((g0, last[0][0]))
            parsed.append((parse_value(an, bd, val, before), pt))
        fills.append((q, bd, an, gst, parsed))
        # constructors: aggregates of the struct
        for bi, k2, s in bd.statements():
            if s['k'] == 'assign' and s['rv'].get('k') == 'agg' and s['rv'].get('adt') == aq:
                ctor_bodies.add(q)
                t = an.rvalue_term(bi, k2, s['rv'])
                fs = dict(t[4])
                if F not in fs:
                    raise _Bail('b7')
                inits = [(g, fs[g]) for g in audited_fields if g in fs]
                parsed.append((parse_value(an, bd, fs[F], inits), ('ctor', bi, k2)))
    # one computation, one wrapping
    for q, bd, an, gst, parsed in fills:
        for pv, pt in parsed:
            if pv[0] == 'none':
                spec['lazy'] = True
                continue
            _, wrap, tree = pv
            if spec['f'] is None:
                spec['f'], spec['wrap'], spec['tree'] = key_of(tree), wrap, tree
            elif (spec['f'], spec['wrap']) != (key_of(tree), wrap):
                raise _Bail('b8')
    if spec['f'] is None or spec['tree'][0] != 'call':
        raise _Bail('b9')
    if spec['lazy'] and spec['wrap'] != 'Some':
        raise _Bail('b10')
    def callees_of(tree):
        if tree[0] != 'call':
            return []
        return [(tree[1], tree[3])] + [x for c in tree[2] for x in callees_of(c)]
    def fields_of(tree):
        if tree[0] == 'field':
            return [tree[1]]
        if tree[0] == 'call':
            return [x for c in tree[2] for x in fields_of(c)]
        return []
    for fq, tm in callees_of(spec['tree']):
        if any(('&mut' in (ty or '')) or ('*mut' in (ty or '')) for ty in (tm.get('arg_tys') or [])):
            raise _Bail('b11a')
        if fq in PURE_EXTERNAL or fq.startswith('euclid::') or fq.startswith('core::f32::') or fq.startswith('std::f32::') or fq.startswith('core::f64::'):
            continue
        lb = next((b for b in raw['bodies'] if b['q'] == fq), None)
        if lb is None or not fq.startswith('raqote::') or not _is_pure_local(lb):
            raise _Bail('b11')
    G = set(fields_of(spec['tree']))
    tmpl = spec['tree'][3]
    # (2) every write to a G outside constructors is followed in straight line by a store to F
    for rb in raw['bodies']:
        q = rb['q']
        if q in ctor_bodies:
            continue
        touched = []
        for bi, blk in enumerate(rb['blocks']):
            for k2, s in enumerate(blk['st']):
                if s['k'] != 'assign':
                    continue
                for g in G:
                    if _field_pos(s['p'], aq, g) is not None:
                        touched.append((bi, k2))
                    rv = s['rv']
                    if rv.get('k') in ('ref', 'rawptr') and rv.get('mut') and _field_pos(rv['p'], aq, g) is not None:
                        touched.append((bi, k2))
            t = blk['t']
            if t['k'] == 'call' and t.get('dest') is not None:
                for g in G:
                    if _field_pos(t['dest'], aq, g) is not None:
                        touched.append((bi, len(blk['st'])))
        if not touched:
            continue
        ent = ans.get(q)
        if ent is None:
            raise _Bail('b12')      # a G is written somewhere that never touches F
        bd, an = ent
        fpts = [pt for q2, bd2, an2, gst2, parsed2 in fills if q2 == q for pv, pt in parsed2 if not (isinstance(pt, tuple) and pt and pt[0] == 'ctor')]
        for gp in touched:
            if not any(order_before(bd, gp, fp) for fp in fpts):
                raise _Bail('b13')
    # the types involved
    fdef = next(f for f in adt['variants'][0]['fields'] if (f[0] if isinstance(f, list) else f['name']) == F)
    fty = fdef[1] if isinstance(fdef, list) else fdef['ty']
    ret_ty = tmpl.get('dest_ty')
    # --- rewrite
    fidx = [i for i, f in enumerate(adt['variants'][0]['fields']) if (f[0] if isinstance(f, list) else f['name']) == F][0]
    gfield = {}
    for i, f in enumerate(adt['variants'][0]['fields']):
        nm = f[0] if isinstance(f, list) else f['name']
        gfield[nm] = i
    nread = 0
    for rb in raw['bodies']:
        if not _mentions(rb['blocks'], aq, F) and not any(s['k'] == 'assign' and s['rv'].get('k') == 'agg' and s['rv'].get('adt') == aq for blk in rb['blocks'] for s in blk['st']):
            continue
        # delete stores to F; drop F from aggregates
        for blk in rb['blocks']:
            keep = []
            for s in blk['st']:
                if s['k'] == 'assign' and _field_pos(s['p'], aq, F) is not None:
                    continue
                if s['k'] == 'assign' and s['rv'].get('k') == 'agg' and s['rv'].get('adt') == aq and F in (s['rv'].get('fields') or []):
                    i = s['rv']['fields'].index(F)
                    s['rv']['fields'].pop(i)
                    s['rv']['ops'].pop(i)
                keep.append(s)
            blk['st'] = keep
            t = blk['t']
            if t['k'] == 'call' and t.get('dest') is not None and _field_pos(t['dest'], aq, F) is not None:
                rb['locals'].append({'ty': t.get('dest_ty') or fty})
                t['dest'] = {'l': len(rb['locals']) - 1, 'pr': []}
        reads = []
        for bi, blk in enumerate(rb['blocks']):
            for k2, s in enumerate(blk['st']):
                if _mentions(s, aq, F):
                    reads.append((bi, k2))
            if _mentions({k: v for k, v in blk['t'].items() if k != 'dest'}, aq, F):
                reads.append((bi, len(blk['st'])))
        if not reads:
            continue
        nread += len(reads)
        import json
        import statecoh
        al = statecoh.self_aliases(rb)
        def new_local(ty):
            rb['locals'].append({'ty': ty})
            return len(rb['locals']) - 1
        # the struct value each read goes through: `self` (or a copy of it), or another parameter of the same type
        for _round in range(8):
            reads = []
            for bi, blk in enumerate(rb['blocks']):
                for k2, st in enumerate(blk['st']):
                    for p in _mentions(st, aq, F):
                        reads.append((bi, k2, p))
                for p in _mentions({k: v for k, v in blk['t'].items() if k != 'dest'}, aq, F):
                    reads.append((bi, len(blk['st']), p))
            if not reads:
                break
            def base_of(p):
                pos = _field_pos(p, aq, F)
                l = 1 if p['l'] in al else p['l']
                return json.dumps({'l': l, 'pr': p['pr'][:pos]}, sort_keys=True)
            groups = {}
            for bi, k2, p in reads:
                groups.setdefault(base_of(p), []).append((bi, k2))
            bkey = sorted(groups)[0]
            base = json.loads(bkey)
            if base['l'] != 1 and not (1 <= base['l'] <= rb.get('argc', 0)):
                raise _Bail('b14')      # not read through self or a parameter
            if any(e.get('k') not in ('deref',) for e in base['pr']):
                raise _Bail('b14b')
            greads = sorted(set(groups[bkey]))
            bd = Body(rb, stub)
            cfg = Analysis(bd).cfg
            first = None
            for cand in greads:
                if all((cand[0] == r[0] and cand[1] <= r[1]) or (cand[0] != r[0] and cfg.dominates(cand[0], r[0])) for r in greads):
                    first = cand
                    break
            if first is None:
                raise _Bail('b15')
            steps = []      # ('st', statement) | ('call', terminator)
            def operand_of(tree, want_ty):
                if tree[0] == 'const':
                    v = tree[1]
                    if v[0] != 'const':
                        raise _Bail('b16')
                    return {'k': 'const', 'ty': v[1], 'val': v[2]}
                if tree[0] == 'field':
                    place = {'l': base['l'], 'pr': copy.deepcopy(base['pr']) + [{'k': 'field', 'i': gfield[tree[1]], 'n': tree[1], 'adt': aq}]}
                    if (want_ty or '').startswith('&'):
                        loc = new_local(want_ty)
                        steps.append(('st', {'k': 'assign', 'p': {'l': loc, 'pr': []}, 'rv': {'k': 'ref', 'mut': False, 'p': place}, 'ty': want_ty, 'sp': tmpl.get('sp')}))
                        return {'k': 'move', 'p': {'l': loc, 'pr': []}}
                    return {'k': 'copy', 'p': place}
                _, fq2, children, tm = tree
                tys = tm.get('arg_tys') or []
                ops = []
                for i2, c in enumerate(children):
                    op = None
                    if c[0] == 'const' and i2 < len(tm.get('args') or []) and tm['args'][i2].get('k') == 'const':
                        op = copy.deepcopy(tm['args'][i2])
                    ops.append(op if op is not None else operand_of(c, tys[i2] if i2 < len(tys) else ''))
                dloc = new_local(tm.get('dest_ty'))
                call = copy.deepcopy(tm)
                call['args'] = ops
                call['dest'] = {'l': dloc, 'pr': []}
                steps.append(('call', call))
                if (want_ty or '').startswith('&') and not (tm.get('dest_ty') or '').startswith('&'):
                    rloc = new_local(want_ty)
                    steps.append(('st', {'k': 'assign', 'p': {'l': rloc, 'pr': []}, 'rv': {'k': 'ref', 'mut': False, 'p': {'l': dloc, 'pr': []}}, 'ty': want_ty, 'sp': tmpl.get('sp')}))
                    return {'k': 'move', 'p': {'l': rloc, 'pr': []}}
                return {'k': 'move', 'p': {'l': dloc, 'pr': []}}
            top = operand_of(spec['tree'], ret_ty)
            tloc = top['p']['l']
            cloc = tloc
            post = []
            if spec['wrap'] == 'Some':
                cloc = new_local(fty)
                post.append({'k': 'assign', 'p': {'l': cloc, 'pr': []}, 'rv': {'k': 'agg', 'ak': 'adt', 'adt': 'std::option::Option', 'v': 'Some', 'fields': ['0'], 'substs': [ret_ty], 'ops': [{'k': 'move', 'p': {'l': tloc, 'pr': []}}]}, 'ty': fty, 'sp': tmpl.get('sp')})
            # split the block of the first read: head .. calls .. tail
            bi, k2 = first
            blk = rb['blocks'][bi]
            if blk.get('cleanup'):
                raise _Bail('b17')
            tail_st = blk['st'][k2:]
            tail_t = blk['t']
            cur = blk
            cur['st'] = blk['st'][:k2]
            for kind, x in steps:
                if kind == 'st':
                    cur['st'].append(x)
                else:
                    nbk = {'st': [], 't': None}
                    rb['blocks'].append(nbk)
                    x['t'] = len(rb['blocks']) - 1
                    cur['t'] = x
                    cur = nbk
            cur['st'] = cur['st'] + post + tail_st
            cur['t'] = tail_t
            # replace the reads of this group
            def repl(p):
                pos = _field_pos(p, aq, F)
                if pos is None or base_of(p) != bkey:
                    return
                rest = p['pr'][pos + 1:]
                if spec['wrap'] == 'Some' and len(rest) >= 2 and rest[0].get('k') == 'downcast' and rest[0].get('v') == 'Some' and rest[1].get('k') == 'field':
                    p['l'], p['pr'] = tloc, rest[2:]
                else:
                    p['l'], p['pr'] = cloc, rest
            for blk2 in rb['blocks']:
                for st in blk2['st']:
                    _walk_places(st, repl)
                _walk_places({k: v for k, v in blk2['t'].items() if k != 'dest'}, repl)
            # a match on the lazy cache always takes its Some arm now
            if spec['wrap'] == 'Some':
                for blk2 in rb['blocks']:
                    t = blk2['t']
                    if t['k'] != 'switch' or t['o'].get('k') not in ('move', 'copy') or t['o']['p']['pr']:
                        continue
                    dl = t['o']['p']['l']
                    for st in blk2['st']:
                        if st['k'] == 'assign' and st['p']['l'] == dl and not st['p']['pr'] and st['rv'].get('k') == 'discr' and st['rv']['p']['l'] == cloc and not st['rv']['p']['pr']:
                            tgt = dict((x[0], x[1]) for x in t['targets']).get('1', t['otherwise'])
                            blk2['t'] = {'k': 'goto', 't': tgt, 'sp': t.get('sp')}
                            break
        else:
            raise _Bail('b18')
    # the field disappears from the struct
    adt['variants'][0]['fields'].pop(fidx)
    def fix_idx(node):
        if isinstance(node, dict):
            if node.get('k') == 'field' and node.get('adt') == aq and isinstance(node.get('i'), int) and node['i'] > fidx:
                node['i'] -= 1
            for v in node.values():
                fix_idx(v)
        elif isinstance(node, list):
            for v in node:
                fix_idx(v)
    for rb in raw['bodies']:
        fix_idx(rb['blocks'])
    def show(tree):
        if tree[0] == 'call':
            return '%s(%s)' % (tree[1].split('::')[-1], ', '.join(show(c) for c in tree[2]))
        return ('self.' + tree[1]) if tree[0] == 'field' else 'const'
    return 'cache %s.%s = %s%s dissolved (%s, %d reads)' % (aq.split('::')[-1], F, 'Some ' if spec['wrap'] else '', show(spec['tree']), 'lazy' if spec['lazy'] else 'eager', nread)
