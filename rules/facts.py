"""Fact loader for the mirfacts JSON: bodies, places, operands, pretty printer.

Nothing here knows about any property."""
import json

class Facts:
    def __init__(self, path, normalise=True):
        with open(path) as f:
            d = json.load(f)
        self.renamed, self.inlined = [], []
        self.normaliser_errors = []
        if normalise:
            # towards the audited function inventory of raqote; a dependency's facts are taken as they are.  Each step
            # works on a copy: a step that cannot cope with the code leaves the facts as they were (the rules then judge
            # the un-normalised code and fail closed where they cannot read it)
            import inline
            known = inline.load_known()
            kadts = inline.load_known_adts()
            steps = [('restore_renames', lambda x: inline.restore_renames(x, known), 'renamed'),
                     ('restore_adt_names', lambda x: inline.restore_adt_names(x, kadts), 'renamed'),
                     ('summarise_tail_returns', lambda x: inline.summarise_tail_returns(x, known), 'renamed'),
                     ('inline_new_helpers', lambda x: inline.inline_new_helpers(x, known), 'inlined'),
                     ('normalise_mem_ops', inline.normalise_mem_ops, 'renamed'),
                     ('dissolve_caches', lambda x: __import__('caches').dissolve_caches(x, kadts), 'renamed'),
                     ('normalise_option_filter', inline.normalise_option_filter, 'renamed'),
                     ('normalise_internal_iteration', inline.normalise_internal_iteration, 'renamed'),
                     ('inline_closure_calls', lambda x: inline.inline_closure_calls(x) if (self.inlined or any('get_or_insert_with' in str(r) for r in self.renamed)) else [], 'renamed'),
                     ('dissolve_new_structs', lambda x: inline.dissolve_new_structs(x, kadts), 'renamed'),
                     ('split_tuple_locals', lambda x: inline.split_tuple_locals(x, known), 'renamed')]
            skip = set()
            while True:
                self.renamed, self.inlined = [], []
                failed = None
                for name, fn, attr in steps:
                    if name in skip:
                        continue
                    try:
                        r = fn(d)
                        if isinstance(r, tuple):
                            d, res = r
                        else:
                            res = r
                        setattr(self, attr, getattr(self, attr) + list(res or []))
                    except Exception as e:
                        self.normaliser_errors.append('%s: %s: %s' % (name, type(e).__name__, str(e)[:200]))
                        failed = name
                        break
                if failed is None:
                    break
                # start again from the file without the step that could not cope (steps mutate the facts in place)
                skip.add(failed)
                with open(path) as f:
                    d = json.load(f)
        self.raw = d
        self.crate = d['crate']
        self.features = d['cfg_features']
        self.adts = {a['q']: a for a in d['adts']}
        self.impls = d['impls']
        self.consts = {c['q']: c for c in d['consts']}
        self.bodies = {}
        self.dups = []
        for b in d['bodies']:
            bd = Body(b, self)
            if bd.q in self.bodies:
                self.dups.append(bd.q)
            self.bodies[bd.q] = bd
        self.n_bodies = d['n_bodies']
        self.outliner = None
        if normalise:
            try:
                import outline
                self.renamed = list(self.renamed) + outline.activate(self)
            except Exception as e:
                self.outliner = None
                self.normaliser_errors.append('outline: %s: %s' % (type(e).__name__, str(e)[:200]))

    def body(self, q):
        return self.bodies.get(q)

    def find(self, suffix):
        return [b for q, b in self.bodies.items() if q.endswith(suffix)]

    def impls_of(self, trait_suffix):
        return [i for i in self.impls if i.get('trait', '').endswith(trait_suffix)]

    def adt(self, q):
        return self.adts.get(q)


def short(q):
    """drop the crate prefix for reports"""
    return q.replace('raqote::', '')


class Body:
    def __init__(self, raw, facts):
        self.raw = raw
        self.facts = facts
        self.q = raw['q']
        self.kind = raw['kind']
        self.name = raw['name']
        self.vis = raw.get('vis')
        self.sig = raw.get('sig')
        self.impl_self = raw.get('impl_self')
        self.impl_trait = raw.get('impl_trait')
        self.parent = raw.get('parent')
        self.sp = raw['sp']
        self.file = raw['sp']['f']
        self.line = raw['sp']['l']
        self.locals = raw['locals']
        self.argc = raw['argc']
        self.blocks = raw['blocks']
        self.nblocks = len(self.blocks)
        self._cache = {}

    def loc(self, sp=None):
        sp = sp or self.sp
        return '%s:%d' % (sp['f'], sp['l'])

    def local_name(self, l):
        d = self.locals[l]
        return d.get('name') or ('_%d' % l)

    def local_ty(self, l):
        return self.locals[l]['ty']

    def param_names(self):
        return [self.local_name(i) for i in range(1, self.argc + 1)]

    def succs(self, i):
        return term_succs(self.blocks[i]['t'])

    def terminators(self, kind=None):
        for i, b in enumerate(self.blocks):
            if b.get('cleanup'):
                continue
            t = b['t']
            if kind is None or t['k'] == kind:
                yield i, t

    def calls(self):
        """yield (block index, terminator, callee info or None)"""
        for i, t in self.terminators('call'):
            yield i, t, callee_of(t)

    def statements(self):
        for i, b in enumerate(self.blocks):
            if b.get('cleanup'):
                continue
            for k, s in enumerate(b['st']):
                yield i, k, s

    def pp(self):
        return pp_body(self)


def term_succs(t):
    k = t['k']
    if k == 'goto':
        return [t['t']]
    if k == 'switch':
        return [x[1] for x in t['targets']] + [t['otherwise']]
    if k in ('call', 'drop', 'assert'):
        return [t['t']] if 't' in t else []
    return []


def callee_of(t):
    f = t['f']
    if f['k'] == 'const' and 'fn' in f:
        return f['fn']
    return None


def callee_name(t):
    c = callee_of(t)
    if c is None:
        return None
    return c['def']


# ------------------------------------------------------------------ places
def proj_key(e):
    k = e['k']
    if k == 'deref':
        return '*'
    if k == 'field':
        return '.' + e['n']
    if k == 'downcast':
        return '@' + e['v']
    if k == 'index':
        return '[_%d]' % e['l']
    if k == 'cidx':
        return '[%s%d]' % ('-' if e['end'] else '', e['off'])
    if k == 'subslice':
        return '[%d..%s%d]' % (e['from'], '-' if e['end'] else '', e['to'])
    return '?' + k


def place_str(body, p):
    s = body.local_name(p['l']) if body else '_%d' % p['l']
    for e in p['pr']:
        k = proj_key(e)
        if k == '*':
            s = '(*%s)' % s
        else:
            s += k
    return s


def op_str(body, o):
    k = o['k']
    if k in ('copy', 'move'):
        return place_str(body, o['p'])
    if k == 'const':
        if 'fn' in o:
            f = o['fn']
            subs = f.get('substs') or []
            return short(f['def']) + ('::<%s>' % ','.join(short(s) for s in subs) if subs else '')
        if 'val' in o:
            return '%s_%s' % (o['val'], o['ty']) if len(o['ty']) < 6 else o['val']
        if 'cdef' in o:
            return 'const ' + short(o['cdef'])
        return 'const(%s)' % short(o.get('text', o['ty']))
    if k == 'rtcheck':
        return 'rtcheck(%s)' % o['what']
    return '?'


def rv_str(body, rv):
    k = rv['k']
    if k == 'use':
        return op_str(body, rv['o'])
    if k == 'ref':
        return ('&mut ' if rv['mut'] else '&') + place_str(body, rv['p'])
    if k == 'rawptr':
        return ('&raw mut ' if rv['mut'] else '&raw const ') + place_str(body, rv['p'])
    if k == 'cast':
        return '%s as %s (%s)' % (op_str(body, rv['o']), short(rv['ty']), rv['ck'])
    if k == 'binop':
        return '%s(%s, %s)' % (rv['op'], op_str(body, rv['a']), op_str(body, rv['b']))
    if k == 'unop':
        return '%s(%s)' % (rv['op'], op_str(body, rv['o']))
    if k == 'discr':
        return 'discriminant(%s)' % place_str(body, rv['p'])
    if k == 'agg':
        ak = rv['ak']
        ops = [op_str(body, o) for o in rv['ops']]
        if ak == 'adt':
            fl = rv['fields']
            return '%s::%s{%s}' % (short(rv['adt']), rv['v'], ', '.join('%s: %s' % (f, o) for f, o in zip(fl, ops)))
        if ak == 'closure':
            return 'closure %s [%s]' % (short(rv['def']), ', '.join(ops))
        return '%s(%s)' % (ak, ', '.join(ops))
    if k == 'repeat':
        return '[%s; %s]' % (op_str(body, rv['o']), rv['n'])
    return '?' + k


def pp_body(b):
    out = ['fn %s  (%s)' % (b.q, b.loc())]
    for i, d in enumerate(b.locals):
        out.append('  let _%d%s: %s' % (i, (' /*%s*/' % d['name']) if d.get('name') else '', short(d['ty'])))
    for i, blk in enumerate(b.blocks):
        out.append(' bb%d%s:' % (i, ' (cleanup)' if blk.get('cleanup') else ''))
        for s in blk['st']:
            if s['k'] == 'assign':
                out.append('    %s = %s   // L%d' % (place_str(b, s['p']), rv_str(b, s['rv']), s['sp']['l']))
            else:
                out.append('    %s %s' % (s['k'], s.get('text', '')))
        t = blk['t']
        k = t['k']
        if k == 'call':
            out.append('    %s = call %s(%s) -> bb%s   // L%d' % (place_str(b, t['dest']), op_str(b, t['f']), ', '.join(op_str(b, a) for a in t['args']), t.get('t'), t['sp']['l']))
        elif k == 'switch':
            out.append('    switch %s [%s] else bb%d' % (op_str(b, t['o']), ', '.join('%s->bb%d' % (v, x) for v, x in t['targets']), t['otherwise']))
        elif k == 'assert':
            out.append('    assert(%s == %s, %s) -> bb%d' % (op_str(b, t['o']), t['expected'], t['msg'], t['t']))
        elif k == 'drop':
            out.append('    drop(%s) -> bb%d' % (place_str(b, t['p']), t['t']))
        elif k == 'goto':
            out.append('    goto bb%d' % t['t'])
        else:
            out.append('    ' + k)
    return '\n'.join(out)


if __name__ == '__main__':
    import sys
    F = Facts(sys.argv[1])
    for q in sys.argv[2:]:
        for b in F.find(q):
            print(b.pp())
            print()
