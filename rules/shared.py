"""Rule helpers and rules shared between properties."""
from engine import AnchorMissing
from util import *
from terms import fmt, subterms, mem_path, Deps, leaves_summary


def ret_terms(ctx, body):
    """terms of the return place at every return block"""
    an = ctx.an(body)
    out = []
    for r in an.cfg.returns:
        t = an.local_term(r, len(body.blocks[r]['st']), 0)
        if t[0] == 'phi':
            out.extend(an.phi_terms(t))
        else:
            out.append(t)
    return out


def linear_calls(ctx, body):
    """calls in execution order if the reachable CFG (ignoring overflow asserts) is a straight line, else None"""
    an = ctx.an(body)
    cfg = an.cfg
    seq = []
    x = 0
    seen = set()
    while True:
        if x in seen:
            return None
        seen.add(x)
        t = body.blocks[x]['t']
        if t['k'] == 'call':
            c = callee_of(t)
            seq.append((x, c['def'] if c else None, an.call_term(x)))
        s = cfg.succ[x]
        if len(s) == 0:
            break
        if len(s) > 1:
            return None
        x = s[0]
    return seq


def resolve_mem(an, t):
    """an address-taken local with a single whole definition: the value it was created with"""
    t = strip_all(t)
    if t[0] == 'mem':
        ds = [d for d in an.defs_of.get(t[1], []) if not d.partial]
        if len(ds) == 1 and ds[0].kind != 'param':
            return strip_all(an.def_term(ds[0]))
    return t


def upvar_index(t):
    """if t reads closure upvar k (through any number of derefs) return k else None"""
    root, names = field_path(t)
    if root == ('param', 1) and names and names[0].startswith('upvar'):
        return int(names[0][5:])
    return None
