"""Rule helpers and rules shared between properties."""
from engine import AnchorMissing
from util import *
from terms import fmt, subterms, mem_path, Deps, leaves_summary


def ret_terms(ctx, body):
    """terms of the return place at every return block"""
    an = ctx.an(body)
    out = []
    for r in an.cfg.returns:
        t = an.local_term(r, len(body.blocks[r]['st']), 0)
        if t[0] == 'phi':
            out.extend(an.phi_terms(t))
        else:
            out.append(t)
    return out


def linear_calls(ctx, body):
    """calls in execution order if the reachable CFG (ignoring overflow asserts) is a straight line, else None"""
    an = ctx.an(body)
    cfg = an.cfg
    seq = []
    x = 0
    seen = set()
    while True:
        if x in seen:
            return None
        seen.add(x)
        t = body.blocks[x]['t']
        if t['k'] == 'call':
            c = callee_of(t)
            seq.append((x, c['def'] if c else None, an.call_term(x)))
        s = cfg.succ[x]
        if len(s) == 0:
            break
        if len(s) > 1:
            return None
        x = s[0]
    return seq


def resolve_mem(an, t):
    """an address-taken local with a single whole definition: the value it was created with"""
    t = strip_all(t)
    if t[0] == 'mem':
        ds = [d for d in an.defs_of.get(t[1], []) if not d.partial]
        if len(ds) == 1 and ds[0].kind != 'param':
            return strip_all(an.def_term(ds[0]))
    return t


def upvar_index(t):
    """if t reads closure upvar k (through any number of derefs) return k else None"""
    root, names = field_path(t)
    if root == ('param', 1) and names and names[0].startswith('upvar'):
        return int(names[0][5:])
    return None


def stores_matching(ctx, body, root, fields):
    """stores whose address is root.(*)...fields (exact field chain, derefs ignored)"""
    an = ctx.an(body)
    out = []
    for addr, val, pt, kind in an.stores:
        r, names = field_path(addr)
        if r == root and names == list(fields):
            out.append((addr, val, pt, kind))
    return out


def winding_table(ctx, body, R, key, scrut_pred, count_pred):
    """A5: the match on a Winding value: EvenOdd -> (count & 1) != 0, NonZero -> count != 0.
    scrut_pred(term) says whether the scrutinee is the right winding value; count_pred(term) whether a term is
    the crossing counter.  Returns the block where both arms join, or None."""
    an = ctx.an(body)
    ms = [m for m in matches(ctx, body, 'Winding') if scrut_pred(m.scrut)]
    if not ctx.check(len(ms) == 1, R, key + '|winding match', body.loc(), 'one match on the winding rule', 'expected one match on the winding rule, found %d (fail closed)' % len(ms)):
        return None
    m = ms[0]
    ctx.check(m.otherwise is None and set(m.arms) == {'EvenOdd', 'NonZero'}, R, key + '|winding arms', body.loc(), 'arms EvenOdd and NonZero, no wildcard', 'winding match arms are %s with%s wildcard' % (sorted(m.arms), 'out' if m.otherwise is None else ' a live'))
    # mask form: the match only selects a bit mask (EvenOdd -> 1, NonZero -> all ones) and the test is written once,
    # `(count & mask) != 0` — with all ones `count & mask` is `count`
    masks = {}
    for v, tgt in m.arms.items():
        region = arm_region(an.cfg, m.bb, tgt)
        for bi, k, s in body.statements():
            if bi in region and s['k'] == 'assign' and not s['p']['pr'] and s['rv']['k'] == 'use' and s['rv']['o'].get('k') == 'const':
                cv = const_val(an.rvalue_term(bi, k, s['rv']))
                if isinstance(cv, int):
                    masks[v] = (s['p']['l'], cv)
            elif bi in region and s['k'] == 'assign' and not s['p']['pr'] and s['rv']['k'] == 'unop' and s['rv'].get('op') == 'Not' and s['rv']['o'].get('k') == 'const' and str(s['rv']['o'].get('val')) == '0':
                masks[v] = (s['p']['l'], -1)        # !0: all ones
    if set(masks) == {'EvenOdd', 'NonZero'} and masks['EvenOdd'][0] == masks['NonZero'][0] and not any(
            s['k'] == 'assign' and s.get('ty') == 'bool' and s['rv']['k'] == 'binop' and bi in arm_region(an.cfg, m.bb, tgt) for tgt in m.arms.values() for bi, k, s in body.statements()):
        ml = masks['EvenOdd'][0]
        okm = masks['EvenOdd'][1] == 1 and masks['NonZero'][1] in (-1, 0xffffffff, 0xffffffffffffffff)
        tests = []
        for bi, k, s in body.statements():
            if s['k'] == 'assign' and s.get('ty') == 'bool' and s['rv']['k'] == 'binop' and bi in an.cfg.reach:
                t = an.rvalue_term(bi, k, s['rv'])
                if t[0] == 'bin' and t[1] == 'Ne' and const_val(t[3]) == 0:
                    a = strip_casts(t[2])
                    if a[0] == 'bin' and a[1] == 'BitAnd':
                        x, y = strip_casts(a[2]), strip_casts(a[3])
                        for c, mk in ((x, y), (y, x)):
                            if count_pred(c) and mk[0] in ('phi', 'mem') and mk[1] == ml:
                                tests.append(nosite(t))
        ctx.check(m.otherwise is None, R, key + '|winding arms', body.loc(), 'arms EvenOdd and NonZero, no wildcard', 'winding match has a live wildcard')
        ctx.check(okm and len(tests) >= 1, R, key + '|winding arm EvenOdd', body.loc(), 'mask 1: (count & 1) != 0', 'the winding masks are %s / %s with test(s) %d: expected EvenOdd -> 1, NonZero -> all ones and `(count & mask) != 0`' % (masks['EvenOdd'][1], masks['NonZero'][1], len(tests)))
        ctx.check(okm and len(tests) >= 1, R, key + '|winding arm NonZero', body.loc(), 'mask !0: (count & !0) != 0 is count != 0', 'see EvenOdd')
        ctx.mask_tests = getattr(ctx, 'mask_tests', set()) | set(tests)
        return an.cfg.ipdom(m.bb)
    for v, tgt in m.arms.items():
        region = arm_region(an.cfg, m.bb, tgt)
        vals = []
        for bi, k, s in body.statements():
            if bi in region and s['k'] == 'assign' and s.get('ty') == 'bool' and s['rv']['k'] == 'binop':
                vals.append((an.rvalue_term(bi, k, s['rv']), s))
        ok = False
        shown = [fmt(body, t) for t, _ in vals]
        for t, s in vals:
            if t[0] == 'bin' and t[1] == 'Ne' and const_val(t[3]) == 0:
                a = strip_casts(t[2])
                if v == 'NonZero' and count_pred(a):
                    ok = True
                if v == 'EvenOdd' and a[0] == 'bin' and a[1] == 'BitAnd' and (
                        (count_pred(strip_casts(a[2])) and const_val(a[3]) == 1) or (count_pred(strip_casts(a[3])) and const_val(a[2]) == 1)):
                    ok = True
        want = '(count & 1) != 0' if v == 'EvenOdd' else 'count != 0'
        ctx.check(ok, R, key + '|winding arm ' + v, body.loc(), '%s -> %s' % (v, want), 'the %s arm computes %s, expected %s' % (v, shown or 'nothing', want))
    return an.cfg.ipdom(m.bb)


def origin_def(an, rv, bb, idx):
    """follow `x = copy y` chains from an rvalue back to the definition that computed the value"""
    seen = 0
    last_def = None
    while rv['k'] == 'use' and rv['o']['k'] in ('copy', 'move') and seen < 20:
        pr = rv['o']['p']['pr']
        if [e.get('k') for e in pr] == ['deref']:
            # `*p` where p = &q (a by-reference parameter of an inlined setter): the value is q's
            # the pointer may have been moved and re-borrowed on the way (`p2 = move p1`, `p1 = &*p0`, `p0 = &q`)
            pl, pb, pi = rv['o']['p']['l'], bb, idx
            target = None
            for _hop in range(8):
                ps = an.reaching(pl, pb, pi)
                if len(ps) != 1 or ps[0].kind != 'assign' or ps[0].partial:
                    break
                prv = ps[0].node['rv']
                if prv['k'] == 'use' and prv['o']['k'] in ('copy', 'move') and not prv['o']['p']['pr']:
                    pl, pb, pi = prv['o']['p']['l'], ps[0].bb, ps[0].idx
                elif prv['k'] == 'ref' and [e.get('k') for e in prv['p']['pr']] == ['deref']:
                    pl, pb, pi = prv['p']['l'], ps[0].bb, ps[0].idx
                elif prv['k'] == 'ref' and not prv['p']['pr']:
                    target = (prv['p']['l'], ps[0].bb, ps[0].idx)
                    break
                else:
                    break
            if target is not None:
                seen += 1
                rv, bb, idx = {'k': 'use', 'o': {'k': 'copy', 'p': {'l': target[0], 'pr': []}}}, target[1], target[2]
                continue
            return last_def
        if pr:
            return last_def
        seen += 1
        ds = an.reaching(rv['o']['p']['l'], bb, idx)
        if len(ds) != 1 or ds[0].kind != 'assign' or ds[0].partial:
            return ds[0] if len(ds) == 1 else None
        d = ds[0]
        nrv = d.node['rv']
        if nrv['k'] == 'use' and nrv['o']['k'] in ('copy', 'move') and (not nrv['o']['p']['pr'] or [e.get('k') for e in nrv['o']['p']['pr']] == ['deref']):
            rv, bb, idx = nrv, d.bb, d.idx
            last_def = d
            continue
        return d
    return None


def facts_at(ctx, body, bb):
    """comparison facts holding on entry to bb (see util.normalized_guards), looking through boolean
    variables built by `&&`: a guard `v == true` where v is a phi of `false` constants and one real
    definition contributes that definition's condition and the guards that dominate it."""
    an = ctx.an(body)
    out = []
    seen = set()
    work = [bb]
    while work:
        x = work.pop()
        if x in seen:
            continue
        seen.add(x)
        for g in normalized_guards(ctx, body, x):
            op, a, b2, si = g
            out.append(g)
            if op == 'true' and a[0] in ('phi', 'rec'):
                ids = a[2] if a[0] == 'phi' else (a[1],)
                live = []
                for i in ids:
                    d = an.defs[i]
                    t = an.def_term(d) if not d.partial else None
                    if t is not None and t[0] == 'const' and t[2] == '0':
                        continue
                    live.append((d, t))
                if len(live) == 1 and live[0][1] is not None:
                    d, t = live[0]
                    c = t
                    neg = False
                    while c[0] == 'un' and c[1] == 'Not':
                        c = c[2]
                        neg = not neg
                    if c[0] == 'bin' and c[1] in CMP_NEG:
                        out.append((('!' if neg else '') + c[1], c[2], c[3], d.bb))
                    else:
                        out.append((('!' if neg else '') + 'true', c, None, d.bb))
                    work.append(d.bb)
    return out


def counter_loops(an, b):
    """loops written with an explicit counter — `let mut i = S; while i < E { ..; i += 1 }` or
    `loop { if i >= E { break } ..; i += 1 }`: i has exactly two definitions reaching the test (the initial value
    outside the loop, `i + 1` inside it), the increment lies on every cycle, and the loop is left exactly when `i < E`
    fails.  [{var: the phi term of i as seen inside the loop, init: S, bound: E, header, blocks}]"""
    out = []
    loops = an.cfg.loops()
    for si, t in b.terminators('switch'):
        if si not in an.cfg.reach or t.get('ty') != 'bool':
            continue
        c = an.term_at(si, len(b.blocks[si]['st']), t['o'])
        neg = False
        while c[0] == 'un' and c[1] == 'Not':
            c, neg = c[2], not neg
        if c[0] != 'bin' or c[1] not in ('Lt', 'Ge', 'Gt', 'Le'):
            continue
        lhs, rhs, op = c[2], c[3], c[1]
        if op in ('Gt', 'Le'):                    # E > i  /  E <= i
            lhs, rhs = rhs, lhs
            op = 'Lt' if op == 'Gt' else 'Ge'
        stay_when_true = (op == 'Lt') != neg      # the branch taken when i < E
        i_t = strip_casts(lhs, ('IntToInt',))
        if i_t[0] != 'phi':
            continue
        ds = [an.defs[k] for k in i_t[2]]
        if len(ds) != 2 or any(d.partial or d.kind != 'assign' for d in ds):
            continue
        false_t = [tt for v, tt in t['targets'] if v == '0']
        if not false_t:
            continue
        stay, leave = (t['otherwise'], false_t[0]) if stay_when_true else (false_t[0], t['otherwise'])
        for inc in ds:
            init = [d for d in ds if d is not inc][0]
            pinc = poly(an.def_term(inc))
            if pinc != Poly.leaf(nosite(i_t)) + Poly.const(1) and pinc != poly(i_t) + Poly.const(1):
                continue
            hs = [h for h, bl in loops.items() if si in bl and inc.bb in bl and stay in bl and leave not in bl and init.bb not in bl]
            if not hs or an.cfg.cycle_through(hs[0], loops[hs[0]], [inc.bb]):
                continue
            out.append({'var': nosite(i_t), 'init': an.def_term(init), 'bound': rhs, 'header': hs[0], 'blocks': loops[hs[0]]})
    return out


def min_leaves(ctx, b, an, t, depth=0):
    """operands of a minimum: `a.min(b)`, `cmp::min(a, b)`, nested, through copies, and the if-spelling
    `if a < b { a } else { b }` (a two-way join where each arm's value is known not to exceed the other's).
    A term that is no minimum is its own single leaf."""
    t = strip_all(t)
    if t[0] == 'call' and isinstance(t[1], str) and (t[1].endswith('Ord::min') or t[1].endswith('cmp::min')) and len(t[2]) == 2:
        return min_leaves(ctx, b, an, t[2][0], depth) + min_leaves(ctx, b, an, t[2][1], depth)
    if t[0] == 'phi' and len(t[2]) == 2 and depth < 3:
        ds = [an.defs[k] for k in t[2]]
        if all(d.kind in ('assign', 'call') and not d.partial for d in ds):
            vs = [strip_all(an.def_term(d)) for d in ds]
            okk = True
            for d, v, o in ((ds[0], vs[0], vs[1]), (ds[1], vs[1], vs[0])):
                gs = normalized_guards(ctx, b, d.bb)
                if not any(op in ('Lt', 'Le', '!Gt', '!Ge') and B is not None and nosite(strip_all(A)) == nosite(v) and nosite(strip_all(B)) == nosite(o) for op, A, B, si in gs):
                    okk = False
            if okk:
                return min_leaves(ctx, b, an, vs[0], depth + 1) + min_leaves(ctx, b, an, vs[1], depth + 1)
    return [t]


def index_loop_bounds(ctx, b, an, idx):
    """[(start, end)] of the loops whose variable the index term is, exactly (no offset): the payload of next() over a
    `start..end` range, or the counter of a while/loop counter loop"""
    i_t = strip_casts(idx, ('IntToInt',))
    out = []
    if i_t[0] == 'field' and i_t[4] == 'Some' and is_call(i_t[1], 'Iterator::next'):
        D0 = Deps(an)
        D0.closure(i_t[1][2][0])
        for x in D0.visited:
            if x[0] == 'agg' and x[2] and x[2].endswith('ops::Range'):
                f = dict(x[4])
                if 'start' in f and 'end' in f:
                    out.append((f['start'], f['end']))
    else:
        out = [(cl['init'], cl['bound']) for cl in counter_loops(an, b) if cl['var'] == nosite(i_t)]
    return out


def call_variants(an, bi, ct, max_defs=4, args=None, depth=2):
    """A call whose argument is the join of a few alternatives computed on different paths — `let m = match x {A => a,
    B => b}; f(m)` instead of `match x {A => f(a), B => f(b)}` — stands for one call per alternative: returns
    [(block that decides the alternative, call term with the alternative substituted)], or [(bi, ct)] when no argument is
    such a join.  Only one joined argument (possibly nested inside Some(..)/&..) is expanded."""
    phis = []
    for ai, a in enumerate(ct[2]):
        if args is not None and ai not in args:
            continue
        # the join itself, seen through borrows, copies and an enclosing Some(..) — not a join buried in arithmetic
        cands = []
        def peel(x, dd):
            x = strip_all(x)
            if x[0] == 'phi':
                cands.append(x)
            elif dd > 0 and x[0] in ('ref', 'deref'):
                peel(x[1], dd)
            elif dd > 0 and x[0] == 'agg' and (x[2] or '').endswith('option::Option') and x[3] == 'Some':
                peel(x[4][0][1], dd - 1)
        peel(a, depth)
        for x in cands:
            if x[0] == 'phi' and 2 <= len(x[2]) <= max_defs and x not in phis:
                ds = [an.defs[k] for k in x[2]]
                if all(d.kind in ('assign', 'call') and not d.partial for d in ds):
                    # not a loop-carried value: no definition depends on the join itself
                    if not any(x in set(subterms(an.def_term(d) if d.kind == 'assign' else an.call_term(d.bb))) for d in ds):
                        phis.append(x)
    if len(phis) != 1:
        return [(bi, ct)]
    ph = phis[0]
    out = []
    for k in ph[2]:
        d = an.defs[k]
        v = an.def_term(d) if d.kind == 'assign' else an.call_term(d.bb)
        ct2 = trewrite(ct, lambda t: v if t == ph else None)
        out.append((d.bb, ct2))
    return out


def simplify_fields(t):
    """field-of-aggregate projections folded: field(agg{.., n: x, ..}, n) -> x (after a substitution put an aggregate
    under a projection)"""
    def f(x):
        if x and x[0] == 'field' and len(x) == 5:
            base = strip_all(simplify_fields(x[1]))
            if base[0] == 'agg' and (base[1] != 'adt' or x[4] in (None, base[3])):
                for fn, ft in base[4]:
                    if fn == x[2]:
                        return simplify_fields(ft)
            return ('field', simplify_fields(x[1])) + tuple(x[2:])
        return None
    return trewrite(t, f)


def value_variants(an, t, max_defs=4):
    """A value assembled from the components of a join of aggregates — `let (r, m) = match x {A => (r1, m1), B => (r2,
    m2)}; Clip{rect: r, mask: m}` — stands for one value per alternative: [(deciding block, term)] with the join
    substituted and the projections folded; [(None, t)] when t contains no such join (exactly one is expanded)."""
    phis = []
    for x in subterms(t):
        if x[0] == 'field' and strip_all(x[1])[0] == 'phi':
            ph = strip_all(x[1])
            if ph in phis or not (2 <= len(ph[2]) <= max_defs):
                continue
            ds = [an.defs[k] for k in ph[2]]
            if all(d.kind == 'assign' and not d.partial and strip_all(an.def_term(d))[0] == 'agg' for d in ds):
                phis.append(ph)
    if len(phis) != 1:
        return [(None, t)]
    ph = phis[0]
    out = []
    for k in ph[2]:
        d = an.defs[k]
        v = strip_all(an.def_term(d))
        out.append((d.bb, simplify_fields(trewrite(t, lambda x: v if x == ph else None))))
    return out


def calls_to(ctx, b, q):
    """call terms of callee q in body b: real call sites, and (A12) expressions that were recognised as q written out"""
    an = ctx.an(b)
    out = [ct for bi, d, ct in calls_in(ctx, b) if d == q]
    o = getattr(ctx.F, 'outliner', None)
    if o is not None and q in o.active:
        for d in an.defs:
            if d.kind == 'assign' and not d.partial and d.bb in an.cfg.reach:
                t = an.def_term(d)
                if t[0] == 'call' and t[1] == q and t not in out:
                    out.append(t)
    return out


def variant_call_paths(ctx, b, scrut_pred, adt_q, max_paths=64):
    """What the body does for each variant of an enum-valued scrutinee, however the dispatch is spelled (one `match`,
    several `if let`s with shared code before and after, early returns): for every variant V, the acyclic paths from the
    entry to a return that take V's edge at every discriminant switch on the scrutinee; {V: [[(block, callee, call term)]]}
    with the crate-local calls met along each path, in order.  None when the enum or a switch cannot be read."""
    an = ctx.an(b)
    adt = ctx.F.adts.get(adt_q)
    if adt is None:
        return None
    idx = {str(v.get('idx')): v['name'] for v in adt.get('variants', [])}
    sw = {}
    for si, t in b.terminators('switch'):
        if si not in an.cfg.reach:
            continue
        c = an.term_at(si, len(b.blocks[si]['st']), t['o'])
        if c[0] == 'discr' and scrut_pred(strip_all(c[1])):
            sw[si] = t
    if not sw:
        return None
    calls_at = {}
    for bi, d, ct in calls_in(ctx, b):
        calls_at[bi] = (bi, d, ct)
    out = {}
    for V in idx.values():
        paths = []

        def walk(bb, seen, acc):
            if len(paths) >= max_paths:
                return
            if bb in seen:
                return
            seen = seen | {bb}
            if bb in calls_at and calls_at[bb][1] and calls_at[bb][1].startswith('raqote::'):
                acc = acc + [calls_at[bb]]
            t = b.blocks[bb]['t']
            if t['k'] == 'return':
                paths.append(acc)
                return
            if bb in sw:
                tgt = None
                for val, tg in sw[bb]['targets']:
                    if idx.get(val) == V:
                        tgt = tg
                walk(sw[bb]['otherwise'] if tgt is None else tgt, seen, acc)
                return
            for nx in an.cfg.succ[bb]:
                if b.blocks[nx].get('cleanup'):
                    continue
                walk(nx, seen, acc)
        walk(0, frozenset(), [])
        out[V] = paths
    return out


def dest_walk_stores(san, dest_param=4, count_param=5):
    """stores into the `dest` row of a shade_span: indexed (`dest[i] = v`) and the same walk written with an iterator
    (`for d in dest[..count].iter_mut()` / `for d in &mut dest[..count]` { *d = v }).  Returns ([(place, value, point)],
    iterator_form) — a walk over dest of any other shape is returned with value ('unknown',)"""
    from terms import Deps
    P4 = [('param', dest_param), ('deref', ('param', dest_param)), ('ref', ('deref', ('param', dest_param)))]
    st = [(a2, v, pt) for a2, v, pt, kind in san.stores if kind == 'assign' and a2[0] == 'index' and strip_all(a2[1]) in P4]
    n_index = len(st)
    it_form = False
    for a2, v, pt, kind in san.stores:
        if kind != 'assign' or a2[0] != 'deref':
            continue
        root = a2[1]
        if not (root[0] == 'field' and root[4] == 'Some' and is_call(root[1], 'Iterator::next')):
            continue
        D = Deps(san)
        D.closure(root[1][2][0])
        matched = len(st)
        for x in D.visited:
            if is_call(x, 'iter_mut', 'IntoIterator::into_iter') and len(x[2]) == 1:
                sl = strip_all(x[2][0])
                while sl[0] in ('deref', 'ref'):
                    sl = strip_all(sl[1])
                if is_call(sl, 'IndexMut::index_mut') and strip_all(sl[2][0]) in P4 and sl[2][1][0] == 'agg':
                    f2 = dict(sl[2][1][4])
                    if strip_all(f2.get('end', ('unknown',))) == ('param', count_param) and ('start' not in f2 or const_val(f2['start']) == 0):
                        st.append((a2, v, pt))
                        it_form = n_index == 0
        if len(st) == matched and any(x in P4 for x in D.visited):
            st.append((a2, ('unknown',), pt))
    return st, it_form
