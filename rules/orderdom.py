"""A8: finite order-domain interpretation of WindState::add_edge (R17.4).

The function touches its inputs (edge end points p1, p2 and the query point) only through
comparisons and through the sign of one cross product.  Its MIR is executed abstractly for every
ordering sigma = (sign(x1-X), sign(x2-X), sign(y1-Y), sign(y2-Y)) (81 cases) x every sign of the
cross product that geometry allows for that ordering, following one CFG path per case, and the
abstract result (count delta, on_edge) is compared with the crossing number of a leftward ray under
a half-open convention.  No raqote code runs: the interpreter works on the fact file."""
from util import *
from terms import fmt

S = (-1, 0, 1)


class NotAnalysable(Exception):
    pass


def sgn(v):
    return (v > 0) - (v < 0)


class Case:
    def __init__(self, sx1, sx2, sy1, sy2, c, sdy_free):
        self.sx1, self.sx2, self.sy1, self.sy2, self.c = sx1, sx2, sy1, sy2, c
        if sy1 != sy2:
            self.sdy = sgn(sy2 - sy1)
        elif sy1 == 0:
            self.sdy = 0
        else:
            self.sdy = sdy_free

    def key(self):
        return (self.sx1, self.sx2, self.sy1, self.sy2, self.c, self.sdy)

    def witness(self):
        """a concrete (p1, p2, point) with these signs (for the report only)"""
        X, Y = 4.0, 4.0
        x1, x2 = X + 2 * self.sx1, X + 2 * self.sx2
        y1, y2 = Y + 2 * self.sy1, Y + 2 * self.sy2
        if self.sy1 == self.sy2 and self.sy1 != 0 and self.sdy != 0:
            y2 = y1 + self.sdy
        if self.sx1 == self.sx2 and self.sx1 != 0:
            x2 = x1 + 1
        return 'edge (%g,%g)->(%g,%g), point (%g,%g)' % (x1, y1, x2, y2, X, Y)


def feasible_cross(sx1, sx2, sy1, sy2):
    """signs of cross = dx*(Y-y1) - dy*(X-x1) compatible with the ordering (derivations in DESIGN appendix D)"""
    if sy1 == 0 and sy2 == 0:
        return [0]
    if sy1 == 0:
        return [sy2 * sx1]
    if sy2 == 0:
        return [-sy1 * sx2]
    if sy1 * sy2 < 0:
        sdy = sgn(sy2 - sy1)
        if sx1 < 0 and sx2 < 0:
            return [-sdy]
        if sx1 > 0 and sx2 > 0:
            return [sdy]
        if sx1 == 0:
            return [-sx2 * sy1]
        if sx2 == 0:
            return [sx1 * sy2]
        return [-1, 0, 1]
    return [-1, 0, 1]       # entirely above / below: the sign is not constrained (and must not matter)


def all_cases():
    out = []
    for sx1 in S:
        for sx2 in S:
            for sy1 in S:
                for sy2 in S:
                    frees = S if (sy1 == sy2 and sy1 != 0) else (0,)
                    for c in feasible_cross(sx1, sx2, sy1, sy2):
                        for f in frees:
                            out.append(Case(sx1, sx2, sy1, sy2, c, f))
    return out


def truth(case):
    """(on_segment, {kappa: delta}) for the leftward ray; kappa in ('lower', 'upper')"""
    sx1, sx2, sy1, sy2, c, sdy = case.key()
    if sy1 == 0 and sy2 == 0:
        on = sx1 * sx2 <= 0
    elif sy1 == 0:
        on = sx1 == 0
    elif sy2 == 0:
        on = sx2 == 0
    elif sy1 * sy2 < 0:
        on = (c == 0) and not (sx1 * sx2 > 0)
    else:
        on = False
    delta = {}
    for kappa in ('lower', 'upper'):
        d = 0
        if sy1 * sy2 < 0:
            if c == -sdy and c != 0:
                d = -sdy
        elif (sy1 == 0) != (sy2 == 0):
            # one end point level with the point
            lvl_is_p1 = sy1 == 0
            other = sy2 if lvl_is_p1 else sy1
            lvl_is_lower = other > 0        # the other end is above (greater y): the level end is the lower one
            spans = (kappa == 'lower' and lvl_is_lower) or (kappa == 'upper' and not lvl_is_lower)
            sxl = sx1 if lvl_is_p1 else sx2
            if spans and sxl < 0:
                d = -sdy
        delta[kappa] = d
    return on, delta


class Interp:
    def __init__(self, body, case):
        self.b = body
        self.case = case
        self.env = {}
        self.count = 0
        self.on_edge = False

    # ---- values: ('f', expr) | ('i', n) | ('b', bool) | ('t', [..]) | ('u',)
    def atom(self, name):
        return ('f', name)

    def _is_self(self, l):
        return l == 1 or self.env.get(l) == ('r', 'self')

    def place(self, p):
        l = p['l']
        pr = p['pr']
        if self._is_self(l) and not pr:
            return ('r', 'self')          # a (re)borrow of self handed to an inlined helper
        if self._is_self(l) and pr and pr[0]['k'] == 'deref':
            l = 1
        if l == 1 and pr and pr[0]['k'] == 'deref':
            if len(pr) == 2 and pr[1]['k'] == 'field':
                n = pr[1]['n']
                if n == 'x':
                    return self.atom('X')
                if n == 'y':
                    return self.atom('Y')
                if n == 'count':
                    return ('i', self.count)
                if n == 'on_edge':
                    return ('b', self.on_edge)
            if len(pr) == 3 and pr[1]['k'] == 'field' and pr[2]['k'] == 'field' and pr[2]['n'] in ('x', 'y') and pr[1]['n'] not in ('first_point', 'current_point') \
                    and 'Point2D' in (pr[2].get('adt') or ''):
                # the query point kept as one point-valued field (that it is (x, y) is R17.5's clause)
                return self.atom('X' if pr[2]['n'] == 'x' else 'Y')
            raise NotAnalysable('read of %s' % pr)
        if getattr(self.b, 'argc', 3) == 5 and l in (2, 3, 4, 5) and l not in self.env:
            v = self.atom({2: 'x1', 3: 'y1', 4: 'x2', 5: 'y2'}[l])     # add_edge(self, x1, y1, x2, y2)
        elif l in (2, 3) and l not in self.env:
            v = ('pt', '1' if l == 2 else '2')      # the end points, as values that can be handed on
        elif l not in self.env:
            raise NotAnalysable('read of undefined local _%d' % l)
        else:
            v = self.env[l]
        for e in pr:
            if e['k'] == 'field' and v[0] == 't':
                v = v[1][int(e['n'])]
            elif e['k'] == 'field' and v[0] == 'pt' and e['n'] in ('x', 'y'):
                v = self.atom(e['n'] + v[1])
            elif e['k'] == 'downcast' and v[0] == 'e':
                if v[1] != e.get('v'):
                    raise NotAnalysable('downcast to %s of a %s' % (e.get('v'), v[1]))
            elif e['k'] == 'field' and v[0] == 'e':
                v = v[2][int(e.get('i', e['n']))]
            else:
                raise NotAnalysable('projection %s on %s' % (e['k'], v[0]))
        return v

    def operand(self, o):
        if o['k'] in ('copy', 'move'):
            return self.place(o['p'])
        if o['k'] == 'const':
            ty = o['ty']
            if ty in ('f32', 'f64'):
                return ('f', ('const', float(o['val'])))
            if ty == 'bool':
                return ('b', o['val'] == '1')
            if 'val' in o and ty in ('i32', 'u32', 'i64', 'usize', 'isize', 'i8', 'u8'):
                return ('i', int(o['val']))
            if ty == '()':
                return ('u',)
        raise NotAnalysable('operand %s' % o.get('ty'))

    def fsign(self, e):
        """sign of a float expression under the case"""
        c = self.case
        tbl = {('x1', 'X'): c.sx1, ('x2', 'X'): c.sx2, ('y1', 'Y'): c.sy1, ('y2', 'Y'): c.sy2, ('y2', 'y1'): c.sdy}
        if isinstance(e, tuple) and e[0] == 'const':
            return sgn(e[1])
        if isinstance(e, tuple) and e[0] == 'sub':
            a, b = e[1], e[2]
            if isinstance(a, str) and isinstance(b, str):
                if (a, b) in tbl:
                    return tbl[(a, b)]
                if (b, a) in tbl:
                    return -tbl[(b, a)]
                if a == b:
                    return 0
            if isinstance(b, tuple) and b[0] == 'const' and b[1] == 0:
                return self.fsign(a)
            cs = self.cross_sign(e)
            if cs is not None:
                return cs
        if isinstance(e, tuple) and e[0] == 'neg':
            return -self.fsign(e[1])
        raise NotAnalysable('sign of %s' % (e,))

    def cross_sign(self, e):
        """+c / -c if e is the cross product (in either orientation, relative to either end point)"""
        if not (isinstance(e, tuple) and e[0] == 'sub' and isinstance(e[1], tuple) and e[1][0] == 'mul' and isinstance(e[2], tuple) and e[2][0] == 'mul'):
            return None
        dx, dy = ('sub', 'x2', 'x1'), ('sub', 'y2', 'y1')
        def pair(m):
            return frozenset([m[1], m[2]]) if m[1] != m[2] else frozenset([m[1]])
        for end in ('1', '2'):
            A = frozenset([dx, ('sub', 'Y', 'y' + end)])
            B = frozenset([dy, ('sub', 'X', 'x' + end)])
            if pair(e[1]) == A and pair(e[2]) == B:
                return self.case.c
            if pair(e[1]) == B and pair(e[2]) == A:
                return -self.case.c
        return None

    def cmp(self, op, a, b):
        if a[0] == 'i' and b[0] == 'i':
            x, y = a[1], b[1]
        elif a[0] == 'f' and b[0] == 'f':
            x, y = self.fsign(('sub', a[1], b[1])), 0
        elif a[0] == 'b' and b[0] == 'b':
            x, y = int(a[1]), int(b[1])
        else:
            raise NotAnalysable('comparison of %s and %s' % (a[0], b[0]))
        return {'Lt': x < y, 'Le': x <= y, 'Gt': x > y, 'Ge': x >= y, 'Eq': x == y, 'Ne': x != y}[op]

    def rvalue(self, rv):
        k = rv['k']
        if k == 'use':
            return self.operand(rv['o'])
        if k == 'agg' and rv['ak'] == 'tuple':
            return ('t', [self.operand(o) for o in rv['ops']])
        if k == 'agg' and rv['ak'] == 'adt' and rv.get('v') is not None:
            # a value of a local enum (e.g. the classification of one edge returned by an extracted helper)
            return ('e', rv['v'], [self.operand(o) for o in rv['ops']], rv.get('adt'))
        if k == 'discr':
            v = self.place(rv['p'])
            if v[0] == 'e':
                a = self.b.facts.adts.get(v[3]) if getattr(self.b, 'facts', None) is not None else None
                idx = None
                if a is not None:
                    for var in a.get('variants', []):
                        if var['name'] == v[1]:
                            idx = var.get('idx')
                if idx is None:
                    raise NotAnalysable('discriminant of %s::%s' % (v[3], v[1]))
                return ('i', idx)
            raise NotAnalysable('discriminant of %s' % v[0])
        if k == 'binop':
            a, b = self.operand(rv['a']), self.operand(rv['b'])
            op = rv['op']
            if op in ('Lt', 'Le', 'Gt', 'Ge', 'Eq', 'Ne'):
                return ('b', self.cmp(op, a, b))
            base = {'AddWithOverflow': 'Add', 'SubWithOverflow': 'Sub', 'MulWithOverflow': 'Mul'}.get(op, op)
            if a[0] == 'i' and b[0] == 'i':
                r = {'Add': a[1] + b[1], 'Sub': a[1] - b[1], 'Mul': a[1] * b[1]}.get(base)
                if r is None:
                    raise NotAnalysable('int op %s' % op)
                return ('t', [('i', r), ('b', False)]) if op.endswith('WithOverflow') else ('i', r)
            if a[0] == 'f' and b[0] == 'f':
                if base in ('Add', 'Sub', 'Mul'):
                    return ('f', ({'Add': 'add', 'Sub': 'sub', 'Mul': 'mul'}[base], a[1], b[1]))
            if a[0] == 'b' and b[0] == 'b' and base in ('BitAnd', 'BitOr', 'BitXor'):
                return ('b', {'BitAnd': a[1] and b[1], 'BitOr': a[1] or b[1], 'BitXor': a[1] != b[1]}[base])
            raise NotAnalysable('binop %s on %s,%s' % (op, a[0], b[0]))
        if k == 'unop':
            a = self.operand(rv['o'])
            if rv['op'] == 'Not' and a[0] == 'b':
                return ('b', not a[1])
            if rv['op'] == 'Neg' and a[0] == 'i':
                return ('i', -a[1])
            if rv['op'] == 'Neg' and a[0] == 'f':
                return ('f', ('neg', a[1]))
            raise NotAnalysable('unop %s' % rv['op'])
        if k == 'cast' and rv['ck'] in ('IntToInt',):
            return self.operand(rv['o'])
        if k in ('ref', 'rawptr'):
            p = rv['p']
            if self._is_self(p['l']) and len(p['pr']) == 1 and p['pr'][0]['k'] == 'deref':
                return ('r', 'self')
        raise NotAnalysable('rvalue %s' % k)

    def store(self, p, v):
        l, pr = p['l'], p['pr']
        if l != 1 and self._is_self(l) and pr and pr[0]['k'] == 'deref':
            l = 1
        if l == 1 and pr and pr[0]['k'] == 'deref' and len(pr) == 2 and pr[1]['k'] == 'field':
            n = pr[1]['n']
            if n == 'count' and v[0] == 'i':
                self.count = v[1]
                return
            if n == 'on_edge' and v[0] == 'b':
                self.on_edge = v[1]
                return
            raise NotAnalysable('store to self.%s' % n)
        if pr:
            raise NotAnalysable('partial store')
        self.env[l] = v

    def run(self):
        b = self.b
        bb = 0
        steps = 0
        while True:
            steps += 1
            if steps > 2000:
                raise NotAnalysable('no termination within 2000 blocks')
            blk = b.blocks[bb]
            for s in blk['st']:
                if s['k'] == 'assign':
                    self.store(s['p'], self.rvalue(s['rv']))
                else:
                    raise NotAnalysable('statement %s' % s['k'])
            t = blk['t']
            k = t['k']
            if k == 'return':
                return self.count, self.on_edge
            if k == 'goto':
                bb = t['t']
            elif k == 'assert':
                bb = t['t']         # overflow of the crossing counter is out of scope
            elif k == 'switch':
                v = self.operand(t['o'])
                if v[0] == 'b':
                    x = '1' if v[1] else '0'
                elif v[0] == 'i':
                    x = str(v[1])
                else:
                    raise NotAnalysable('switch on %s' % v[0])
                nxt = None
                for val, tgt in t['targets']:
                    if val == x:
                        nxt = tgt
                bb = t['otherwise'] if nxt is None else nxt
            else:
                raise NotAnalysable('terminator %s' % k)


def analyse(body):
    """returns (results {case key: (delta, on)}, failures per kappa, verdict kappa or None)"""
    res = {}
    ret_ty = str(((getattr(body, 'raw', None) or {}).get('locals') or [{}])[0].get('ty', '()'))
    if ret_ty not in ('()', ''):
        raise NotAnalysable('add_edge returns a %s: its contribution is no longer only its update of the state fields' % ret_ty)
    for case in all_cases():
        it = Interp(body, case)
        res[case.key()] = (case,) + it.run()
    fails = {'lower': [], 'upper': []}
    on_fail = []
    for key, (case, delta, on_code) in res.items():
        on, want = truth(case)
        if on_code != on:
            on_fail.append((case, delta, on_code, on))
        for kappa in ('lower', 'upper'):
            if not on and not (on_code and False) and delta != want[kappa]:
                fails[kappa].append((case, delta, want[kappa]))
    return res, fails, on_fail
