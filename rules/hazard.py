"""R07.1: census of potentially panicking constructs (other than arithmetic overflow) in the bodies
reachable from the public API, with line-free descriptors."""
from util import *
from terms import fmt, subterms
import shared

PANIC_CALLS = ('std::rt::begin_panic', 'core::panicking::panic', 'core::panicking::panic_fmt', 'core::panicking::assert_failed',
               'core::panicking::unreachable_display', 'core::panicking::panic_explicit', 'std::rt::panic_fmt', 'core::panicking::panic_display')


def base_descr(b, t):
    """short, line-free description of an indexed base: the field path from its root"""
    t = strip_all(t)
    r, nm = field_path(t)
    # opt.as_ref() / as_mut() only change how the payload is borrowed: `x.as_ref().0` is the place `x.0`
    while r[0] == 'call' and isinstance(r[1], str) and r[1].split('::')[-1] in ('as_ref', 'as_mut') and 'Option' in r[1] and len(r[2]) == 1:
        r, nm0 = field_path(strip_all(r[2][0]))
        nm = nm0 + nm
    if r[0] == 'param':
        root = b.local_name(r[1])
    elif r[0] in ('mem', 'phi'):
        root = b.local_name(r[1])
    elif r[0] == 'call':
        root = 'call:' + (r[1].split('::')[-1] if isinstance(r[1], str) else 'indirect')
    else:
        root = r[0]
    return '.'.join([root] + nm)


def hazards_of(ctx, b):
    """[(kind, detail, bb, extra)]"""
    an = ctx.an(b)
    out = []
    folded = set()
    for bi, t in b.terminators('assert'):
        if bi not in an.cfg.reach:
            continue
        m = t['msg']
        blk = b.blocks[bi]
        idx = len(blk['st'])
        if m == 'BoundsCheck':
            # the indexed place is in the successor block's first use; describe by the len operand
            ln = an.term_at(bi, idx, t['len']) if 'len' in t else ('unknown', '?')
            base = None
            for x in subterms(ln):
                if x[0] == 'un' and x[1] == 'PtrMetadata':
                    base = x[2]
            if base is None:
                base = ln
            out.append(('index', base_descr(b, base), bi, {'index': an.term_at(bi, idx, t['index']) if 'index' in t else None, 'base': base}))
        elif m in ('DivisionByZero', 'RemainderByZero'):
            c = an.term_at(bi, idx, t['o'])
            div = c[2] if c[0] == 'bin' and c[1] == 'Eq' else c
            out.append(('div' if m == 'DivisionByZero' else 'rem', fmt(b, div)[:60], bi, {'divisor': div}))
    for bi, d, ct in calls_in(ctx, b):
        if d is None:
            continue
        last = d.split('::')[-1]
        if d in PANIC_CALLS or d.startswith('core::panicking::') or d.startswith('std::rt::begin_panic'):
            # assert!/debug_assert!/panic!/unreachable!
            out.append(('panic', last, bi, {}))
        elif (d.endswith('Option::<T>::unwrap') or d.endswith('Option::<T>::expect') or d.endswith('Result::<T, E>::unwrap') or d.endswith('Result::<T, E>::expect')):
            recv = strip_all(ct[2][0])
            what = callee_last(recv) if recv[0] == 'call' else base_descr(b, recv)
            out.append(('unwrap', str(what), bi, {'recv': recv}))
        elif d.endswith('ops::Index::index') or d.endswith('ops::IndexMut::index_mut'):
            rng = ct[2][1]
            if rng[0] == 'agg' and (rng[2] or '').split('::')[-1].startswith('Range'):
                kind = rng[2].split('::')[-1]
                if kind == 'RangeFull':
                    continue
                inner = strip_all(ct[2][0])
                if kind == 'RangeTo' and is_call(inner, 'Index::index', 'IndexMut::index_mut') and inner[2][1][0] == 'agg' and (inner[2][1][2] or '').split('::')[-1] == 'RangeFrom':
                    # base[a..][..n] is base[a..a+n]: one hazard, that of the range it spells (the inner RangeFrom is folded into it)
                    folded.add(repr(inner))
                    rng2 = ('agg', rng[1], (rng[2] or '').replace('RangeTo', 'Range'), rng[3], (('start', dict(inner[2][1][4])['start']), ('end', ('bin', 'Add', dict(inner[2][1][4])['start'], dict(rng[4])['end']))))
                    out.append(('slice', '%s[Range]' % base_descr(b, inner[2][0]), bi, {'base': strip_all(inner[2][0]), 'range': rng2}))
                    continue
                out.append(('slice', '%s[%s]' % (base_descr(b, ct[2][0]), kind), bi, {'base': strip_all(ct[2][0]), 'range': rng, 'self': repr(('call', d, ct[2], ct[3])) if len(ct) > 3 else None, 'term': ct}))
            else:
                out.append(('index', base_descr(b, ct[2][0]), bi, {'index': rng, 'base': strip_all(ct[2][0])}))
        elif last in ('copy_from_slice',):
            out.append(('len-match', last, bi, {}))
        elif d.startswith('lyon_geom::') and last in ('flattened', 'for_each_flattened', 'for_each_flattened_with_t', 'for_each_quadratic_bezier', 'for_each_monotonic') \
                and len(ct[2]) >= 2 and (b.blocks[bi]['t'].get('arg_tys') or ['', ''])[1] == 'f32':
            # lyon_geom debug-asserts tolerance >= EPSILON * EPSILON (and > 0) in its flattening / approximation routines
            out.append(('extern', 'lyon tolerance', bi, {'tol': ct[2][1]}))
    if folded:
        out = [h for h in out if not (h[0] == 'slice' and h[1].endswith('[RangeFrom]') and h[3].get('term') is not None and repr(strip_all(h[3]['term'])) in folded)]
    return out


def api_roots(F):
    """public entry points the property quantifies over"""
    roots = []
    for q, b in F.bodies.items():
        if b.vis != 'pub':
            continue
        if q.startswith('<'):
            # trait impls on public types: From/Default/Clone are part of the API surface
            if any(x in q for x in ('as std::convert::From', 'as std::default::Default')):
                roots.append(q)
            continue
        if any(q.startswith(p) for p in ('raqote::draw_target::DrawTarget::', 'raqote::path_builder::PathBuilder::', 'raqote::path_builder::Path::', 'raqote::draw_target::Source::', 'raqote::draw_target::SolidSource::', 'raqote::draw_target::DrawOptions::')):
            roots.append(q)
    return roots


EXCLUDED = {
    'raqote::draw_target::DrawTarget::draw_text': 'text feature: font-kit glyph lookup may fail by contract; no property covers text',
    'raqote::draw_target::DrawTarget::draw_glyphs': 'text feature (see draw_text)',
    'raqote::draw_target::DrawTarget::write_png': 'I/O: returns Result; division audited under C19 (R19.1 a > 0 guard)',
}


def census(ctx):
    cg = CallGraph(ctx.F)
    roots = [r for r in api_roots(ctx.F) if r not in EXCLUDED]
    reach = cg.reachable(roots)
    # do not walk into the excluded functions
    reach = set(q for q in reach if q not in EXCLUDED and q in ctx.F.bodies)
    out = {}
    for q in sorted(reach):
        b = ctx.F.bodies[q]
        if '::fmt' in q and 'as std::fmt::Debug' in q:
            continue
        hs = hazards_of(ctx, b)
        if hs:
            out[q] = hs
    return out, roots, reach


# ---------------------------------------------------------------- discharge
def cut_by_edges(cfg, site, edges):
    """True iff every path entry -> site uses one of the given CFG edges"""
    edges = set(edges)
    seen = set([0])
    st = [0]
    if site == 0:
        return False
    while st:
        x = st.pop()
        for y in cfg.succ[x]:
            if (x, y) in edges:
                continue
            if y == site:
                return False
            if y not in seen:
                seen.add(y)
                st.append(y)
    return True


def cut_from(cfg, start, site, edges):
    """True iff every path start -> site uses one of the given CFG edges (start != site)"""
    edges = set(edges)
    seen = set([start])
    st = [start]
    while st:
        x = st.pop()
        for y in cfg.succ[x]:
            if (x, y) in edges:
                continue
            if y == site:
                return False
            if y not in seen:
                seen.add(y)
                st.append(y)
    return True


def bool_edges(ctx, b, pred):
    """edges (switch bb, target) on which a boolean condition accepted by pred(op, A, B) holds.
    pred receives the comparison as it holds on that edge (negations folded: '!Lt' etc.)"""
    an = ctx.an(b)
    out = []
    def try_pred(op, A, B):
        # a rule written for `x != 0` also accepts `0 != x` (and the mirrored ordered comparisons)
        if pred(op, A, B):
            return True
        if B is not None:
            base = op.lstrip('!')
            if base in CMP_SWAP and pred(('!' if op.startswith('!') else '') + CMP_SWAP[base], B, A):
                return True
            if base in ('Eq', 'Ne'):
                dual = CMP_NEG[base] if op.startswith('!') else '!' + CMP_NEG[base]
                if pred(dual, A, B) or pred(dual, B, A):
                    return True
        return False
    for si, t in b.terminators('switch'):
        if si not in an.cfg.reach:
            continue
        if t.get('ty') != 'bool':
            # `match n { 0 => .., 1 => .., _ => .. }` on an integer: the edge to value v knows n == v, the otherwise edge
            # knows n != v for every listed v
            c = an.term_at(si, len(b.blocks[si]['st']), t['o'])
            if c[0] == 'discr' or not t['targets']:
                continue
            ty = t.get('ty') or 'usize'
            vals = []
            for v, tgt in t['targets']:
                try:
                    vals.append((int(v), tgt))
                except ValueError:
                    vals = None
                    break
            if not vals:
                continue
            for v, tgt in vals:
                known = [('Eq', v)] + [('Ne', w) for w, _ in vals if w != v]
                if v > 0:
                    known += [('Gt', 0), ('Ge', 1), ('Ne', 0)]
                if any(try_pred(op, c, ('const', ty, str(k))) for op, k in known):
                    out.append((si, tgt))
            if any(try_pred('Ne', c, ('const', ty, str(v))) for v, tgt in vals):
                # the edge carries all the inequalities; record it once per satisfied predicate
                if t['otherwise'] not in an.cfg.dead:
                    out.append((si, t['otherwise']))
            continue
        c = an.term_at(si, len(b.blocks[si]['st']), t['o'])
        neg = False
        while c[0] == 'un' and c[1] == 'Not':
            c, neg = c[2], not neg
        false_t = [tt for v, tt in t['targets'] if v == '0']
        if not false_t:
            continue
        false_t, true_t = false_t[0], t['otherwise']
        for truth, tgt in ((True, true_t), (False, false_t)):
            holds = truth != neg
            if c[0] == 'bin' and c[1] in CMP_NEG:
                op = c[1] if holds else '!' + c[1]
                if try_pred(op, c[2], c[3]):
                    out.append((si, tgt))
            else:
                if pred('true' if holds else '!true', c, None):
                    out.append((si, tgt))
    return out


def same_base(b, x, y):
    return base_descr(b, x) == base_descr(b, y)


def len_of(t):
    """base term if t is len(base) / PtrMetadata(base)"""
    t = strip_casts(t)
    if t[0] == 'un' and t[1] == 'PtrMetadata':
        return strip_all(t[2])
    if is_call(t, '::len') and len(t[2]) == 1:
        return strip_all(t[2][0])
    return None


def auto_discharge(ctx, b, h):
    """patterns the rule can verify by itself; returns a reason string or None"""
    kind, detail, bi, ex = h
    an = ctx.an(b)
    cfg = an.cfg
    if kind in ('div', 'rem'):
        v = const_val(ex['divisor'])
        if v is not None and v != 0:
            return 'constant non-zero divisor %s' % v
        d = ex['divisor']
        edges = bool_edges(ctx, b, lambda op, A, B: (op in ('Ne', '!Eq', 'Gt') and B is not None and const_val(B) == 0 and nosite(A) == nosite(d)))
        if edges and cut_by_edges(cfg, bi, edges):
            return 'divisor tested non-zero on every path'
        return None
    if kind == 'unwrap':
        r = ex['recv']
        edges = bool_edges(ctx, b, lambda op, A, B: B is None and ((op == '!true' and is_call(A, 'is_none') and nosite(strip_all(A[2][0])) == nosite(r)) or (op == 'true' and is_call(A, 'is_some') and nosite(strip_all(A[2][0])) == nosite(r))))
        if edges and cut_by_edges(cfg, bi, edges):
            return 'unwrap dominated by an is_none()/is_some() test of the same place'
        return None
    if kind == 'extern':
        # the tolerance handed to lyon is a constant >= EPSILON^2, or clamped from below by one (max(x, c); max(NaN, c) = c)
        EPS2 = 1e-8          # lyon_geom 1.0.19: <f32 as Scalar>::EPSILON = 1e-4
        def lower_bound(t, depth=0):
            t = strip_all(t)
            v = const_val(t)
            if isinstance(v, (int, float)):
                return float(v)
            p = poly(t)
            cv = p.const_value()
            if cv is not None:
                return float(cv)
            if t[0] == 'call' and isinstance(t[1], str) and t[1].endswith('::max') and len(t[2]) == 2:
                bs = [lower_bound(x, depth + 1) for x in t[2]]
                bs = [x for x in bs if x is not None]
                return max(bs) if bs else None
            if t[0] in ('phi', 'rec') and depth < 4:
                ds = an.phi_terms(t) if t[0] == 'phi' else [an.def_term(an.defs[t[1]])]
                bs = [lower_bound(x, depth + 1) for x in ds]
                return min(bs) if bs and all(x is not None for x in bs) else None
            return None
        lb = lower_bound(ex['tol'])
        if lb is not None and lb >= EPS2 * 0.999999:
            return 'tolerance bounded below by %g >= EPSILON^2' % lb
        return None
    if kind == 'panic':
        # an assertion whose failure branch is infeasible: one of the conditions that hold on entry to the panic block is
        # refuted by the value range of a narrowing cast (x as u8 <= 255), by two slices cut with equal lengths, by
        # comparing a value with itself, or by the opposite test made earlier on the way there
        def ubound(t):
            t0 = t
            for _ in range(4):
                t0 = strip_all(t0)
                if t0[0] == 'cast' and t0[2] in ('u8', 'u16'):
                    return 255 if t0[2] == 'u8' else 65535
                if t0[0] == 'cast' and t0[1] in ('IntToInt',):
                    t0 = t0[3]
                    continue
                break
            return None
        def slice_len(t):
            base = len_of(t)
            if base is None:
                return None
            x = strip_all(base)
            while x[0] in ('deref', 'ref'):
                x = strip_all(x[1])
            if x[0] in ('mem', 'phi'):
                x = strip_all(shared.resolve_mem(an, x)) if x[0] == 'mem' else x
                while x[0] in ('deref', 'ref'):
                    x = strip_all(x[1])
            if is_call(x, 'Index::index', 'IndexMut::index_mut') and len(x[2]) == 2 and strip_all(x[2][1])[0] == 'agg' and (strip_all(x[2][1])[2] or '').endswith('ops::Range'):
                f = dict(strip_all(x[2][1])[4])
                if 'start' in f and 'end' in f:
                    return poly(f['end']) - poly(f['start'])
            return None
        NEG = {'Eq': 'Ne', 'Ne': 'Eq', 'Lt': 'Ge', 'Ge': 'Lt', 'Gt': 'Le', 'Le': 'Gt'}
        INTS = ('i8', 'i16', 'i32', 'i64', 'isize', 'u8', 'u16', 'u32', 'u64', 'usize')
        def is_int(t):
            t = strip_all(t)
            if t[0] == 'const':
                return t[1] in INTS
            if t[0] in ('phi', 'mem') and isinstance(t[1], int):
                return b.local_ty(t[1]) in INTS
            if t[0] == 'cast':
                return t[2] in INTS
            if t[0] == 'param' and isinstance(t[1], int):
                return b.local_ty(t[1]) in INTS
            return False
        def canon(op, A=None, B=None):
            # '!Eq' -> 'Ne' always; the negated ordered forms only for integers (a NaN makes both `<` and `>=` false)
            if op.startswith('!') and op[1:] in ('Eq', 'Ne'):
                return NEG[op[1:]]
            if op.startswith('!') and op[1:] in NEG and ((A is not None and is_int(A)) or (B is not None and is_int(B))):
                return NEG[op[1:]]
            return op
        fs = [(canon(op, A, B), A, B, si) for op, A, B, si in shared.facts_at(ctx, b, bi) if B is not None]
        # `assert!(p && q)`: the failure block is entered from one test per conjunct; it is unreachable when each of those
        # edges contradicts what is already known at its test
        def edge_facts(P, into):
            t = b.blocks[P]['t']
            if t['k'] != 'switch' or t.get('ty') != 'bool':
                return None
            false_t = [tt for v, tt in t['targets'] if v == '0']
            if not false_t or false_t[0] == t['otherwise']:
                return None
            truth = t['otherwise'] == into
            if not truth and false_t[0] != into:
                return None
            c = an.term_at(P, len(b.blocks[P]['st']), t['o'])
            neg = not truth
            while c[0] == 'un' and c[1] == 'Not':
                c, neg = c[2], not neg
            if c[0] == 'bin' and c[1] in NEG:
                op = c[1]
                if neg:
                    op = NEG[op] if op in ('Eq', 'Ne') else '!' + op
                return [(op, c[2], c[3])]
            return None
        CONTRA = {'Lt': ('!Lt', 'Ge'), '!Lt': ('Lt',), 'Ge': ('!Ge', 'Lt'), '!Ge': ('Ge',), 'Gt': ('!Gt', 'Le'), '!Gt': ('Gt',),
                  'Le': ('!Le', 'Gt'), '!Le': ('Le',), 'Eq': ('Ne', '!Eq', 'Lt', 'Gt'), 'Ne': ('Eq', '!Ne'), '!Eq': ('Eq',), '!Ne': ('Ne',)}
        SWP = {'Lt': 'Gt', 'Gt': 'Lt', 'Le': 'Ge', 'Ge': 'Le', 'Eq': 'Eq', 'Ne': 'Ne'}
        def contradicts(op, A, B, known):
            """both cannot hold: `op(A, B)` and a known fact about the same two terms"""
            mine = [(op, nosite(A), nosite(B)), (('!' if op.startswith('!') else '') + SWP[op.lstrip('!')], nosite(B), nosite(A))]
            for op2, A2, B2, sj in known:
                for o1, a1, b1 in mine:
                    if a1 == nosite(A2) and b1 == nosite(B2) and op2 in CONTRA.get(o1, ()):
                        return True
            return False
        preds = [P for P in cfg.pred[bi] if P in cfg.reach]
        # look through blocks that only jump
        def real_preds(x, depth=0):
            out = []
            for P in cfg.pred[x]:
                if P not in cfg.reach:
                    continue
                if b.blocks[P]['t']['k'] == 'goto' and not b.blocks[P]['st'] and depth < 3:
                    out += real_preds(P, depth + 1)
                else:
                    out.append((P, x))
            return out
        # the same across paths: the block (or every block that jumps into it) knows a fact which every path to it has
        # contradicted on some earlier edge (the test was made on each route, not at one dominating point)
        def refuted_by_edges(x):
            for op, A, B, si in [(canon(o, A, B), A, B, si) for o, A, B, si in shared.facts_at(ctx, b, x) if B is not None]:
                nA, nB = nosite(A), nosite(B)
                def contra(op2, A2, B2):
                    return B2 is not None and nosite(A2) == nA and nosite(B2) == nB and canon(op2, A2, B2) in CONTRA.get(op, ())
                es = [e for e in bool_edges(ctx, b, contra) if e[0] != si]
                if es and cut_by_edges(cfg, si, es):
                    return True
            return False
        ps = [P for P in cfg.pred[bi] if P in cfg.reach]
        if refuted_by_edges(bi) or (ps and all(b.blocks[P]['t']['k'] == 'goto' and refuted_by_edges(P) for P in ps)):
            return 'the assertion fails only if a comparison holds whose opposite was established on every path to it'
        rp = real_preds(bi)
        if rp and all(b.blocks[P]['t']['k'] == 'switch' for P, into in rp):
            allref = True
            for P, into in rp:
                ef = edge_facts(P, into)
                known = [(canon(o, A, B), A, B, sj) for o, A, B, sj in shared.facts_at(ctx, b, P) if B is not None]
                if not ef or not all(contradicts(o, A, B, known) for o, A, B in ef):
                    allref = False
                    break
            if allref:
                return 'every way into the assertion failure contradicts a test that dominates it'
        for op, A, B, si in fs:
            cb = const_val(strip_all(B))
            if op in ('Gt', '!Le') and isinstance(cb, int) and ubound(A) is not None and ubound(A) <= cb:
                return 'assertion on a value of a narrow unsigned type: %s cannot exceed %d' % (fmt(b, A)[:40], cb)
            if op == 'Ne' and nosite(strip_all(A)) == nosite(strip_all(B)):
                return 'assertion compares a value with itself'
            if op == 'Ne':
                la, lb2 = slice_len(A), slice_len(B)
                if la is not None and lb2 is not None and la == lb2:
                    return 'assert_eq! of the lengths of two slices cut with equal lengths (%s)' % la.show(b)[:60]
            for op2, A2, B2, sj in fs:
                if sj != si and nosite(A2) == nosite(A) and nosite(B2) == nosite(B) and (NEG.get(op) == op2 or op == '!' + op2 or op2 == '!' + op):
                    return 'assertion repeats a test that dominates it'
    if kind == 'panic' and detail == 'assert_failed':
        # assert_eq!(v.len(), n) right after v.resize(n, _): the only way to the failure is len(v) != n, and nothing but
        # that resize mutates v
        fs = shared.facts_at(ctx, b, bi)
        for op, A, B, si in fs:
            if B is None or op not in ('!Eq', 'Ne'):
                continue
            for x, y in ((A, B), (B, A)):
                x1 = strip_all(x)
                while x1[0] == 'deref':
                    x1 = strip_all(x1[1])
                if x1[0] == 'mem':
                    x1 = shared.resolve_mem(an, x1)
                y1 = strip_all(y)
                while y1[0] == 'deref':
                    y1 = strip_all(y1[1])
                if y1[0] == 'mem':
                    y1 = shared.resolve_mem(an, y1)
                base = len_of(x1)
                if base is None or base[0] not in ('mem', 'phi'):
                    continue
                vec_l = base[1]
                rs = [(rb, rct) for rb, d, rct in calls_in(ctx, b) if d and d.endswith('Vec::<T, A>::resize') and strip_all(rct[2][0]) in (('mem', vec_l),)]
                muts = []
                for rb, d, rct in calls_in(ctx, b):
                    tys = b.blocks[rb]['t'].get('arg_tys') or []
                    for k3, a in enumerate(rct[2]):
                        if strip_all(a) == ('mem', vec_l) and k3 < len(tys) and tys[k3].startswith('&mut'):
                            muts.append(rb)
                if len(rs) == 1 and muts == [rs[0][0]] and cfg.dominates(rs[0][0], bi) and poly(rs[0][1][2][1]) == poly(y1):
                    return 'assert_eq!(v.len(), n) dominated by the only mutation of v, v.resize(n, _)'
        return None
    if kind == 'len-match':
        # dst.copy_from_slice(src) inside the row callback that copy_surface hands to composite_surface: the two rows
        # have equal length by R15.2, whatever the callback is called and whether it is a closure or a local fn
        try:
            import props.c15 as c15
            cb, w, wan, call = c15.callback_of(ctx, 'copy_surface', 'R07.1')
        except Exception:
            cb = None
        if cb is not None and cb[0] in ('closure', 'fn') and cb[1].q == b.q:
            ct = an.call_term(bi)
            ps, pd = (2, 3) if cb[0] == 'closure' else (1, 2)
            if strip_all(ct[2][0]) in (('param', pd), ('deref', ('param', pd))) and strip_all(ct[2][1]) in (('param', ps), ('deref', ('param', ps))):
                return 'row callback of composite_surface: source and destination rows have equal length (R15.2)'
        return None
    if kind == 'slice' and b.q.endswith(' as raqote::blitter::Shader>::shade_span') and (detail.endswith('[RangeTo]') or detail.endswith('[Range]')):
        # dest[..count] / dest[0..count] in a shader: the same bound as dest[i] for i < count (the audited spelling):
        # count <= dest.len() because the blitters hand over tmp[..] of surface width and count = x2 - x1 (R02.4)
        rng = ex.get('range')
        base = ex.get('base')
        if rng and rng[0] == 'agg' and base is not None:
            f = dict(rng[4])
            sb = strip_all(base)
            while sb[0] in ('deref', 'ref'):
                sb = strip_all(sb[1])
            if sb == ('param', 4) and strip_all(f.get('end', ('unknown',))) == ('param', 5) and ('start' not in f or const_val(f['start']) == 0):
                return 'dest[..count]: count <= dest.len() (tmp is as wide as the surface), as for dest[i], i < count'
        return None
    if kind == 'slice' and detail.endswith('[RangeFrom]'):
        # base[k..] with a constant k needs len(base) >= k
        rng = ex.get('range')
        base = ex.get('base')
        k = const_val(dict(rng[4]).get('start', ('unknown',))) if rng and rng[0] == 'agg' else None
        if isinstance(k, int) and base is not None:
            if k == 0:
                return 'base[0..] is always in range'
            def pred(op, A, B):
                if B is None:
                    return k == 1 and op == '!true' and is_call(A, 'is_empty') and same_base(b, strip_all(A[2][0]), base)
                lb = len_of(A)
                if lb is None or not same_base(b, lb, base):
                    return False
                c = const_val(B)
                if c is None:
                    return False
                return (op == 'Gt' and c >= k - 1) or (op == 'Ge' and c >= k) or (op in ('Ne', '!Eq') and c == 0 and k == 1)
            edges = bool_edges(ctx, b, pred)
            if edges and cut_by_edges(cfg, bi, edges):
                return 'slice from a constant under a length test of the same container'
        return None
    if kind == 'index':
        idx = ex.get('index')
        base = ex.get('base')
        if idx is None or base is None:
            return None
        iv = const_val(idx)
        # fixed-size array with a constant index
        blk = b.blocks[bi]
        t = blk['t']
        if t['k'] == 'assert' and 'len' in t:
            lv = const_val(an.term_at(bi, len(blk['st']), t['len']))
            if iv is not None and lv is not None and 0 <= iv < lv:
                return 'constant index %d into an array of length %d' % (iv, lv)
        # a fixed-size table indexed by the discriminant of a fieldless enum with as many variants as the table has entries
        if t['k'] == 'assert' and 'len' in t:
            lv2 = const_val(an.term_at(bi, len(blk['st']), t['len']))
            ix2 = strip_casts(idx, ('IntToInt',))
            if ix2[0] == 'discr' and isinstance(lv2, int):
                a2 = ctx.F.adt(ix2[2]) if len(ix2) > 2 and ix2[2] else None
                if a2 and len(a2['variants']) == lv2 and all(not v.get('fields') for v in a2['variants']) and sorted(v.get('idx') for v in a2['variants']) == list(range(lv2)):
                    return 'table of %d entries indexed by the discriminant of %s (%d fieldless variants)' % (lv2, ix2[2].split('::')[-1], lv2)
        # loop variable over a range that ends at len(base): `for i in s..e` or a while/loop counter, e being len(base),
        # a minimum one of whose operands is len(base), or -- for a base that is itself base0[a..b] -- b - a
        for st0, en in shared.index_loop_bounds(ctx, b, an, idx):
            ends = shared.min_leaves(ctx, b, an, en)
            if any(len_of(x) is not None and same_base(b, len_of(x), base) for x in ends):
                return 'index is the loop variable of a loop ending at (a min with) len() of the same container'
            sb = strip_all(base)
            while sb[0] in ('deref', 'ref'):
                sb = strip_all(sb[1])
            if is_call(sb, 'Index::index', 'IndexMut::index_mut') and len(sb[2]) == 2 and sb[2][1][0] == 'agg' and (sb[2][1][2] or '').endswith('ops::Range'):
                f = dict(sb[2][1][4])
                if 'start' in f and 'end' in f:
                    ln = poly(f['end']) - poly(f['start'])
                    s0 = const_val(st0)
                    if isinstance(s0, int) and s0 >= 0 and any(poly(x) == ln for x in [en] + ends):
                        return 'index is the loop variable of a loop over 0..n into a slice base[a..a+n]'
        # constant index k under a guard len(base) > k' (k' >= k), !is_empty, len != 0
        if iv is not None:
            def pred(op, A, B):
                if B is None:
                    return op == '!true' and is_call(A, 'is_empty') and same_base(b, strip_all(A[2][0]), base)
                lb = len_of(A)
                if lb is None or not same_base(b, lb, base):
                    return False
                k = const_val(B)
                if k is None:
                    return False
                return (op == 'Gt' and k >= iv) or (op in ('Ne', '!Eq') and k == 0 and iv == 0) or (op == 'Ge' and k > iv)
            edges = bool_edges(ctx, b, pred)
            if edges and cut_by_edges(cfg, bi, edges):
                return 'constant index under a length test of the same container'
        return None
    return None


# ---------------------------------------------------------------- the audited table
# (function, kind, detail) -> (count, class, why / which rule carries the argument)
#   class: 'pre'   excluded by a stated precondition of C07
#          'auto'  must be discharged by auto_discharge on every run
#          'guard' verified by a checker below (name in the 4th slot)
#          'else'  the safety argument is a clause decided by another rule (named); listed here so that the census is complete
#          'range' value-range argument: listed, NOT decided
D = 'draw_target::DrawTarget::'
TABLE = {
    ('<blitter::ImagePadAlphaShader as blitter::Shader>::shade_span', 'index', 'dest'): (2, 'range', 'dest_x < count <= dest.len(): run structure (R13.3), tmp sized by the surface width'),
    ('<blitter::ImagePadAlphaShader as blitter::Shader>::shade_span', 'index', 'self.image.data'): (2, 'else', 'row clamped to [0,height-1], columns 0 / width-1 (R13.3); data matches size (precondition)'),
    ('<blitter::ImagePadAlphaShader as blitter::Shader>::shade_span', 'slice', 'dest[Range]'): (1, 'range', 'len = min(count, width - x)'),
    ('<blitter::ImagePadAlphaShader as blitter::Shader>::shade_span', 'slice', 'self.image.data[Range]'): (1, 'guard', 'the run inside the image is taken only when x < image.width (so width*y + x stays inside the clamped row; x >= 0 after the left-pad loop is a value-range argument, not decided)', 'pad_run'),
    ('<blitter::ImageRepeatAlphaShader as blitter::Shader>::shade_span', 'slice', 'dest[Range]'): (1, 'range', 'len = min(count, width - x)'),
    ('<blitter::ImageRepeatAlphaShader as blitter::Shader>::shade_span', 'slice', 'self.image.data[Range]'): (1, 'else', 'x, y reduced by rem_euclid of their own dimension (R13.3)'),
    ('<blitter::MaskBlitter as blitter::RasterBlitter>::blit_span', 'div', '4'): (1, 'auto', ''),
    ('<blitter::MaskBlitter as blitter::RasterBlitter>::blit_span', 'rem', 'SCALE'): (1, 'auto', ''),
    ('<blitter::MaskBlitter as blitter::RasterBlitter>::blit_span', 'index', 'self.buf'): (1, 'else', 'row/column forms, x2 clamp and width*height+1 allocation (R01.5)'),
    ('<blitter::MaskSuperBlitter as blitter::RasterBlitter>::blit_span', 'slice', 'self.buf[Range]'): (1, 'else', 'x2 clamp, +1 slice end paired with +1 allocation (R01.5)'),
    ('<blitter::MaskSuperBlitter as blitter::RasterBlitter>::blit_span', 'slice', 'call:index_mut[Range]'): (1, 'guard', 'b[1..len-1] only when len >= 2', 'super_inner'),
    ('<blitter::MaskSuperBlitter as blitter::RasterBlitter>::blit_span', 'index', 'call:index_mut'): (6, 'guard', 'b[0], b[len-1] only when len != 0', 'super_ends'),
    ('<blitter::ShaderBlendBlitter as blitter::Blitter>::blit_span', 'slice', 'self.dest[RangeFrom]'): (1, 'else', 'start inside dest: rect clipped to dest_bounds (R02.1), index form (R02.6)'),
    ('<blitter::ShaderBlendBlitter as blitter::Blitter>::blit_span', 'slice', 'self.tmp[RangeTo]'): (1, 'range', 'count <= tmp.len() = surface width; a layer wider than the surface is not excluded (DESIGN C07)'),
    # the sibling span blitters hold the same `tmp` (allocated with the surface width by the same code) and receive the same
    # spans: slicing it to the span length is the audited access of ShaderBlendBlitter made by a sibling
    ('<blitter::ShaderBlendMaskBlitter as blitter::Blitter>::blit_span', 'slice', 'self.tmp[RangeTo]'): (1, 'range', 'as ShaderBlendBlitter: count <= tmp.len() = surface width'),
    ('<blitter::ShaderClipBlendMaskBlitter as blitter::Blitter>::blit_span', 'slice', 'self.tmp[RangeTo]'): (1, 'range', 'as ShaderBlendBlitter: count <= tmp.len() = surface width'),
    ('<blitter::ShaderMaskBlitter as blitter::Blitter>::blit_span', 'slice', 'self.tmp[RangeTo]'): (1, 'range', 'as ShaderBlendBlitter: count <= tmp.len() = surface width'),
    ('<blitter::ShaderClipMaskBlitter as blitter::Blitter>::blit_span', 'slice', 'self.tmp[RangeTo]'): (1, 'range', 'as ShaderBlendBlitter: count <= tmp.len() = surface width'),
    ('<blitter::ShaderBlendMaskBlitter as blitter::Blitter>::blit_span', 'slice', 'self.dest[RangeFrom]'): (1, 'else', 'R02.1/R02.6'),
    ('<blitter::ShaderClipBlendMaskBlitter as blitter::Blitter>::blit_span', 'slice', 'self.dest[RangeFrom]'): (1, 'else', 'R02.1/R02.6'),
    ('<blitter::ShaderClipBlendMaskBlitter as blitter::Blitter>::blit_span', 'slice', 'self.clip[RangeFrom]'): (1, 'else', 'absolute clip index inside the full-surface mask (R02.6, R05.5)'),
    ('<blitter::ShaderClipMaskBlitter as blitter::Blitter>::blit_span', 'index', 'mask'): (1, 'else', 'mask.len() == x2-x1 (R02.3), i < x2-x1 (R02.4)'),
    ('<blitter::ShaderClipMaskBlitter as blitter::Blitter>::blit_span', 'index', 'self.clip'): (1, 'else', 'R02.6, R05.5'),
    ('<blitter::ShaderClipMaskBlitter as blitter::Blitter>::blit_span', 'index', 'self.dest'): (2, 'else', 'R02.1/R02.6'),
    ('<blitter::ShaderClipMaskBlitter as blitter::Blitter>::blit_span', 'index', 'self.tmp'): (1, 'range', 'i < count <= surface width'),
    ('<blitter::ShaderMaskBlitter as blitter::Blitter>::blit_span', 'index', 'mask'): (1, 'else', 'R02.3/R02.4'),
    ('<blitter::ShaderMaskBlitter as blitter::Blitter>::blit_span', 'index', 'self.dest'): (2, 'else', 'R02.1/R02.6'),
    ('<blitter::ShaderMaskBlitter as blitter::Blitter>::blit_span', 'index', 'self.tmp'): (1, 'range', 'i < count <= surface width'),
    ('blitter::choose_shader', 'panic', 'panic'): (1, 'guard', 'unreachable!(): every value stored into the storage is a non-None variant', 'storage_never_none'),
    (D + 'choose_blitter', 'panic', 'panic'): (1, 'guard', 'unreachable!(): every value stored into the storage is a non-None variant', 'storage_never_none'),
    ('dash::dash_path', 'index', 'dash_array'): (4, 'guard', 'dash_array[0] / dash_array[i % len] only after the `total > 0` guard (non-empty array)', 'dash_array_nonempty'),
    ('dash::dash_path', 'rem', 'len(&(*dash_array))'): (3, 'guard', '% dash_array.len() only after the `total > 0` guard', 'dash_array_nonempty'),
    ('dash::dash_path', 'rem', '2'): (1, 'auto', ''),
    ('dash::dash_path', 'index', 'initial_segment'): (12, 'auto', ''),
    ('dash::dash_path', 'panic', 'begin_panic'): (2, 'pre', '"Only flat paths handled": callers pass the output of Path::flatten, which emits no curves (R16.1, R04.5)'),
    ('stroke::stroke_to_path', 'panic', 'begin_panic'): (2, 'pre', '"Only flat paths handled": DrawTarget::stroke passes flattened input (R16.1, R04.5); as a free function it is outside C07\'s quantifier'),
    ('path_builder::Path::contains_point', 'panic', 'begin_panic'): (1, 'guard', 'the ops iterated are those of self.flatten(..) (R16.1)', 'contains_point_flat'),
    (D + 'add_quad', 'index', 'const'): (13, 'auto', ''),
    (D + 'quad_to', 'index', 'const'): (1, 'auto', ''),
    ('geom::flatten_double_quad_extrema', 'index', 'const'): (4, 'auto', ''),
    ('geom::interp_quad_x_coords', 'index', 'const'): (11, 'auto', ''),
    ('geom::interp_quad_y_coords', 'index', 'const'): (11, 'auto', ''),
    (D + 'composite', 'slice', 'mask.0[Range]'): (1, 'else', 'slice inside the mask: R02.1 (rect within mask_rect), R02.3 (affine start/length); callers size the mask by mask_rect (R06.3, R14.3)'),
    (D + 'composite_surface', 'slice', 'call:as_mut[Range]'): (1, 'else', 'clamp chain and placement (R15.1, R15.2)'),
    (D + 'composite_surface', 'slice', 'call:as_ref[Range]'): (1, 'else', 'clamp chain (R15.1)'),
    (D + 'copy_surface::{closure#0}', 'len-match', 'copy_from_slice'): (1, 'else', 'equal row length (R15.2)'),
    (D + 'from_backing', 'panic', 'assert_failed'): (1, 'pre', 'data matches size'),
    (D + 'pop_layer', 'unwrap', 'pop'): (1, 'pre', 'pops match pushes'),
    # (new_radial_gradient's `inverse().unwrap()` was audited as "radius positive => invertible"; that is wrong for f32:
    #  the determinant r*r underflows to 0 for r < ~3.7e-23.  The entry was removed so that the census reports it; see D26.)
    (D + 'push_clip', 'index', 'blitter.buf'): (2, 'else', 'i < width*height (R05.2) <= buffer length width*height+1 (R01.5, R05.5)'),
    (D + 'push_clip', 'index', 'call:last.0.mask.0'): (1, 'else', 'previous masks are full-surface too (R05.5)'),
    (D + 'push_clip', 'slice', 'blitter.buf[RangeTo]'): (1, 'else', 'the same bound written as a slice: ..width*height (R05.2) <= buffer length width*height+1 (R01.5, R05.5)'),
    (D + 'push_clip', 'slice', 'call:last.0.mask.0[RangeTo]'): (1, 'else', 'previous masks are full-surface too (R05.5); ..width*height (R05.2)'),
    ('geom::chop_quad_at', 'panic', 'panic'): (1, 'else', 'debug_assert!(0 < t < 1): called on the true edge of valid_unit_divide (R08.2)'),
    ('geom::interp', 'panic', 'panic'): (1, 'range', 'debug_assert!(0 <= t <= 1)'),
    ('geom::valid_unit_divide', 'panic', 'panic'): (1, 'guard', 'debug_assert!(0 <= r < 1): r = numer / denom is computed only after numer >= denom (equality included) returned false', 'unit_divide'),
    ('rasterizer::compute_curve_steps', 'panic', 'panic'): (1, 'range', 'assert!(shift >= 0)'),
    ('rasterizer::Rasterizer::reset', 'panic', 'assert_failed'): (6, 'range', 'debug_assert_eq!s on the early-out: the state is clean when bounds_bottom < bounds_top'),
    ('rasterizer::Rasterizer::reset', 'slice', 'self.edge_starts[Range]'): (1, 'else', 'start/end clamped to [0, height] (R10.2)'),
    ('rasterizer::Rasterizer::insert_starting_edges', 'index', 'self.edge_starts'): (1, 'else', 'cur_y runs over [max(top,0), min(bottom,height)) (R10.2 forms)'),
    ('rasterizer::Rasterizer::add_edge', 'index', 'self.edge_starts'): (2, 'guard', '0 <= cury < height and cury < y2: y1 >= height returns, negative rows are stepped up to 0 and re-tested against y2, height == 0 returns in apply_path', 'add_edge_row'),
    ('rasterizer::Rasterizer::add_edge', 'div', '(f32_to_dot2(end.y) Sub f32_to_dot2(start.y))'): (1, 'guard', 'y2 - y1 != 0: horizontal edges return first', 'add_edge_slope'),
    ('rasterizer::Rasterizer::add_edge', 'div', 'dot16_to_dot2(((*alloc(&(*self).edge_arena, new())).next_y S'): (1, 'range', 'curve slope divisor: catch-up loop leaves next_y below the current row only when count == 0, then next_y := y2 > cury'),
    ('rasterizer::div_fixed16_fixed16', 'div', '(b as i64)'): (1, 'range', 'step(): guarded by (cury + 1) < y2 at the call site'),
    ('rasterizer::Rasterizer::sort_edges', 'unwrap', 'self.active_edges'): (1, 'auto', ''),
}
for _sh in ('LinearGradientShader', 'RadialGradientShader', 'SolidShader', 'SweepGradientShader', 'TransformedImageAlphaShader', 'TransformedImageShader',
            'TransformedNearestImageAlphaShader', 'TransformedNearestImageShader', 'TwoCircleRadialGradientShader'):
    TABLE[('<blitter::%s as blitter::Shader>::shade_span' % _sh, 'index', 'dest')] = (1, 'range', 'i < count <= dest.len() (tmp is as wide as the surface)')


# ---------------------------------------------------------------- guard checkers
def g_super_ends(ctx, b, hs):
    """b[0] / b[len-1] in MaskSuperBlitter::blit_span only when len != 0"""
    an = ctx.an(b)
    edges = bool_edges(ctx, b, lambda op, A, B: B is not None and const_val(B) == 0 and op in ('!Eq', 'Ne', 'Gt') and is_call(strip_casts(A), '::len'))
    return all(cut_by_edges(an.cfg, h[2], edges) for h in hs) and bool(edges)


def g_super_inner(ctx, b, hs):
    """b[1..len-1] only when len is neither 0 nor 1"""
    an = ctx.an(b)
    e0 = bool_edges(ctx, b, lambda op, A, B: B is not None and const_val(B) == 0 and op in ('!Eq', 'Ne') and is_call(strip_casts(A), '::len'))
    e1 = bool_edges(ctx, b, lambda op, A, B: B is not None and const_val(B) == 1 and op in ('!Eq', 'Ne') and is_call(strip_casts(A), '::len'))
    return bool(e0) and bool(e1) and all(cut_by_edges(an.cfg, h[2], e0) and cut_by_edges(an.cfg, h[2], e1) for h in hs)


def g_storage_never_none(ctx, b, hs):
    """the unreachable!() arm of the final match: every value stored into *storage is a non-None variant"""
    an = ctx.an(b)
    ok = False
    for a, v, pt, kind in an.stores:
        if kind != 'assign' or a[0] != 'deref' or a[1][0] != 'param':
            continue
        if not b.local_ty(a[1][1]).startswith('&mut blitter::Shader'):
            continue
        vals = an.phi_terms(v) if v[0] in ('phi', 'rec') else [v]
        ok = bool(vals) and all(x[0] == 'agg' and (x[2] or '').endswith('Storage') and x[3] != 'None' for x in vals)
        if not ok:
            return False
    # and the panic sits in the None arm of a match on that storage
    for h in hs:
        vg = variant_guards(ctx, b, h[2])
        if not any(v == 'None' and (adt or '').endswith('Storage') for scr, adt, v, sb in vg):
            return False
    return ok


def g_dash_array_nonempty(ctx, b, hs):
    """every use of dash_array[..] / % dash_array.len() lies on the true side of `total > 0`"""
    an = ctx.an(b)
    edges = bool_edges(ctx, b, lambda op, A, B: op == 'Gt' and B is not None and const_val(B) == 0 and A[0] in ('phi', 'rec'))
    if not edges:
        return False
    for h in hs:
        if not cut_by_edges(an.cfg, h[2], edges):
            return False
        if h[0] == 'index':
            idx = strip_casts(h[3]['index'])
            if const_val(idx) == 0:
                continue
            if not (idx[0] == 'bin' and idx[1] == 'Rem' and len_of(idx[3]) is not None and same_base(b, len_of(idx[3]), h[3]['base'])):
                return False
    return True


def g_contains_point_flat(ctx, b, hs):
    an = ctx.an(b)
    from terms import Deps
    ms = matches(ctx, b, 'PathOp')
    if len(ms) != 1:
        return False
    Dp = Deps(an)
    Dp.closure(ms[0].scrut)
    return any(is_call(x, 'Path::flatten') for x in Dp.visited) and not any(x == ('param', 1) and False for x in Dp.visited)


def _is_y2(an):
    """recogniser for "the edge's last row": the field y2 of the edge being built, or the very value stored into it"""
    vals = set()
    for a, v, pt, kind in an.stores:
        t = strip_all(a)
        if kind == 'assign' and t[0] == 'field' and t[2] == 'y2':
            vals.add(nosite(strip_all(v)))
    def f(B):
        if B is None:
            return False
        B0 = strip_all(B)
        return (B0[0] == 'field' and B0[2] == 'y2') or nosite(B0) in vals
    return f


def g_add_edge_row(ctx, b, hs):
    """edge_starts[cury]: cury < height (y1 >= height returned), cury >= 0 (negative rows stepped), and apply_path returns when height == 0"""
    an = ctx.an(b)
    cfg = an.cfg
    lo = bool_edges(ctx, b, lambda op, A, B: op == '!Lt' and B is not None and const_val(B) == 0 and A[0] in ('phi', 'rec', 'call', 'field'))
    hi = bool_edges(ctx, b, lambda op, A, B: op in ('!Ge', 'Lt') and B is not None and is_self_field(B, 'height'))
    isy2 = _is_y2(an)
    hz = bool_edges(ctx, b, lambda op, A, B: op in ('!Ge', 'Lt') and isy2(B))
    ok = bool(lo) and bool(hi) and bool(hz)
    for h in hs:
        ok = ok and cut_by_edges(cfg, h[2], lo) and cut_by_edges(cfg, h[2], hi) and cut_by_edges(cfg, h[2], hz)
        idx = strip_casts(h[3]['index'])
        ok = ok and idx[0] in ('phi', 'rec', 'call', 'field')
    # the row is stepped (cury += 1) while it is negative: the horizontal-edge test must be repeated after the last step
    inloop = set()
    for hh, bl in cfg.loops().items():
        inloop |= bl
    for h in hs:
        idx = strip_casts(h[3]['index'])
        if idx[0] == 'phi':
            for d in an.defs_of.get(idx[1], []):
                if d.bb in inloop and d.bb != h[2]:
                    ok = ok and cut_from(cfg, d.bb, h[2], hz)
    ap = ctx.F.body('raqote::draw_target::DrawTarget::apply_path')
    if ap is None:
        return False
    e = bool_edges(ctx, ap, lambda op, A, B: op in ('!Eq', 'Ne', 'Gt') and B is not None and const_val(B) == 0 and is_self_field(A, 'height'))
    users = [bi for bi, d, ct in calls_in(ctx, ap) if d and d.startswith('raqote::draw_target::DrawTarget::') and d.split('::')[-1] in ('move_to', 'line_to', 'quad_to', 'cubic_to', 'close')]
    ok = ok and bool(e) and bool(users) and all(cut_by_edges(ctx.an(ap).cfg, u, e) for u in users)
    return ok


def g_add_edge_slope(ctx, b, hs):
    an = ctx.an(b)
    isy2 = _is_y2(an)
    e = bool_edges(ctx, b, lambda op, A, B: op in ('!Ge', 'Lt') and isy2(B))
    return bool(e) and all(cut_by_edges(an.cfg, h[2], e) for h in hs)


def g_unit_divide(ctx, b, hs):
    """the ratio asserted to lie in [0, 1) is n / d and the assertion is reached only when n < d was established
    strictly (`n >= d` returned false): with `n > d` the equal case — reachable through rounding — gives r == 1"""
    for h in hs:
        fs = shared.facts_at(ctx, b, h[2])
        divs = set()
        for op, a, b2, si in fs:
            for t in (a, b2):
                if t is None:
                    continue
                for x in subterms(t):
                    if x[0] == 'bin' and x[1] == 'Div':
                        divs.add((nosite(x[2]), nosite(x[3])))
        if len(divs) != 1:
            return False
        n, d = list(divs)[0]
        strict = any((op in ('!Ge', 'Lt') and nosite(a) == n and nosite(b2) == d) or (op in ('!Le', 'Gt') and nosite(a) == d and nosite(b2) == n) for op, a, b2, si in fs if b2 is not None)
        nonzero = any(op == '!Eq' and nosite(a) == d and const_val(b2) == 0 for op, a, b2, si in fs if b2 is not None)
        if not (strict and nonzero):
            return False
    return True


def g_pad_run(ctx, b, hs):
    """image.data[width*y + x ..] in the Pad shader is reached only on the true edge of `x < self.image.width`"""
    for h in hs:
        fs = shared.facts_at(ctx, b, h[2])
        ok = False
        for op, a, b2, si in fs:
            if b2 is None:
                continue
            if op == 'Lt' and strip_all(a)[0] in ('phi', 'param', 'rec') and strip_all(b2)[0] == 'field' and strip_all(b2)[2] == 'width':
                ok = True
        if not ok:
            return False
    return True


GUARDS = {'unit_divide': g_unit_divide, 'pad_run': g_pad_run, 'super_ends': g_super_ends, 'super_inner': g_super_inner, 'storage_never_none': g_storage_never_none,
          'dash_array_nonempty': g_dash_array_nonempty, 'contains_point_flat': g_contains_point_flat,
          'add_edge_row': g_add_edge_row, 'add_edge_slope': g_add_edge_slope}


def r07_1(ctx):
    R = 'R07.1'
    c, roots, reach = census(ctx)
    ctx.floor(R, 'public entry points', len(roots), 40)
    total = 0
    by_class = {}
    seen_keys = set()
    # A12: a division that belongs to an audited helper which this tree wrote out in place is audited where the helper
    # is (its restored body), not as a new hazard of the caller
    o = getattr(ctx.F, 'outliner', None)
    if o is not None and o.active:
        from geomalg import tsubst
        for q in list(c):
            b = ctx.F.bodies[q]
            an = ctx.an(b)
            calls = []
            for d in an.defs:
                if d.kind in ('assign', 'call') and not d.partial:
                    t = an.def_term(d)
                    if t[0] == 'call' and t[1] in o.active:
                        calls.append(t)
            if not calls:
                continue
            keep = []
            for h in c[q]:
                moved = False
                if h[0] in ('div', 'rem'):
                    for ct in calls:
                        hb = ctx.F.bodies.get(ct[1])
                        if hb is None:
                            continue
                        env = {i + 1: a for i, a in enumerate(ct[2])}
                        for hh in hazards_of(ctx, hb):
                            if hh[0] == h[0] and nosite(strip_casts(tsubst(hh[3]['divisor'], env))) == nosite(strip_casts(h[3]['divisor'])):
                                c.setdefault(ct[1], []).append(hh)
                                moved = True
                                break
                        if moved:
                            break
                if not moved:
                    keep.append(h)
            c[q] = keep
    for q, hs in sorted(c.items()):
        b = ctx.F.bodies[q]
        groups = {}
        for h in hs:
            groups.setdefault((h[0], h[1]), []).append(h)
        for (kind, detail), lst in sorted(groups.items()):
            total += len(lst)
            key = (short(q), kind, detail)
            seen_keys.add(key)
            ent = TABLE.get(key)
            fk = '%s|%s %s' % (short(q), kind, detail)
            if ent is None:
                # the description of an audited site changes when its variables are renamed or re-bound: a site of the same
                # function and kind that satisfies the *verified guard* of an audited entry is that entry
                alts = [v for k3, v in TABLE.items() if k3[0] == short(q) and k3[1] == kind and v[1] == 'guard' and k3 not in [(short(q), kind, d2) for (kk, d2) in groups if kk == kind]]
                hit = None
                for v in alts:
                    try:
                        if GUARDS[v[3]](ctx, b, lst) and len(lst) <= v[0]:
                            hit = v
                            break
                    except Exception:
                        pass
                if hit is not None:
                    by_class['guard'] = by_class.get('guard', 0) + len(lst)
                    ctx.ok(R, fk + '|guard (re-described site)', b.loc(), hit[2])
                    continue
                # unaudited: every instance must be discharged automatically
                und = [h for h in lst if auto_discharge(ctx, b, h) is None]
                ctx.check(not und, R, fk + '|unaudited', call_line(b, (und or lst)[0][2]), 'new %s discharged automatically' % kind,
                          '%d unaudited %s hazard(s) on `%s` in %s, reachable from the public API, with no guard the rule can verify (no dominating is_some/len/!=0 test, not a loop-bounded or constant index): a potential panic' % (len(und), kind, detail, short(q)))
                by_class['auto(new)'] = by_class.get('auto(new)', 0) + len(lst) - len(und)
                continue
            cnt, cls = ent[0], ent[1]
            by_class[cls] = by_class.get(cls, 0) + len(lst)
            if len(lst) > cnt and kind == 'index':
                # the same element of the same place indexed again (a read split from its write, a second branch that
                # stores to the same slot) is the audited access, not a new one
                seen_idx = {}
                for h in lst:
                    try:
                        k5 = (nosite(strip_all(h[3].get('base'))), poly(h[3].get('index')))
                    except Exception:
                        k5 = id(h)
                    seen_idx.setdefault(k5, h)
                if len(seen_idx) <= cnt:
                    lst = list(seen_idx.values())
            if len(lst) > cnt:
                extra = [h for h in lst if auto_discharge(ctx, b, h) is None]
                # more instances than audited: the surplus must be auto-dischargeable
                ctx.check(len(extra) <= cnt and cls != 'auto' or (cls == 'auto' and not extra), R, fk + '|count', b.loc(), '%d instances (audited %d), surplus discharged' % (len(lst), cnt),
                          '%s now has %d %s hazards on `%s`, %d were audited; the additional one(s) have no guard the rule can verify' % (short(q), len(lst), kind, detail, cnt))
            if cls == 'auto':
                und = [h for h in lst if auto_discharge(ctx, b, h) is None]
                ctx.check(not und, R, fk + '|auto', b.loc(), '%d discharged automatically' % len(lst), '%d %s hazard(s) on `%s` in %s lost the guard that discharged them (%s)' % (len(und), kind, detail, short(q), ent[2] or 'constant / length-tested / loop-bounded index, non-zero divisor, is_none test'))
            elif cls == 'guard':
                g = GUARDS[ent[3]]
                okg = False
                # surplus sites that discharge by themselves are not the audited one(s)
                lst_g = [h for h in lst if auto_discharge(ctx, b, h) is None] if len(lst) > cnt else lst
                try:
                    okg = g(ctx, b, lst_g or lst)
                except Exception as e:      # fail closed
                    okg = False
                ctx.check(okg, R, fk + '|guard', b.loc(), ent[2], 'the guard of the %s hazard on `%s` in %s no longer holds on every path: %s' % (kind, detail, short(q), ent[2]))
            else:
                ctx.ok(R, fk + '|' + cls, b.loc(), '%s: %s' % ({'pre': 'excluded by precondition', 'else': 'argument carried by', 'range': 'value-range argument, NOT decided'}[cls], ent[2]))
    ctx.note('hazard census: %d sites in %d functions (%d reachable bodies); by class %s' % (total, len(c), len(reach), by_class))
    ctx.floor(R, 'hazard sites', total, 100)
    missing = [k for k in TABLE if k not in seen_keys]
    # an audited hazard that disappeared is fine (code got safer); only report in notes
    if missing:
        ctx.note('audited entries no longer present: %s' % missing[:10])
