"""Shared helpers for the rules: match-arm recovery (A5), guards (A2), term patterns,
polynomial normal forms (A4), call-graph (A1)."""
from fractions import Fraction

from facts import callee_of, short
from terms import mem_path, subterms, fmt

OPTION_VARIANTS = {'0': 'None', '1': 'Some'}
RESULT_VARIANTS = {'0': 'Ok', '1': 'Err'}


# ------------------------------------------------------------------ terms
def strip_ref(t):
    while t[0] in ('ref',) or (t[0] == 'deref' and t[1][0] == 'ref'):
        t = t[1] if t[0] == 'ref' else t[1][1]
    return t


def strip_casts(t, kinds=('IntToInt', 'FloatToFloat')):
    while t[0] == 'cast' and t[1] in kinds:
        t = t[3]
    return t


def strip_all(t):
    """strip refs, re-borrows and value-preserving casts/copies"""
    while True:
        if t[0] == 'ref':
            t = t[1][1] if t[1][0] == 'deref' else t[1]
        elif t[0] == 'deref' and t[1][0] == 'ref':
            t = t[1][1]
        elif t[0] == 'cast' and (t[1] in ('IntToInt', 'FloatToFloat', 'PtrToPtr') or t[1].startswith('PointerCoercion')):
            t = t[3]
        else:
            return t


def is_call(t, *names):
    """t is a call whose callee item name ends with one of names"""
    if t[0] != 'call' or not isinstance(t[1], str):
        return False
    return any(t[1] == n or t[1].endswith('::' + n) or t[1].endswith(n) for n in names)


def callee_last(t):
    if t[0] == 'call' and isinstance(t[1], str):
        return t[1].split('::')[-1]
    return None


def const_val(t):
    """numeric value of a constant term (int or float) or None"""
    t = strip_casts(t, ('IntToInt', 'FloatToFloat', 'IntToFloat'))
    if t[0] == 'un' and t[1] == 'Neg':
        v = const_val(t[2])         # the negation of a (named) constant is a constant
        return None if v is None else -v
    if t[0] in ('const',) and t[2] is not None:
        v = t[2]
    elif t[0] == 'cnamed' and t[3] is not None:
        v = t[3]
    else:
        return None
    try:
        return int(v)
    except (ValueError, TypeError):
        try:
            return float(v)
        except (ValueError, TypeError):
            return None


def contains(t, pred):
    return any(pred(x) for x in subterms(t))


def find_all(t, pred):
    return [x for x in subterms(t) if pred(x)]


def field_path(t):
    """for a load/projection chain return list of field names from the root outward, and root"""
    names = []
    x = t
    while True:
        if x[0] == 'field':
            names.append(x[2])
            x = x[1]
        elif x[0] in ('deref', 'ref', 'index', 'cidx', 'subslice'):
            x = x[1]
        elif x[0] == 'cast':
            x = x[3]
        else:
            break
    return x, names[::-1]


def is_self_field(t, *names):
    """t is (a projection of) (*self).<names...>  where self is parameter 1"""
    root, fl = field_path(t)
    return root == ('param', 1) and tuple(fl[:len(names)]) == tuple(names)


def reads_field(t, adt_suffix, name):
    """some subterm is a field projection .name of an ADT whose name ends with adt_suffix"""
    for x in subterms(t):
        if x[0] == 'field' and x[2] == name and (x[3] or '').endswith(adt_suffix):
            return True
    return False


# ------------------------------------------------------------ match arms
class Match:
    """one `match`/`if let` on an enum discriminant"""

    def __init__(self, bb, scrut, adt, arms, otherwise):
        self.bb = bb
        self.scrut = scrut      # term of the place whose discriminant is read
        self.adt = adt
        self.arms = arms        # variant name -> target block
        self.otherwise = otherwise


def variant_names(F, adt):
    a = F.adt(adt) if adt else None
    if a is not None:
        return {v['discr']: v['name'] for v in a['variants']}
    if adt and adt.endswith('Option'):
        return OPTION_VARIANTS
    if adt and adt.endswith('Result'):
        return RESULT_VARIANTS
    return {}


def matches(ctx, body, adt_suffix=None):
    """all discriminant switches of the body (optionally only on ADTs named *adt_suffix)"""
    an = ctx.an(body)
    out = []
    for bi, t in body.terminators('switch'):
        if bi not in an.cfg.reach:
            continue
        blk = body.blocks[bi]
        ot = an.term_at(bi, len(blk['st']), t['o'])
        if ot[0] != 'discr':
            continue
        adt = ot[2]
        if adt_suffix and not (adt or '').endswith(adt_suffix):
            continue
        names = variant_names(ctx.F, adt)
        arms = {}
        for v, tgt in t['targets']:
            arms[names.get(v, v)] = tgt
        other = t['otherwise']
        oblk = body.blocks[other]
        if oblk['t']['k'] == 'unreachable' and not oblk['st']:
            other_live = None
        else:
            other_live = other
        # a two-variant enum switched as [v -> a] else b: name the otherwise arm
        if other_live is not None and names:
            missing = [n for n in names.values() if n not in arms]
            if len(missing) == 1:
                arms[missing[0]] = other_live
                other_live = None
        out.append(Match(bi, ot[1], adt, arms, other_live))
    return out


def arm_region(cfg, switch_bb, target):
    """blocks executed only inside this arm: reachable from target without passing
    the immediate post-dominator of the switch"""
    stop = cfg.ipdom(switch_bb)
    removed = set([stop]) if stop is not None else set()
    return cfg.reachable_from(target, removed)


def calls_in(ctx, body, blocks=None):
    """[(bb, callee def or None, call term)] for the given blocks (default: all reachable)"""
    an = ctx.an(body)
    out = []
    for bi, t, c in body.calls():
        if bi not in an.cfg.reach:
            continue
        if blocks is not None and bi not in blocks:
            continue
        out.append((bi, c['def'] if c else None, an.call_term(bi)))
    return out


def call_line(body, bb):
    sp = body.blocks[bb]['t']['sp']
    if sp['f'].startswith('/') or sp.get('exp'):
        # span inside a std macro (vec!, assert!): report the enclosing function instead
        return body.loc()
    return body.loc(sp)


# ----------------------------------------------------------------- guards
def bool_guards(ctx, body, bb):
    """[(cond term, truth, switch bb)] for boolean switches one of whose edges dominates bb"""
    an = ctx.an(body)
    cfg = an.cfg
    out = []
    for si, t in body.terminators('switch'):
        if si not in cfg.reach or si == bb:
            continue
        if not cfg.dominates(si, bb):
            continue
        if t.get('ty') != 'bool':
            continue
        blk = body.blocks[si]
        cond = an.term_at(si, len(blk['st']), t['o'])
        false_t = None
        for v, tgt in t['targets']:
            if v == '0':
                false_t = tgt
        true_t = t['otherwise']
        if false_t is None or false_t == true_t:
            continue
        if cfg.edge_dominates(si, true_t, bb):
            out.append((cond, True, si))
        elif cfg.edge_dominates(si, false_t, bb):
            out.append((cond, False, si))
    return out


def variant_guards(ctx, body, bb):
    """[(scrutinee term, adt, variant name, switch bb)] for enum switches whose arm edge dominates bb"""
    cfg = ctx.an(body).cfg
    out = []
    for m in matches(ctx, body):
        if m.bb == bb or not cfg.dominates(m.bb, bb):
            continue
        for v, tgt in m.arms.items():
            others = [t2 for v2, t2 in m.arms.items() if v2 != v]
            if tgt in others or tgt == m.otherwise:
                continue
            if cfg.edge_dominates(m.bb, tgt, bb):
                out.append((m.scrut, m.adt, v, m.bb))
    return out


CMP_NEG = {'Lt': 'Ge', 'Le': 'Gt', 'Gt': 'Le', 'Ge': 'Lt', 'Eq': 'Ne', 'Ne': 'Eq'}
CMP_SWAP = {'Lt': 'Gt', 'Le': 'Ge', 'Gt': 'Lt', 'Ge': 'Le', 'Eq': 'Eq', 'Ne': 'Ne'}


def normalized_guards(ctx, body, bb):
    """comparison facts that hold on entry to bb: list of (op, A, B, nan_rejecting)
    from dominating boolean guards of the form `A op B` / `!(A op B)`.
    For floats, the *negated* form of an ordered comparison is kept as ('!Lt', A, B) because
    !(a < b) is not a >= b under NaN."""
    out = []
    for cond, truth, si in bool_guards(ctx, body, bb):
        c = cond
        neg = not truth
        while c[0] == 'un' and c[1] == 'Not':
            c = c[2]
            neg = not neg
        if c[0] == 'bin' and c[1] in CMP_NEG:
            facts = [(('!' if neg else '') + c[1], c[2], c[3])]
            # equivalent spellings of the same fact, so that a rule looking for `x != 0` also finds `!(0 == x)`:
            # the mirrored comparison (exact for floats too), and for ==/!= the dual under negation (also exact with NaN)
            if c[1] in ('Eq', 'Ne') and neg:
                facts.append((CMP_NEG[c[1]], c[2], c[3]))
            elif c[1] in ('Eq', 'Ne'):
                facts.append(('!' + CMP_NEG[c[1]], c[2], c[3]))
            for op, a, b2 in list(facts):
                base = op.lstrip('!')
                facts.append((('!' if op.startswith('!') else '') + CMP_SWAP[base], b2, a))
            seen = set()
            for op, a, b2 in facts:
                if (op, a, b2) not in seen:
                    seen.add((op, a, b2))
                    out.append((op, a, b2, si))
        else:
            out.append((('!' if neg else '') + 'true', c, None, si))
            # x.is_none() <=> !x.is_some()
            if c[0] == 'call' and isinstance(c[1], str) and c[1].split('::')[-1] in ('is_none', 'is_some') and 'Option' in c[1]:
                other = c[1][:-len('is_none')] + ('is_some' if c[1].endswith('is_none') else 'is_none')
                out.append((('' if neg else '!') + 'true', ('call', other, c[2], c[3]), None, si))
    return out


# ------------------------------------------------------------ polynomials
class Poly:
    """polynomial over opaque leaf terms with rational coefficients: {monomial(tuple of leaves sorted by repr): coeff}"""

    def __init__(self, d=None):
        self.d = {k: v for k, v in (d or {}).items() if v != 0}

    @staticmethod
    def const(c):
        return Poly({(): Fraction(c)})

    @staticmethod
    def leaf(t):
        return Poly({(t,): Fraction(1)})

    def __add__(self, o):
        d = dict(self.d)
        for k, v in o.d.items():
            d[k] = d.get(k, 0) + v
        return Poly(d)

    def __neg__(self):
        return Poly({k: -v for k, v in self.d.items()})

    def __sub__(self, o):
        return self + (-o)

    def __mul__(self, o):
        d = {}
        for k1, v1 in self.d.items():
            for k2, v2 in o.d.items():
                k = tuple(sorted(k1 + k2, key=repr))
                d[k] = d.get(k, 0) + v1 * v2
        return Poly(d)

    def __eq__(self, o):
        return isinstance(o, Poly) and self.d == o.d

    def __hash__(self):
        return hash(frozenset(self.d.items()))

    def is_const(self):
        return all(k == () for k in self.d)

    def const_value(self):
        return self.d.get((), Fraction(0)) if self.is_const() else None

    def leaves(self):
        s = set()
        for k in self.d:
            s.update(k)
        return s

    def coeff_of(self, leaf):
        return self.d.get((leaf,), Fraction(0))

    def show(self, body):
        if not self.d:
            return '0'
        parts = []
        for k, v in sorted(self.d.items(), key=lambda kv: repr(kv[0])):
            m = '*'.join(fmt(body, x) for x in k)
            if not k:
                parts.append(str(v))
            elif v == 1:
                parts.append(m)
            elif v == -1:
                parts.append('-' + m)
            else:
                parts.append('%s*%s' % (v, m))
        return ' + '.join(parts)


def nosite(t):
    """the same term with call sites erased: two calls of one function on equal arguments compare equal
    (used where the callee is a pure accessor: size(), min(), to_vector(), ...)"""
    if not isinstance(t, tuple):
        return t
    if t and t[0] == 'call':
        callee = t[1] if isinstance(t[1], str) else ('ind', nosite(t[1][1]))
        return ('call', callee, tuple(nosite(a) for a in t[2]), 0)
    return tuple(nosite(x) for x in t)


def poly(t, named_consts=True, opaque=None):
    return _poly(nosite(t), named_consts, opaque)


def _poly(t, named_consts=True, opaque=None):
    """normal form of an integer/float expression term.  Value-preserving casts are dropped
    (IntToInt between i32/usize etc. — the caller states that wrap-around is out of scope).
    Non-polynomial operators become opaque leaves with normalised children."""
    t0 = t
    h = t[0]
    if h == 'cast' and t[1] in ('IntToInt', 'FloatToFloat', 'IntToFloat'):
        return _poly(t[3], named_consts, opaque)
    if h in ('const', 'cnamed'):
        v = const_val(t)
        if v is not None and (named_consts or h == 'const'):
            if isinstance(v, float):
                if v == int(v):
                    return Poly.const(int(v))
                return Poly.const(Fraction(v).limit_denominator(1 << 20))
            return Poly.const(v)
        return Poly.leaf(t)
    if h == 'bin':
        op = t[1]
        if op in ('Add', 'Sub', 'Mul'):
            a = _poly(t[2], named_consts, opaque)
            b = _poly(t[3], named_consts, opaque)
            return a + b if op == 'Add' else (a - b if op == 'Sub' else a * b)
        if op == 'Shl':
            b = _poly(t[3], named_consts, opaque).const_value()
            if b is not None and b.denominator == 1 and 0 <= b < 63:
                return _poly(t[2], named_consts, opaque) * Poly.const(1 << int(b))
        a = _poly(t[2], named_consts, opaque)
        b = _poly(t[3], named_consts, opaque)
        ca, cb = a.const_value(), b.const_value()
        if ca is not None and cb is not None and ca.denominator == 1 and cb.denominator == 1:
            ia, ib = int(ca), int(cb)
            if op == 'Shr' and 0 <= ib < 63:
                return Poly.const(ia >> ib)
            if op == 'Div' and ib != 0:
                return Poly.const(int(ia / ib))
            if op == 'BitAnd':
                return Poly.const(ia & ib)
            if op == 'BitOr':
                return Poly.const(ia | ib)
        return Poly.leaf(('bin', op, ('poly', a), ('poly', b)))
    if h == 'un' and t[1] == 'Neg':
        return -_poly(t[2], named_consts, opaque)
    if h == 'field' and t[2] in ('x', 'y'):
        # a component of a point/vector that was just built from its components (euclid constructors)
        base = strip_all(t[1])
        if base[0] == 'call' and isinstance(base[1], str) and len(base[2]) == 2 and (base[1].split('::')[-1] in ('vec2', 'point2') or base[1].endswith('Vector2D::<T, U>::new') or base[1].endswith('Point2D::<T, U>::new')):
            return _poly(base[2][0 if t[2] == 'x' else 1], named_consts, opaque)
    if h == 'call':
        # min/max/etc stay opaque but with normalised arguments
        return Poly.leaf(('call', t[1], tuple(('poly', _poly(a, named_consts, opaque)) if a[0] in ('bin', 'cast', 'un', 'const', 'cnamed') else a for a in t[2])))
    return Poly.leaf(t0)


# -------------------------------------------------------------- call graph
class CallGraph:
    """A1: direct calls + trait-method calls expanded to every local impl + fn-pointer calls
    expanded to every local fn whose address is taken (ReifyFnPointer / fn item used as a value)."""

    def __init__(self, F):
        self.F = F
        self.edges = {}
        self.sites = {}      # (caller, callee) -> [bb]
        self.reified = set()
        impl_methods = {}    # (trait item name, method) -> [local impl method qnames]
        for im in F.impls:
            tr = im.get('trait')
            if not tr:
                continue
            for it in im['items']:
                impl_methods.setdefault((tr, it['name']), []).append(it['q'])
        self.impl_methods = impl_methods
        for q, b in F.bodies.items():
            for bi, k, s in b.statements():
                if s['k'] == 'assign':
                    self._scan_fn_values(s['rv'])
        for q, b in F.bodies.items():
            outs = self.edges.setdefault(q, set())
            for bi, t, c in b.calls():
                tgts = self.targets(c, t)
                for tg in tgts:
                    outs.add(tg)
                    self.sites.setdefault((q, tg), []).append(bi)
            # closures constructed here are (conservatively) called from here
            for bi, k, s in b.statements():
                if s['k'] == 'assign' and s['rv']['k'] == 'agg' and s['rv'].get('ak') == 'closure':
                    outs.add(s['rv']['def'])
                    self.sites.setdefault((q, s['rv']['def']), []).append(bi)

    def _scan_fn_values(self, rv):
        def ops(rv):
            k = rv['k']
            if k in ('use', 'cast', 'unop', 'repeat'):
                yield rv['o']
            elif k == 'binop':
                yield rv['a']
                yield rv['b']
            elif k == 'agg':
                yield from rv['ops']
        for o in ops(rv):
            if o['k'] == 'const' and 'fn' in o:
                self.reified.add(o['fn']['def'])

    def targets(self, c, t):
        if c is None:
            # indirect call: any reified local fn
            return [q for q in self.reified if q in self.F.bodies] + [self._generic_reified(q) for q in self.reified if q not in self.F.bodies and self._generic_reified(q)]
        d = c['def']
        res = c.get('res')
        out = []
        if res and res in self.F.bodies:
            out.append(res)
        elif d in self.F.bodies:
            out.append(d)
        elif c.get('trait'):
            name = c['name']
            out.extend(self.impl_methods.get((c['trait'], name), []))
        # fn items passed as arguments are potential callees of the callee: treat as called here
        for a in t['args']:
            if a['k'] == 'const' and 'fn' in a and a['fn']['def'] in self.F.bodies:
                out.append(a['fn']['def'])
        return out

    def _generic_reified(self, q):
        return None

    def reachable(self, roots):
        seen = set()
        st = [r for r in roots]
        while st:
            x = st.pop()
            if x in seen:
                continue
            seen.add(x)
            st.extend(self.edges.get(x, ()))
        return seen

    def callers(self, q):
        return sorted(a for a, outs in self.edges.items() if q in outs)


def trewrite(t, f):
    """top-down rewrite of a term: f(t) -> replacement or None (then recurse into the children)"""
    if not isinstance(t, tuple) or not t:
        return t
    r = f(t)
    if r is not None:
        return r
    return tuple(trewrite(x, f) for x in t)
