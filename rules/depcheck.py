"""Rules that read the dependency sw-composite (in the version the analysed tree resolves to) for C07.

R07.8 belief contradiction (Engler et al.): inside one function (private helpers inlined) a signed value is converted to
an unsigned type and fed to checked arithmetic -- a belief that it is never negative -- while the same function tests a
value made of the same inputs for `< 0` -- a belief that it can be.  One of the two is wrong; when the conversion is not
itself under a non-negativity guard, a negative value becomes a huge unsigned one and the next checked addition panics
(debug builds / overflow checks on), which C07 excludes for every blend mode raqote dispatches to."""
import json

from util import *
from terms import fmt, subterms
import shared


def _leaves(t):
    """the values an arithmetic expression is made of: its maximal sub-terms that are not +, -, *, min or max themselves
    (variables, channel extractions, results of other calls), constants excluded"""
    out = set()

    def walk(x):
        x = strip_casts(x, ('IntToInt',))
        if x[0] == 'bin' and x[1] in ('Add', 'Sub', 'Mul'):
            walk(x[2])
            walk(x[3])
        elif x[0] == 'call' and isinstance(x[1], str) and x[1].split('::')[-1] in ('min', 'max') and len(x[2]) == 2:
            walk(x[2][0])
            walk(x[2][1])
        elif x[0] == 'un' and x[1] == 'Neg':
            walk(x[2])
        elif const_val(x) is None:
            out.add(nosite(x))
    walk(t)
    return out


def r07_4(ctx):
    R = 'R07.8'
    d = ctx.dep('sw-composite', R)
    import inline
    import copy
    # work on a copy of the dependency's facts with its private helpers inlined (lum, minimum, maximum, mul_div, ..)
    cache = ctx.__dict__.setdefault('_dep_inlined', {})
    if 'sw' not in cache:
        from facts import Facts
        import os
        import extract
        # cached next to the dependency's fact file, keyed by the same content hash
        pth = os.path.join(extract.CACHE, 'depfacts-inlined-sw_composite-%s.json' % d.dep_info['hash'])
        if not (os.path.exists(pth) and os.path.getsize(pth) > 1000):
            raw = copy.deepcopy(d.F.raw)
            inline.inline_new_helpers(raw, {})
            with open(pth + '.tmp', 'w') as f:
                json.dump(raw, f)
            os.replace(pth + '.tmp', pth)
        F2 = Facts(pth, normalise=False)
        import engine
        sub = engine.Ctx(ctx.prop, ctx.tier, F2, ctx.config)
        for attr in ('findings', 'obligations', 'samples', 'notes', 'functions', 'rules_run'):
            setattr(sub, attr, getattr(ctx, attr))
        cache['sw'] = sub
    dc = cache['sw']
    n_bodies = n_casts = 0
    found = []
    for q, b in sorted(dc.F.bodies.items()):
        if '::{closure' in q:
            continue
        an = dc.an(b)
        n_bodies += 1
        # signed -> unsigned conversions feeding a checked addition/multiplication
        casts = []
        for dd in an.defs:
            if dd.kind != 'assign' or dd.partial or dd.bb not in an.cfg.reach:
                continue
            rv = dd.node['rv']
            if rv.get('k') == 'cast' and rv.get('ck') == 'IntToInt' and rv.get('ty') in ('u32', 'u64', 'usize') and rv.get('from_ty') in ('i32', 'i64', 'isize'):
                casts.append((dd, an.def_term(dd)))
        if not casts:
            continue
        # `< 0` tests anywhere in the body
        negs = []
        for si, t in b.terminators('switch'):
            if si not in an.cfg.reach or t.get('ty') != 'bool':
                continue
            c = an.term_at(si, len(b.blocks[si]['st']), t['o'])
            while c[0] == 'un' and c[1] == 'Not':
                c = c[2]
            if c[0] == 'bin' and c[1] in ('Lt', 'Le', 'Ge', 'Gt') and const_val(c[3]) == 0:
                negs.append((si, c[2]))
        arith_sub = None
        for dd, ct in casts:
            n_casts += 1
            inner = ct[3]
            lv = _leaves(inner)
            if not lv:
                continue
            # the converted value is used in checked arithmetic
            if arith_sub is None:
                arith_sub = set()
                for d2 in an.defs:
                    if d2.kind == 'assign' and not d2.partial:
                        x = an.def_term(d2)
                        if x[0] in ('bin', 'ovf') and x[1] in ('Add', 'Mul', 'AddWithOverflow', 'MulWithOverflow'):
                            for y in subterms(x):
                                if y is not x and y[0] == 'cast':
                                    arith_sub.add(nosite(y))
            if nosite(ct) not in arith_sub:
                continue
            # is the conversion itself under a guard that makes the value non-negative?
            gs = normalized_guards(dc, b, dd.bb)
            guarded = any(op in ('Gt', 'Ge', '!Lt', '!Le') and const_val(b2) is not None and float(const_val(b2)) >= 0 and _leaves(a) & lv for op, a, b2, si in gs if b2 is not None)
            if guarded:
                continue
            for si, nt in negs:
                nl = _leaves(nt)
                if nl and nl <= lv and not an.cfg.dominates(si, dd.bb):
                    found.append((q, b, dd, ct, nt))
                    break
    ctx.check(n_bodies >= 60 and n_casts >= 10, R, 'sw_composite|census (positive control)', '-', '%d bodies, %d signed-to-unsigned conversions read' % (n_bodies, n_casts),
              'the dependency census found only %d bodies / %d conversions: the rule would pass vacuously (fail closed)' % (n_bodies, n_casts))
    seen = set()
    for q, b, dd, ct, nt in found:
        k = short(q).replace('sw_composite::', '')
        if k in seen:
            continue
        seen.add(k)
        ctx.fail(R, 'sw_composite::%s|negative value converted to unsigned' % k, b.loc(),
                 'sw-composite `%s`: `%s` is converted to unsigned and fed to checked arithmetic before/without the `< 0` test that the same function applies to `%s`: for inputs where the signed value is negative the conversion yields a value near 2^32 and the following checked addition panics ("attempt to add with overflow" in debug builds); raqote dispatches every non-separable blend mode (Hue, Saturation, Color, Luminosity) to this code'
                 % (k, fmt(b, ct[3])[:120], fmt(b, nt)[:80]))
    if not found:
        ctx.ok(R, 'sw_composite|no contradictory sign beliefs', '-', 'no signed value is converted to unsigned while being tested for negativity')
