"""Pair typestate (A9): abstract interpretation of a few Option-valued locals over {None, Some}.

The path consumers (Path::flatten, dash_path, stroke_to_path) keep a cursor and a record of the subpath start in
Option-typed locals and assume `cursor.is_some() => start.is_some()` between ops.  The interpreter executes the CFG of
one body over the abstract states of the tracked locals, refining on `match`/`if let` discriminant tests and on
is_some()/is_none() calls, and reports the set of states that reach every block.  Values it cannot classify fork into
both variants (sound over-approximation)."""
from util import *


def _place_of(an, x, places):
    x = strip_all(x)
    for i, pl in enumerate(places):
        if isinstance(pl, str) and is_self_field(x, pl):
            return i
    if x[0] in ('phi', 'mem'):
        return places.index(x[1]) if x[1] in places else None
    if x[0] == 'rec':
        l = an.defs[x[1]].local
        return places.index(l) if l in places else None
    if x[0] == 'field' and strip_all(x[1])[0] == 'agg' and strip_all(x[1])[1] == 'tuple':
        comps = dict(strip_all(x[1])[4])
        if x[2] in comps:
            return _place_of(an, comps[x[2]], places)
    return None


def _classify(an, t, places):
    t = strip_all(t)
    if t[0] == 'agg' and (t[2] or '').endswith('option::Option'):
        return 'S' if t[3] == 'Some' else 'N'
    p = _place_of(an, t, places)
    if p is not None:
        return ('copy', p)
    if t[0] == 'call' and isinstance(t[1], str) and t[1].split('::')[-1] in ('map', 'copied', 'cloned', 'clone') and t[2]:
        p = _place_of(an, t[2][0], places)
        if p is not None:
            return ('copy', p)
    if t[0] == 'call' and isinstance(t[1], str) and t[1].endswith('Option::<T>::or') and len(t[2]) == 2:
        a, b2 = _classify(an, t[2][0], places), _classify(an, t[2][1], places)
        return ('or', a, b2)
    return '?'


def run(ctx, b, places, entry=None, want_exits=False, start=0, stop=None):
    """{block: set(states at block entry)}; a state is a tuple over `places` of 'S'/'N'.
    places: local indices, or field names of `self` (first parameter).  entry: set of states at function entry
    (default: every combination).  With want_exits the states at the normal returns are returned as well.
    start/stop: execute only from block `start` (with the entry states) up to, not including, block `stop`
    (the states arriving at `stop` are recorded in the result): the transfer function of one match arm."""
    an = ctx.an(b)
    cfg = an.cfg
    # Option-typed temporaries through which a tracked place is assigned (`let next = match .. {..}; cur = next;`) are
    # tracked as well, so that the value chosen on each path is known; results are projected back to `places`
    n_orig = len(places)
    places = list(places)
    grew = True
    while grew and len(places) < n_orig + 6:
        grew = False
        for l in list(places):
            if isinstance(l, str):
                continue
            for d in an.defs_of.get(l, []):
                if d.kind not in ('assign', 'local') or d.partial or d.bb < 0:
                    continue
                t = strip_all(an.def_term(d))
                src = None
                if t[0] in ('phi', 'mem'):
                    src = t[1]
                elif t[0] == 'rec':
                    src = an.defs[t[1]].local
                if src is not None and src not in places and b.local_ty(src).startswith('std::option::Option'):
                    places.append(src)
                    grew = True
        # ... and Option-typed copies *of* a tracked place (e.g. the by-value parameter of an inlined helper, tested there)
        for d in an.defs:
            if d.kind not in ('assign', 'local') or d.partial or d.bb < 0 or d.local in places or len(places) >= n_orig + 6:
                continue
            if not b.local_ty(d.local).startswith('std::option::Option'):
                continue
            t = strip_all(an.def_term(d))
            src = t[1] if t[0] in ('phi', 'mem') else (an.defs[t[1]].local if t[0] == 'rec' else None)
            if src is not None and src in places:
                places.append(d.local)
                grew = True
    if entry is not None and len(places) > n_orig:
        entry = set(tuple(e) + tuple(x) for e in entry for x in _product(len(places) - n_orig))
    events = {}
    for li, l in enumerate(places):
        if isinstance(l, str):
            for a, v, pt, kind in an.stores:
                if kind == 'assign' and is_self_field(strip_all(a), l):
                    events.setdefault(pt, []).append((li, _classify(an, v, places)))
            continue
        for d in an.defs_of.get(l, []):
            if d.kind == 'param' or d.bb < 0:
                continue
            if d.partial:
                continue        # writing inside the payload does not change the variant
            t = an.call_term(d.bb) if d.kind == 'call' else an.def_term(d)
            events.setdefault((d.bb, d.idx), []).append((li, _classify(an, t, places)))
        # whole-value stores through a reference to the local (`*r = Some(..)` with r = &mut local, e.g. in an inlined helper)
        for a, v, pt, kind in an.stores:
            if kind != 'assign' or a[0] not in ('deref', 'mem'):
                continue
            tgt = a
            while tgt[0] in ('deref', 'ref'):
                tgt = tgt[1]
            if tgt == ('mem', l) and not any(pt == (d.bb, d.idx) for d in an.defs_of.get(l, [])):
                events.setdefault(pt, []).append((li, _classify(an, v, places)))
    F = ctx.F

    def exec_block(bb, st):
        sts = [list(st)]
        n = len(b.blocks[bb]['st'])
        for k in range(n + 1):
            for li, val in events.get((bb, k), []):
                nxt = []
                for s in sts:
                    if val in ('S', 'N'):
                        s2 = list(s); s2[li] = val; nxt.append(s2)
                    elif isinstance(val, tuple) and val[0] == 'copy':
                        s2 = list(s); s2[li] = s[val[1]]; nxt.append(s2)
                    elif isinstance(val, tuple) and val[0] == 'or':
                        def ev(v):
                            if v in ('S', 'N'):
                                return [v]
                            if isinstance(v, tuple) and v[0] == 'copy':
                                return [s[v[1]]]
                            return ['S', 'N']
                        for x in ev(val[1]):
                            for y in ev(val[2]):
                                s2 = list(s); s2[li] = 'S' if 'S' in (x, y) else 'N'; nxt.append(s2)
                    else:
                        for v in ('S', 'N'):
                            s2 = list(s); s2[li] = v; nxt.append(s2)
                sts = nxt
        return [tuple(s) for s in sts]

    def successors(bb, st):
        t = b.blocks[bb]['t']
        succ = cfg.succ[bb]
        if t['k'] != 'switch':
            return [(y, st) for y in succ]
        c = an.term_at(bb, len(b.blocks[bb]['st']), t['o'])
        if c[0] == 'discr' and (c[2] or '').endswith('option::Option'):
            p = _place_of(an, c[1], places)
            if p is not None:
                names = variant_names(F, c[2])
                out = []
                named = set()
                for v, tgt in t['targets']:
                    nm = names.get(v, v)
                    named.add(nm)
                    if tgt in succ and ((nm == 'Some') == (st[p] == 'S')):
                        out.append((tgt, st))
                rest = [nm for nm in ('Some', 'None') if nm not in named]
                if t['otherwise'] in succ and any((nm == 'Some') == (st[p] == 'S') for nm in rest):
                    out.append((t['otherwise'], st))
                return out
        if t.get('ty') == 'bool':
            neg = False
            while c[0] == 'un' and c[1] == 'Not':
                c, neg = c[2], not neg
            if c[0] == 'call' and isinstance(c[1], str) and c[1].split('::')[-1] in ('is_none', 'is_some') and c[2]:
                p = _place_of(an, c[2][0], places)
                if p is not None:
                    truth = (st[p] == 'N') if c[1].endswith('is_none') else (st[p] == 'S')
                    if neg:
                        truth = not truth
                    false_t = [tt for v, tt in t['targets'] if v == '0']
                    tgt = t['otherwise'] if truth else (false_t[0] if false_t else None)
                    return [(tgt, st)] if tgt in succ else []
        return [(y, st) for y in succ]

    # initial state: unknown for every place (the initialising assignments refine it) unless given
    init = sorted(entry) if entry is not None else [tuple(x) for x in _product(len(places))]
    at = {start: set(init)}
    work = [(start, s) for s in init]
    exits = set()
    while work:
        bb, st = work.pop()
        for st2 in exec_block(bb, st):
            if b.blocks[bb]['t']['k'] == 'return':
                exits.add(st2)
            for y, st3 in successors(bb, st2):
                if stop is not None and y == stop:
                    at.setdefault(y, set()).add(st3)
                    continue
                if st3 not in at.setdefault(y, set()):
                    at[y].add(st3)
                    work.append((y, st3))
    if len(places) > n_orig:
        at = {k: set(st[:n_orig] for st in v) for k, v in at.items()}
        exits = set(st[:n_orig] for st in exits)
    return (at, exits) if want_exits else at


def _product(n):
    out = [[]]
    for _ in range(n):
        out = [x + [v] for x in out for v in ('S', 'N')]
    return out
