"""Reaching definitions + symbolic terms over MIR.

`Analysis(body).term_at(bb, idx, operand)` gives the value of an operand at a
program point as a nested tuple over leaves (parameters, constants, loads,
call results), following *unique* reaching definitions of locals; where several
definitions reach, the term is a ('phi', local, (defids...)) leaf that consumers
may expand with `phi_terms`.  Memory (anything behind a pointer, and locals whose
address is taken mutably) is modelled flow-insensitively: a load is a path leaf
and `stores` lists every write (including calls that receive `&mut`).

Term grammar (all tuples, hashable):
  ('param', i)                       i-th local (1-based MIR argument)
  ('const', ty, val)                 val is a string (ints decimal, floats repr) or None
  ('cnamed', qname, ty, val)         named const item
  ('fn', def, substs, heads)         function item (def = item name)
  ('ref', T) ('deref', T) ('field', T, name, adt, variant) ('index', T, I) ('cidx', T, off, from_end)
  ('bin', op, A, B) ('ovf', op, A, B) ('un', op, A) ('cast', kind, ty, A)
  ('agg', ak, adt, variant, ((fname, T), ...))   ak in adt|tuple|array|closure
  ('discr', T, adt) ('repeat', T, n)
  ('call', callee, (args...), site)  callee: item name string or ('ind', T); site=(bb)
  ('phi', local, (defids...)) ('rec', defid) ('mem', local) ('unknown', text)
"""
from cfg import CFG
from facts import callee_of

OVF = {'AddWithOverflow': 'Add', 'SubWithOverflow': 'Sub', 'MulWithOverflow': 'Mul',
       'AddUnchecked': 'Add', 'SubUnchecked': 'Sub', 'MulUnchecked': 'Mul',
       'ShlUnchecked': 'Shl', 'ShrUnchecked': 'Shr'}


class Def:
    __slots__ = ('id', 'local', 'kind', 'bb', 'idx', 'partial', 'node')

    def __init__(self, id, local, kind, bb, idx, partial, node):
        self.id = id
        self.local = local
        self.kind = kind      # param | assign | call
        self.bb = bb
        self.idx = idx
        self.partial = partial
        self.node = node

    def __repr__(self):
        return 'Def#%d(_%d %s bb%d:%d%s)' % (self.id, self.local, self.kind, self.bb, self.idx, ' partial' if self.partial else '')


def is_local_place(p):
    """place is the local itself or a by-value projection of it (no deref)"""
    return all(e['k'] != 'deref' for e in p['pr'])


class Analysis:
    def __init__(self, body):
        self.b = body
        self.cfg = CFG(body)
        self.defs = []
        self.defs_of = {}
        self.block_defs = {}
        self.escaped = set()      # locals whose address is taken mutably
        self._collect()
        self._reaching()
        self._tcache = {}
        self._inprog = set()
        self._stores = None

    # ------------------------------------------------------------ collection
    def _add_def(self, local, kind, bb, idx, partial, node):
        d = Def(len(self.defs), local, kind, bb, idx, partial, node)
        self.defs.append(d)
        self.defs_of.setdefault(local, []).append(d)
        if bb >= 0:
            self.block_defs.setdefault(bb, []).append(d)
        return d

    def _collect(self):
        b = self.b
        for i in range(1, b.argc + 1):
            self._add_def(i, 'param', -1, -1, False, None)
        for bi, blk in enumerate(b.blocks):
            if blk.get('cleanup'):
                continue
            for k, s in enumerate(blk['st']):
                if s['k'] != 'assign':
                    continue
                p = s['p']
                if is_local_place(p):
                    self._add_def(p['l'], 'assign', bi, k, bool(p['pr']), s)
                rv = s['rv']
                if rv['k'] in ('ref', 'rawptr') and rv['mut'] and is_local_place(rv['p']):
                    self.escaped.add(rv['p']['l'])
            t = blk['t']
            if t['k'] == 'call':
                p = t['dest']
                if is_local_place(p):
                    self._add_def(p['l'], 'call', bi, len(blk['st']), bool(p['pr']), t)

    def _reaching(self):
        cfg = self.cfg
        n = self.b.nblocks
        all_of = {l: sum(1 << d.id for d in ds) for l, ds in self.defs_of.items()}
        gen = [0] * n
        kill = [0] * n
        for bi in range(n):
            g = 0
            k = 0
            for d in self.block_defs.get(bi, []):
                if not d.partial:
                    g &= ~all_of[d.local]
                    k |= all_of[d.local]
                g |= 1 << d.id
            gen[bi] = g
            kill[bi] = k
        entry = 0
        for d in self.defs:
            if d.kind == 'param':
                entry |= 1 << d.id
        IN = [0] * n
        OUT = [0] * n
        IN[0] = entry
        work = list(sorted(cfg.reach))
        inwork = set(work)
        while work:
            x = work.pop(0)
            inwork.discard(x)
            i = entry if x == 0 else 0
            for p in cfg.pred[x]:
                i |= OUT[p]
            IN[x] = i
            o = gen[x] | (i & ~kill[x])
            if o != OUT[x]:
                OUT[x] = o
                for s in cfg.succ[x]:
                    if s not in inwork:
                        work.append(s)
                        inwork.add(s)
        self.IN = IN
        self.OUT = OUT
        self.all_of = all_of

    def reaching(self, local, bb, idx):
        """defs of `local` reaching the point just before statement idx of block bb"""
        mask = self.all_of.get(local, 0)
        cur = self.IN[bb] & mask
        for d in self.block_defs.get(bb, []):
            if d.local == local and d.idx < idx:
                if d.partial:
                    cur |= 1 << d.id
                else:
                    cur = 1 << d.id
        out = []
        for d in self.defs_of.get(local, []):
            if cur >> d.id & 1:
                out.append(d)
        return out

    # ----------------------------------------------------------------- terms
    def const_term(self, o):
        if 'fn' in o:
            f = o['fn']
            return ('fn', f['def'], tuple(f.get('substs') or ()), tuple(f.get('subst_heads') or ()))
        if 'promoted' in o:
            t = self._promoted_term(o['promoted'])
            if t is not None:
                return t
        if 'cdef' in o:
            return ('cnamed', o['cdef'], o['ty'], o.get('val'))
        return ('const', o['ty'], o.get('val', o.get('text')))

    def _promoted_term(self, k):
        """value of promoted constant k of this body: the term of its return place (`&AGG`)"""
        proms = self.b.raw.get('promoted') or []
        if k >= len(proms):
            return None
        key = ('prom', k)
        if key in self._tcache:
            return self._tcache[key]
        from facts import Body
        raw = dict(proms[k])
        raw.update({'q': self.b.q + '::{promoted#%d}' % k, 'kind': 'Promoted', 'name': '', 'sp': self.b.sp})
        pb = Body(raw, self.b.facts)
        pa = Analysis(pb)
        t = None
        for r in pa.cfg.returns:
            t = pa.local_term(r, len(pb.blocks[r]['st']), 0)
        # a promoted body has no parameters: its term is closed
        self._tcache[key] = t
        return t

    def term_at(self, bb, idx, o):
        k = o['k']
        if k == 'const':
            return self.const_term(o)
        if k in ('copy', 'move'):
            return self.place_term(bb, idx, o['p'])
        return ('unknown', k)

    def local_term(self, bb, idx, l):
        if l in self.escaped:
            ds = self.defs_of.get(l, [])
            if len(ds) == 1 and ds[0].kind == 'param' and self.b.local_ty(l).startswith('&'):
                # a reference parameter whose own slot is borrowed (`&mut self` captured by a closure) but never
                # reassigned: it still denotes the parameter
                return ('param', l)
            return ('mem', l)
        ds = self.reaching(l, bb, idx)
        if len(ds) == 1 and not ds[0].partial:
            return self.def_term(ds[0])
        if not ds:
            return ('unknown', 'nodef _%d' % l)
        return ('phi', l, tuple(d.id for d in ds))

    def def_term(self, d):
        if d.id in self._tcache:
            return self._tcache[d.id]
        if d.id in self._inprog:
            return ('rec', d.id)
        self._inprog.add(d.id)
        try:
            if d.kind == 'param':
                t = ('param', d.local)
            elif d.kind == 'assign':
                if d.partial:
                    t = ('phi', d.local, (d.id,))
                else:
                    t = self.rvalue_term(d.bb, d.idx, d.node['rv'])
            else:
                t = self.call_term(d.bb)
                if d.partial:
                    t = ('phi', d.local, (d.id,))
        finally:
            self._inprog.discard(d.id)
        self._tcache[d.id] = t
        return t

    def call_term(self, bb):
        blk = self.b.blocks[bb]
        t = blk['t']
        idx = len(blk['st'])
        c = callee_of(t)
        if c is not None:
            callee = c['def']
        else:
            callee = ('ind', self.term_at(bb, idx, t['f']))
        args = tuple(self.term_at(bb, idx, a) for a in t['args'])
        # lossless numeric conversions spelled with From/Into are the casts they stand for: u32::from(x: u8) = x as u32
        if c is not None and callee in ('std::convert::From::from', 'std::convert::Into::into') and len(args) == 1:
            INTS = ('u8', 'u16', 'u32', 'u64', 'usize', 'i8', 'i16', 'i32', 'i64', 'isize')
            src = (t.get('arg_tys') or [None])[0]
            dst = t.get('dest_ty')
            if src in INTS and dst in INTS:
                return ('cast', 'IntToInt', dst, args[0])
            if src in INTS and dst in ('f32', 'f64'):
                return ('cast', 'IntToFloat', dst, args[0])
            if src == 'f32' and dst == 'f64':
                return ('cast', 'FloatToFloat', dst, args[0])
        ct = ('call', callee, args, bb)
        red = self._beta(ct)
        res = red if red is not None else ct
        return self._outline(res, bb)

    def _outline(self, t, site):
        """A12: an audited helper that this tree has written out in place is read as the call it was (rules/outline.py)"""
        facts = getattr(self.b, 'facts', None)
        o = getattr(facts, 'outliner', None) if facts is not None else None
        if o is None or not o.active:
            return t
        r = o.try_root(t, site, self.b.q)
        return r if r is not None else t

    def _beta(self, ct, depth=0):
        """a closure that is built and called in the same function — `let f = |p| expr; .. f(x)` — is replaced by its
        body's single return term with the captures and the arguments substituted (pure single-expression closures only)"""
        callee, args = ct[1], ct[2]
        if isinstance(callee, str) and callee.endswith('Option::<T>::and_then') and len(args) == 2 and depth <= 2:
            # opt.and_then(|x| E(x)): the value, when there is one, is E(payload of opt) -- read as that term (the None
            # case carries no data; which variant results is not encoded and has to be tested by the code anyway)
            payload = ('field', args[0], '0', 'std::option::Option', 'Some')
            args = (args[1], ('agg', 'tuple', None, None, (('0', payload),)))
        elif not isinstance(callee, str) or callee.split('::')[-1] not in ('call', 'call_mut', 'call_once') or 'ops::Fn' not in callee or len(args) != 2 or depth > 2:
            return None
        clo = args[0]
        while clo[0] in ('ref', 'deref'):
            clo = clo[1]
        if clo[0] == 'mem':
            ds = [d for d in self.defs_of.get(clo[1], []) if not d.partial and d.kind in ('assign', 'local')]
            if len(ds) != 1:
                return None
            clo = self.def_term(ds[0])
        if clo[0] != 'agg' or clo[1] != 'closure' or args[1][0] != 'agg' or args[1][1] != 'tuple':
            return None
        facts = getattr(self.b, 'facts', None)
        cb = facts.bodies.get(clo[2]) if facts is not None else None
        if cb is None:
            return None
        can = Analysis(cb)
        if any(kind == 'assign' for a, v, pt, kind in can.stores):
            return None
        rets = []
        for r in can.cfg.returns:
            t = can.local_term(r, len(cb.blocks[r]['st']), 0)
            rets.extend(can.phi_terms(t) if t[0] == 'phi' else [t])
        if len(rets) != 1:
            return None
        ups = {fn: ft for fn, ft in clo[4]}
        params = {2 + i: ft for i, (fn, ft) in enumerate(args[1][4])}
        def sub(t):
            if not isinstance(t, tuple) or not t:
                return t
            if len(t) == 2 and t[0] == 'param' and t[1] in params:
                return params[t[1]]
            if len(t) == 5 and t[0] == 'field' and isinstance(t[2], str) and t[2].startswith('upvar'):
                base = t[1]
                while base[0] in ('ref', 'deref'):
                    base = base[1]
                if base == ('param', 1) and t[2] in ups:
                    return ups[t[2]]
            if t[0] == 'deref':
                inner = sub(t[1])
                return inner[1] if inner[0] == 'ref' else ('deref', inner)
            return tuple(sub(x) for x in t)
        return sub(rets[0])

    def callee_info(self, bb):
        t = self.b.blocks[bb]['t']
        if t.get('k') != 'call':
            return {}        # the site of an outlined expression (A12) is not a call terminator
        return callee_of(t)

    def apply_proj(self, base, pr, bb, idx):
        t = base
        for e in pr:
            k = e['k']
            if k == 'deref':
                if t[0] == 'ref':
                    t = t[1]
                else:
                    t = deref_norm(t)
            elif k == 'field':
                name = e['n']
                if t[0] == 'agg':
                    hit = None
                    for fn, ft in t[4]:
                        if fn == name:
                            hit = ft
                            break
                    if hit is not None and (t[1] != 'adt' or e.get('v') in (None, t[3])):
                        t = hit
                        continue
                # a.zip(b) is Some((x, y)) exactly when a = Some(x) and b = Some(y): its payload's components are the
                # payloads of the operands
                if e.get('adt') == '(tuple)' and name in ('0', '1') and t[0] == 'field' and t[4] == 'Some' and t[2] == '0':
                    z = t[1]
                    while z[0] in ('ref', 'deref') or (z[0] == 'call' and isinstance(z[1], str) and z[1].endswith('Option::<T>::filter') and len(z[2]) == 2):
                        # opt.filter(pred) has the payload of opt whenever it has one
                        z = z[1] if z[0] in ('ref', 'deref') else z[2][0]
                    if z[0] == 'call' and isinstance(z[1], str) and z[1].endswith('Option::<T>::zip') and len(z[2]) == 2:
                        t = ('field', z[2][int(name)], '0', t[3], 'Some')
                        continue
                if t[0] == 'bin' and e.get('adt') == '(tuple)' and t[1] in OVF:
                    t = ('bin', OVF[t[1]], t[2], t[3]) if name == '0' else ('ovf', OVF[t[1]], t[2], t[3])
                    continue
                t = ('field', t, name, e.get('adt'), e.get('v'))
            elif k == 'downcast':
                continue
            elif k == 'index':
                it = self.local_term(bb, idx, e['l'])
                if t[0] == 'agg' and t[1] == 'array' and it[0] == 'const' and it[2] is not None and it[2].isdigit() and int(it[2]) < len(t[4]):
                    t = t[4][int(it[2])][1]
                else:
                    t = ('index', t, it)
            elif k == 'cidx':
                if t[0] == 'agg' and t[1] == 'array' and not e['end'] and e['off'] < len(t[4]):
                    t = t[4][e['off']][1]
                else:
                    t = ('cidx', t, e['off'], e['end'])
            elif k == 'subslice':
                t = ('subslice', t, e['from'], e['to'], e['end'])
            else:
                t = ('proj?', t, k)
        return t

    def place_term(self, bb, idx, p):
        base = self.local_term(bb, idx, p['l'])
        return self.apply_proj(base, p['pr'], bb, idx)

    def rvalue_term(self, bb, idx, rv):
        k = rv['k']
        if k == 'use':
            return self.term_at(bb, idx, rv['o'])
        if k in ('ref', 'rawptr'):
            return ('ref', self.place_term(bb, idx, rv['p']))
        if k == 'cast':
            return self._outline(('cast', rv['ck'], rv['ty'], self.term_at(bb, idx, rv['o'])), bb)
        if k == 'binop':
            return self._outline(('bin', rv['op'], self.term_at(bb, idx, rv['a']), self.term_at(bb, idx, rv['b'])), bb)
        if k == 'unop':
            return ('un', rv['op'], self.term_at(bb, idx, rv['o']))
        if k == 'discr':
            return ('discr', self.place_term(bb, idx, rv['p']), rv.get('adt'))
        if k == 'agg':
            ak = rv['ak']
            ops = [self.term_at(bb, idx, o) for o in rv['ops']]
            if ak == 'adt':
                return self._outline(('agg', 'adt', rv['adt'], rv['v'], tuple(zip(rv['fields'], ops))), bb)
            if ak == 'closure':
                return ('agg', 'closure', rv['def'], None, tuple(('upvar%d' % i, o) for i, o in enumerate(ops)))
            return ('agg', ak, None, None, tuple((str(i), o) for i, o in enumerate(ops)))
        if k == 'repeat':
            return ('repeat', self.term_at(bb, idx, rv['o']), rv['n'])
        return ('unknown', k)

    def phi_terms(self, t):
        """terms of the definitions merged by a phi / rec leaf"""
        if t[0] == 'phi':
            return [self.def_term(self.defs[i]) for i in t[2]]
        if t[0] == 'rec':
            return [self.def_term(self.defs[t[1]])]
        return [t]

    # ---------------------------------------------------------------- stores
    @property
    def stores(self):
        """list of (address term, value term, (bb, idx), kind) for every write to memory:
        kind 'assign' for statements through a pointer / to an escaped local,
        'call' for calls receiving a &mut / *mut argument (value = the call term)."""
        if self._stores is not None:
            return self._stores
        out = []
        b = self.b
        for bi, blk in enumerate(b.blocks):
            if blk.get('cleanup') or bi not in self.cfg.reach:
                continue
            for k, s in enumerate(blk['st']):
                if s['k'] != 'assign':
                    continue
                p = s['p']
                if not is_local_place(p) or p['l'] in self.escaped:
                    addr = self.place_term(bi, k, p)
                    val = self.rvalue_term(bi, k, s['rv'])
                    out.append((addr, val, (bi, k), 'assign' if not is_local_place(p) else 'local'))
            t = blk['t']
            if t['k'] == 'call':
                idx = len(blk['st'])
                ct = None
                for a, aty in zip(t['args'], t.get('arg_tys', [])):
                    if aty.startswith('&mut ') or aty.startswith('*mut ') or aty.startswith('&raw mut') or 'NonNull<' in aty:
                        at = self.term_at(bi, idx, a)
                        addr = at[1] if at[0] == 'ref' else ('deref', at)
                        if ct is None:
                            ct = self.call_term(bi)
                        out.append((addr, ct, (bi, idx), 'call'))
                p = t['dest']
                if not is_local_place(p) or p['l'] in self.escaped:
                    if ct is None:
                        ct = self.call_term(bi)
                    out.append((self.place_term(bi, idx, p), ct, (bi, idx), 'assign' if not is_local_place(p) else 'local'))
        self._stores = out
        return out

    # ---------------------------------------------------------- conveniences
    def arg_terms(self, bb):
        return self.call_term(bb)[2]

    def call_sites(self, pred):
        """[(bb, callee info, terminator)] for calls whose callee item name satisfies pred (str -> bool)"""
        out = []
        for bi, t, c in self.b.calls():
            if bi not in self.cfg.reach:
                continue
            if c is not None and pred(c['def']):
                out.append((bi, c, t))
        return out


def deref_norm(t):
    """*t for a non-`&P` pointer term.  Two library calls are seen through so that element and
    slice views alias the container they come from:
       *Index::index(&P, i) / *IndexMut::index_mut(&mut P, i)   (i not a range)  ==  P[i]
       *Deref::deref(&P) / *DerefMut::deref_mut(&mut P) / *AsRef::as_ref(&P) / *AsMut::as_mut(&mut P)  ==  P  (Vec -> slice view)"""
    if t[0] == 'call' and isinstance(t[1], str):
        c = t[1]
        if (c.endswith('ops::Index::index') or c.endswith('ops::IndexMut::index_mut')) and len(t[2]) == 2 and t[2][0][0] == 'ref' and t[2][1][0] != 'agg':
            return ('index', t[2][0][1], t[2][1])
        if (c.endswith('ops::Deref::deref') or c.endswith('ops::DerefMut::deref_mut')) and len(t[2]) == 1 and t[2][0][0] == 'ref':
            return t[2][0][1]
    return ('deref', t)


# ------------------------------------------------------------------- paths
def mem_path(t):
    """If t is a load path (field/deref/index chain), return (root, proj tuple) else None.
    proj elements: '*', ('f', name), '[]'"""
    proj = []
    x = t
    while True:
        h = x[0]
        if h == 'field':
            proj.append(('f', x[2]))
            x = x[1]
        elif h == 'deref':
            proj.append('*')
            x = x[1]
        elif h in ('index', 'cidx', 'subslice'):
            proj.append('[]')
            x = x[1]
        else:
            break
    if not proj:
        return None
    return (x, tuple(reversed(proj)))


def path_compatible(a, b):
    """a, b: (root, proj).  Same root and one projection list is a prefix of the other."""
    if a[0] != b[0]:
        return False
    n = min(len(a[1]), len(b[1]))
    return a[1][:n] == b[1][:n]


def path_str(body, path):
    root, proj = path
    if root[0] == 'param':
        s = body.local_name(root[1])
    elif root[0] == 'mem':
        s = body.local_name(root[1])
    elif root[0] == 'call':
        s = 'call(%s)' % (root[1] if isinstance(root[1], str) else 'indirect')
    else:
        s = root[0]
    for e in proj:
        if e == '*':
            s = '(*%s)' % s
        elif e == '[]':
            s += '[]'
        else:
            s += '.' + e[1]
    return s


def subterms(t, _seen=None):
    """all sub-terms, syntactically (no phi expansion)"""
    yield t
    h = t[0]
    if h in ('ref', 'deref'):
        yield from subterms(t[1])
    elif h == 'field':
        yield from subterms(t[1])
    elif h == 'index':
        yield from subterms(t[1])
        yield from subterms(t[2])
    elif h in ('cidx', 'subslice'):
        yield from subterms(t[1])
    elif h in ('bin', 'ovf'):
        yield from subterms(t[2])
        yield from subterms(t[3])
    elif h == 'un':
        yield from subterms(t[2])
    elif h == 'cast':
        yield from subterms(t[3])
    elif h == 'agg':
        for _, x in t[4]:
            yield from subterms(x)
    elif h in ('discr', 'repeat'):
        yield from subterms(t[1])
    elif h == 'call':
        if not isinstance(t[1], str):
            yield from subterms(t[1][1])
        for a in t[2]:
            yield from subterms(a)


class Deps:
    """A3: may-depend closure of a term.  Expands phi/rec leaves through all merged
    definitions and loads through every compatible store of the body (flow-insensitive
    for memory).  `leaves` = set of reached leaf terms and load paths:
       ('param', i), ('const'..), ('cnamed'..), ('fn'..), ('call', callee, args, site) (also recursed),
       ('path', root, proj) for every load.
    With control=True the switch operands controlling each visited definition are included."""

    def __init__(self, an, control=False):
        self.an = an
        self.control = control
        self._cd = None

    def _ctrl_terms(self, bb):
        if self._cd is None:
            self._cd = self.an.cfg.control_deps()
        out = []
        for (a, s) in self._cd.get(bb, ()):
            blk = self.an.b.blocks[a]
            t = blk['t']
            if t['k'] == 'switch':
                out.append(self.an.term_at(a, len(blk['st']), t['o']))
        return out

    def closure(self, t):
        an = self.an
        seen = set()
        self.visited = seen
        self.touched = set()      # phi/mem roots that were read through a projection (they are expanded, not visited)
        leaves = set()
        stack = [t]
        seen_defs = set()
        seen_defs_proj = set()
        seen_paths = set()
        self._seen_paths = seen_paths
        seen_ctrl = set()
        while stack:
            x = stack.pop()
            if x in seen:
                continue
            seen.add(x)
            h = x[0]
            if h in ('field', 'deref', 'cidx', 'index'):
                ex = self._expand_chain(x, seen_defs_proj)
                if ex is not None:
                    stack.extend(ex)
                    continue
            if h in ('phi', 'rec'):
                ids = x[2] if h == 'phi' else (x[1],)
                for i in ids:
                    if i not in seen_defs:
                        seen_defs.add(i)
                        d = an.defs[i]
                        stack.append(an.def_term(d) if not d.partial else self._partial_term(d))
                        if self.control and d.bb >= 0 and d.bb not in seen_ctrl:
                            seen_ctrl.add(d.bb)
                            stack.extend(self._ctrl_terms(d.bb))
                continue
            if h == 'mem':
                leaves.add(x)
                for d in an.defs_of.get(x[1], []):
                    if d.id not in seen_defs:
                        seen_defs.add(d.id)
                        stack.append(self._partial_term(d) if d.partial else self._raw_def_term(d))
                p = (x, ())
                self._push_stores(p, stack, seen_paths)
                continue
            if h in ('param', 'const', 'cnamed', 'fn', 'unknown'):
                leaves.add(x)
                continue
            if h == 'call':
                leaves.add(x)
                if self.control and x[3] not in seen_ctrl:
                    seen_ctrl.add(x[3])
                    stack.extend(self._ctrl_terms(x[3]))
            mp = mem_path(x)
            if mp is not None:
                leaves.add(('path', mp[0], mp[1]))
                self._push_stores(mp, stack, seen_paths)
            # recurse syntactically (one level)
            if h in ('ref', 'deref', 'field', 'cidx', 'subslice', 'discr', 'repeat'):
                stack.append(x[1])
            elif h == 'index':
                stack.append(x[1])
                stack.append(x[2])
            elif h in ('bin', 'ovf'):
                stack.append(x[2])
                stack.append(x[3])
            elif h == 'un':
                stack.append(x[2])
            elif h == 'cast':
                stack.append(x[3])
            elif h == 'agg':
                for _, y in x[4]:
                    stack.append(y)
            elif h == 'call':
                if not isinstance(x[1], str):
                    stack.append(x[1][1])
                for a in x[2]:
                    stack.append(a)
        return leaves

    def _expand_chain(self, x, seen):
        """x is a projection chain; if its root is a phi/rec, push the projection down onto
        every merged definition (field-sensitive: aggregates select the field, partial
        definitions of another field are skipped).  Returns list of terms or None."""
        chain = []
        r = x
        while r[0] in ('field', 'deref', 'cidx', 'index'):
            chain.append(r)
            r = r[1]
        if r[0] not in ('phi', 'rec', 'mem'):
            return None
        self.touched.add(r)
        key = (r, tuple((c[0], c[2] if c[0] == 'field' else None) for c in chain))
        if key in seen:
            return []
        seen.add(key)
        an = self.an
        out = []
        if r[0] == 'mem':
            ids = tuple(d.id for d in an.defs_of.get(r[1], []))
            mp = mem_path(x)
            if mp is not None:
                self._push_stores(mp, out, self._seen_paths)
        else:
            ids = r[2] if r[0] == 'phi' else (r[1],)
        chain = chain[::-1]   # outermost-first from the root
        for i in ids:
            d = an.defs[i]
            if d.partial:
                # _l.f.. = v : compare the by-value projection of the definition with the chain
                pr = d.node['p']['pr'] if d.kind == 'assign' else d.node['dest']['pr']
                val = self._raw_def_term(d)
                k = 0
                mismatch = False
                for e in pr:
                    if e['k'] == 'downcast':
                        continue
                    if k >= len(chain):
                        break
                    c = chain[k]
                    if e['k'] == 'field' and c[0] == 'field':
                        if e['n'] != c[2]:
                            mismatch = True
                            break
                    k += 1
                if mismatch:
                    continue
                out.append(self._rebuild(val, chain[k:]))
                if self.control and d.bb >= 0:
                    out.extend(self._ctrl_terms(d.bb))
                continue
            base = an.def_term(d)
            if base[0] == 'rec' or base == r:
                base = self._raw_def_term(d)
            out.append(self._rebuild(base, chain))
            if self.control and d.bb >= 0:
                out.extend(self._ctrl_terms(d.bb))
        return out

    def _rebuild(self, base, chain):
        t = base
        for c in chain:
            h = c[0]
            if h == 'deref':
                t = t[1] if t[0] == 'ref' else deref_norm(t)
            elif h == 'field':
                name = c[2]
                if t[0] == 'agg':
                    hit = None
                    for fn, ft in t[4]:
                        if fn == name:
                            hit = ft
                            break
                    if hit is not None and (t[1] != 'adt' or c[4] in (None, t[3])):
                        t = hit
                        continue
                    if t[1] == 'adt' and c[4] not in (None, t[3]):
                        # other enum variant: this definition cannot be the one read
                        return ('const', 'other-variant', None)
                t = ('field', t, name, c[3], c[4])
            elif h == 'cidx':
                if t[0] == 'agg' and t[1] == 'array' and not c[3] and c[2] < len(t[4]):
                    t = t[4][c[2]][1]
                else:
                    t = ('cidx', t, c[2], c[3])
            elif h == 'index':
                t = ('index', t, c[2])
        return t

    def _raw_def_term(self, d):
        an = self.an
        if d.kind == 'param':
            return ('param', d.local)
        if d.kind == 'assign':
            return an.rvalue_term(d.bb, d.idx, d.node['rv'])
        return an.call_term(d.bb)

    def _partial_term(self, d):
        return self._raw_def_term(d)

    def _push_stores(self, path, stack, seen_paths):
        if path in seen_paths:
            return
        seen_paths.add(path)
        for addr, val, pt, kind in self.an.stores:
            ap = mem_path(addr)
            if ap is None:
                if addr == path[0] and not path[1]:
                    stack.append(val)
                elif addr[0] in ('phi', 'rec', 'unknown', 'deref'):
                    # wild store: unknown address; may alias any pointer-rooted load
                    if '*' in path[1]:
                        stack.append(val)
                continue
            if ap[0][0] in ('phi', 'rec'):
                if '*' in path[1]:
                    stack.append(val)
                continue
            if path_compatible(ap, path):
                stack.append(val)
                if self.control:
                    stack.extend(self._ctrl_terms(pt[0]))


def leaves_summary(body, leaves):
    """human-readable set for reports"""
    out = set()
    for l in leaves:
        if l[0] == 'param':
            out.add(body.local_name(l[1]))
        elif l[0] == 'path':
            out.add(path_str(body, (l[1], l[2])))
        elif l[0] == 'call':
            out.add('call:' + (l[1] if isinstance(l[1], str) else 'indirect'))
        elif l[0] == 'cnamed':
            out.add('const ' + l[1])
    return sorted(out)


def fmt(body, t, depth=0):
    """compact printer of a term for reports"""
    if depth > 8:
        return '…'
    h = t[0]
    f = lambda x: fmt(body, x, depth + 1)
    if h == 'param':
        return body.local_name(t[1])
    if h == 'const':
        return str(t[2])
    if h == 'cnamed':
        return t[1].split('::')[-1]
    if h == 'fn':
        return t[1].split('::')[-1]
    if h == 'ref':
        return '&' + f(t[1])
    if h == 'deref':
        return '(*%s)' % f(t[1])
    if h == 'field':
        return '%s.%s' % (f(t[1]), t[2])
    if h == 'index':
        return '%s[%s]' % (f(t[1]), f(t[2]))
    if h == 'cidx':
        return '%s[%s%d]' % (f(t[1]), '-' if t[3] else '', t[2])
    if h == 'bin':
        return '(%s %s %s)' % (f(t[2]), t[1], f(t[3]))
    if h == 'ovf':
        return 'ovf(%s %s %s)' % (f(t[2]), t[1], f(t[3]))
    if h == 'un':
        return '%s(%s)' % (t[1], f(t[2]))
    if h == 'cast':
        return '(%s as %s)' % (f(t[3]), t[2].split('::')[-1])
    if h == 'agg':
        name = (t[2] or t[1]).split('::')[-1]
        if t[3] and t[3] != name:
            name += '::' + t[3]
        return '%s{%s}' % (name, ', '.join('%s: %s' % (n, f(x)) for n, x in t[4]))
    if h == 'discr':
        return 'discr(%s)' % f(t[1])
    if h == 'call':
        c = t[1] if isinstance(t[1], str) else '(*%s)' % f(t[1][1])
        c = c.split('::')[-1] if isinstance(t[1], str) else c
        return '%s(%s)' % (c, ', '.join(f(a) for a in t[2]))
    if h == 'phi':
        return 'phi(%s)' % body.local_name(t[1])
    if h == 'rec':
        return 'rec#%d' % t[1]
    if h == 'mem':
        return body.local_name(t[1])
    if h == 'repeat':
        return '[%s; %s]' % (f(t[1]), t[2])
    return str(t)
