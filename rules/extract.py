"""Engine E1: run the mirfacts driver over the current working tree of the
repository (real cargo build flags) and cache the fact file by content hash."""
import fcntl
import glob
import hashlib
import os
import shutil
import subprocess
import sys
import time

VERIF = os.path.dirname(os.path.dirname(os.path.abspath(__file__)))
CACHE = os.path.join(VERIF, '.cache')
DRIVER_DIR = os.path.join(VERIF, 'driver')
DRIVER = os.path.join(DRIVER_DIR, 'target', 'debug', 'mirfacts')

CONFIGS = {
    'default': [],
    'nodefault': ['--no-default-features'],
    'png': ['--no-default-features', '--features', 'png'],
}


def repo_dir():
    return os.environ.get('VERIF_REPO', '/repo')


def tree_hash(repo):
    h = hashlib.sha256()
    files = sorted(glob.glob(os.path.join(repo, 'src', '**', '*.rs'), recursive=True))
    files += [os.path.join(repo, 'Cargo.toml'), os.path.join(repo, 'Cargo.lock')]
    for f in files:
        h.update(os.path.relpath(f, repo).encode())
        h.update(b'\0')
        try:
            with open(f, 'rb') as fh:
                h.update(fh.read())
        except OSError:
            h.update(b'<missing>')
        h.update(b'\0')
    # the driver itself is part of the key
    with open(os.path.join(DRIVER_DIR, 'src', 'main.rs'), 'rb') as fh:
        h.update(fh.read())
    return h.hexdigest()[:20]


def env_base():
    env = dict(os.environ)
    env['CARGO_NET_OFFLINE'] = 'true'
    return env


def sysroot():
    return subprocess.check_output(['rustc', '+nightly', '--print', 'sysroot'], text=True).strip()


def build_driver(force=False):
    src = os.path.join(DRIVER_DIR, 'src', 'main.rs')
    if not force and os.path.exists(DRIVER) and os.path.getmtime(DRIVER) >= os.path.getmtime(src):
        return
    r = subprocess.run(['cargo', 'build', '--offline'], cwd=DRIVER_DIR, env=env_base(),
                       stdout=subprocess.PIPE, stderr=subprocess.STDOUT, text=True)
    if r.returncode != 0 or not os.path.exists(DRIVER):
        sys.stderr.write(r.stdout)
        raise RuntimeError('mirfacts driver failed to build')


class ExtractError(Exception):
    pass


SLOTS = int(os.environ.get('VERIF_EXTRACT_SLOTS', '8'))
KEEP_FACTS = 160


def _take_slot():
    """an exclusive build directory: slot 0 is `tgt-<config>` itself (a single run behaves as it always did); further
    slots are only used while the earlier ones are busy (parallel regression runs over many scratch trees)"""
    for k in range(SLOTS):
        f = open(os.path.join(CACHE, 'lock-slot-%d' % k), 'w')
        try:
            fcntl.flock(f, fcntl.LOCK_EX | fcntl.LOCK_NB)
            return k, f
        except OSError:
            f.close()
    k = os.getpid() % SLOTS
    f = open(os.path.join(CACHE, 'lock-slot-%d' % k), 'w')
    fcntl.flock(f, fcntl.LOCK_EX)
    return k, f


def extract(config='default'):
    """returns (facts_path, info dict)"""
    repo = repo_dir()
    os.makedirs(CACHE, exist_ok=True)
    lock = open(os.path.join(CACHE, 'lock'), 'w')
    fcntl.flock(lock, fcntl.LOCK_EX)
    try:
        build_driver()
    finally:
        fcntl.flock(lock, fcntl.LOCK_UN)
        lock.close()
    h = tree_hash(repo)
    out = os.path.join(CACHE, 'facts-%s-%s.json' % (config, h))
    info = {'config': config, 'tree_hash': h, 'repo': repo, 'cached': True}
    if os.path.exists(out) and os.path.getsize(out) > 1000:
        return out, info
    # one extraction per tree and configuration at a time; different trees proceed in parallel, each in its own
    # build directory
    hlock = open(os.path.join(CACHE, 'lock-tree-%s-%s' % (config, h)), 'w')
    fcntl.flock(hlock, fcntl.LOCK_EX)
    slot_f = None
    try:
        if os.path.exists(out) and os.path.getsize(out) > 1000:
            return out, info
        info['cached'] = False
        slot, slot_f = _take_slot()
        tgt = os.path.join(CACHE, 'tgt-%s' % config if slot == 0 else 'tgt-%s-s%d' % (config, slot))
        # never let cargo's freshness cache replay an old analysis of the primary package
        for p in glob.glob(os.path.join(tgt, 'debug', '.fingerprint', 'raqote-*')):
            shutil.rmtree(p, ignore_errors=True)
        for p in glob.glob(os.path.join(tgt, 'debug', 'deps', '*raqote-*')):
            try:
                os.remove(p)
            except OSError:
                pass
        shutil.rmtree(os.path.join(tgt, 'debug', 'incremental'), ignore_errors=True)
        tmp_out = out + '.tmp'
        if os.path.exists(tmp_out):
            os.remove(tmp_out)
        env = env_base()
        env['LD_LIBRARY_PATH'] = os.path.join(sysroot(), 'lib') + ':' + env.get('LD_LIBRARY_PATH', '')
        env['RUSTFLAGS'] = '-Zmir-opt-level=0 -Awarnings'
        env['RUSTC_WORKSPACE_WRAPPER'] = DRIVER
        env['MIRFACTS_OUT'] = tmp_out
        env['CARGO_TARGET_DIR'] = tgt
        env['CARGO_INCREMENTAL'] = '0'
        t0 = time.time()
        cmd = ['cargo', '+nightly', 'check', '--offline', '--lib'] + CONFIGS[config]
        r = subprocess.run(cmd, cwd=repo, env=env, stdout=subprocess.PIPE, stderr=subprocess.STDOUT, text=True)
        info['cargo_s'] = round(time.time() - t0, 2)
        if r.returncode != 0:
            raise ExtractError('cargo check failed for config %s:\n%s' % (config, r.stdout[-4000:]))
        if not os.path.exists(tmp_out):
            raise ExtractError('driver did not write a fact file (config %s); cargo said:\n%s' % (config, r.stdout[-2000:]))
        os.replace(tmp_out, out)
        # prune old fact files and the per-tree lock files that belong to them
        def mtime(p):
            try:
                return os.path.getmtime(p)
            except OSError:         # pruned by a parallel run in the meantime
                return 0.
        olds = sorted(glob.glob(os.path.join(CACHE, 'facts-*.json')), key=mtime)
        for p in olds[:-KEEP_FACTS]:
            try:
                os.remove(p)
            except OSError:
                pass
        for p in glob.glob(os.path.join(CACHE, 'lock-tree-*')):
            try:
                if time.time() - os.path.getmtime(p) > 3600:
                    os.remove(p)
            except OSError:
                pass
        return out, info
    finally:
        if slot_f is not None:
            fcntl.flock(slot_f, fcntl.LOCK_UN)
            slot_f.close()
        fcntl.flock(hlock, fcntl.LOCK_UN)
        hlock.close()


def dep_source(repo, pkg):
    """(lib.rs path, edition, version) of the dependency `pkg` as resolved for the current tree (cargo metadata, offline)"""
    import json
    r = subprocess.run(['cargo', 'metadata', '--offline', '--format-version', '1'], cwd=repo, env=env_base(),
                       stdout=subprocess.PIPE, stderr=subprocess.PIPE, text=True)
    if r.returncode != 0:
        raise ExtractError('cargo metadata failed: %s' % r.stderr[-1500:])
    md = json.loads(r.stdout)
    # the version that the root package's resolve graph actually uses
    root = (md.get('resolve') or {}).get('root')
    used = None
    for node in (md.get('resolve') or {}).get('nodes', []):
        if node['id'] == root:
            for d in node.get('deps', []):
                if d.get('name', '').replace('-', '_') == pkg.replace('-', '_'):
                    used = d['pkg']
    cands = [p for p in md['packages'] if p['name'] == pkg and (used is None or p['id'] == used)]
    if len(cands) != 1:
        raise ExtractError('dependency %s: %d candidate packages in cargo metadata' % (pkg, len(cands)))
    p0 = cands[0]
    libs = [t for t in p0['targets'] if 'lib' in t['kind']]
    if len(libs) != 1:
        raise ExtractError('dependency %s has no single lib target' % pkg)
    return libs[0]['src_path'], libs[0].get('edition') or p0.get('edition') or '2015', p0['version'], p0.get('dependencies') or []


def extract_dep(pkg):
    """fact file of a dependency-free dependency crate of the current tree (the driver is run directly on its lib.rs);
    returns (facts_path, info)"""
    repo = repo_dir()
    os.makedirs(CACHE, exist_ok=True)
    lock = open(os.path.join(CACHE, 'lock'), 'w')
    fcntl.flock(lock, fcntl.LOCK_EX)
    try:
        build_driver()
        src, edition, version, deps = dep_source(repo, pkg)
        if [d for d in deps if d.get('kind') in (None, 'normal') and not d.get('optional')]:
            raise ExtractError('dependency %s has dependencies of its own: direct extraction is not supported' % pkg)
        h = hashlib.sha256()
        srcdir = os.path.dirname(src)
        for f in sorted(glob.glob(os.path.join(srcdir, '**', '*.rs'), recursive=True)):
            h.update(os.path.relpath(f, srcdir).encode() + b'\0')
            with open(f, 'rb') as fh:
                h.update(fh.read())
        with open(os.path.join(DRIVER_DIR, 'src', 'main.rs'), 'rb') as fh:
            h.update(fh.read())
        hh = h.hexdigest()[:20]
        crate = pkg.replace('-', '_')
        out = os.path.join(CACHE, 'depfacts-%s-%s.json' % (crate, hh))
        info = {'package': pkg, 'version': version, 'src': src, 'hash': hh, 'cached': True}
        if os.path.exists(out) and os.path.getsize(out) > 1000:
            return out, info
        info['cached'] = False
        import tempfile
        tmpd = tempfile.mkdtemp(prefix='mirfacts-dep-')
        try:
            env = env_base()
            env['LD_LIBRARY_PATH'] = os.path.join(sysroot(), 'lib') + ':' + env.get('LD_LIBRARY_PATH', '')
            env['MIRFACTS_CRATE'] = crate
            env['MIRFACTS_OUT'] = out + '.tmp'
            cmd = [DRIVER, 'rustc', '--crate-name', crate, '--crate-type', 'lib', '--edition', edition, '--emit=metadata',
                   '-Zmir-opt-level=0', '-Awarnings', '--cap-lints', 'allow', '--out-dir', tmpd, src]
            r = subprocess.run(cmd, cwd=tmpd, env=env, stdout=subprocess.PIPE, stderr=subprocess.STDOUT, text=True)
            if r.returncode != 0 or not os.path.exists(out + '.tmp'):
                raise ExtractError('driver failed on dependency %s:\n%s' % (pkg, r.stdout[-3000:]))
            os.replace(out + '.tmp', out)
        finally:
            shutil.rmtree(tmpd, ignore_errors=True)
        return out, info
    finally:
        fcntl.flock(lock, fcntl.LOCK_UN)
        lock.close()


if __name__ == '__main__':
    cfg = sys.argv[1] if len(sys.argv) > 1 else 'default'
    p, info = extract(cfg)
    print(p, info)
