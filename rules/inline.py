"""Facts-level inlining of *new* private helper functions (A11).

Rules anchor on the functions that exist in the audited tree.  A behaviour-preserving clean-up that extracts a few
statements into a new private helper (or wraps an expression in one) would otherwise hide those statements from the
rule that looks for them in the original function.  Before any rule runs, every call to a local, non-public,
non-recursive function whose name is not in rules/known_fns.json (the functions of the audited tree) is replaced by a
copy of the callee's MIR: parameters are assigned from the call's arguments, locals and blocks are renumbered, and each
`return` becomes `dest = _0; goto continuation`.  The helper's own body is then removed from the fact set when no
other use of it remains (it would otherwise be counted twice by whole-crate censuses).

Nothing is inlined on the audited tree itself (every function is known), so the rules see exactly the compiler's MIR there."""
import copy
import json
import os

KNOWN_PATH = os.path.join(os.path.dirname(os.path.abspath(__file__)), 'known_fns.json')


def load_known():
    """{qualified name: {sig, impl_self, kind, argc, vis}} of the functions of the audited tree"""
    try:
        with open(KNOWN_PATH) as f:
            d = json.load(f)
            if isinstance(d, dict) and 'fns' in d:
                return d['fns']
            return d if isinstance(d, dict) else {q: {} for q in d}
    except OSError:
        return None


def load_known_adts():
    try:
        with open(KNOWN_PATH) as f:
            d = json.load(f)
            return d.get('adts') if isinstance(d, dict) else None
    except OSError:
        return None


def restore_adt_names(raw, known_adts):
    """Renamed private struct fields and renamed private structs get their audited names back.
    A field counts as renamed when the struct still has the same number of fields with the same types in the same order
    and the field at that position is not public; a struct counts as renamed when an audited struct is missing while
    exactly one unknown struct of the same module has the identical field list.  Returns (raw, [descriptions])."""
    if not known_adts:
        return raw, []
    done = []
    cur = {a['q']: a for a in raw['adts']}
    # --- struct renames
    missing = [q for q in known_adts if q not in cur]
    unknown = [a for a in raw['adts'] if a['q'] not in known_adts]
    pairs = []
    def shape(a):
        return (a['kind'], tuple(tuple((f[1] if isinstance(f, list) else f['ty']) for f in v['fields']) for v in a['variants']),
                tuple(tuple((f[0] if isinstance(f, list) else f['name']) for f in v['fields']) for v in a['variants']))
    for q in missing:
        mod = q.rsplit('::', 1)[0]
        cands = [a for a in unknown if a['q'].rsplit('::', 1)[0] == mod and shape(a)[:2] == shape(known_adts[q])[:2]]
        others = [m2 for m2 in missing if m2 != q and m2.rsplit('::', 1)[0] == mod and shape(known_adts[m2])[:2] == shape(known_adts[q])[:2]]
        if len(cands) == 1 and not others:
            pairs.append((cands[0]['q'], q))
    if pairs:
        text = json.dumps(raw)
        for newq, oldq in pairs:
            for a, b2 in ((newq, oldq), (newq.replace('raqote::', '', 1), oldq.replace('raqote::', '', 1))):
                ea, eb = json.dumps(a)[1:-1], json.dumps(b2)[1:-1]
                for end in ('"', '::', ' ', '>', ',', ')', '<', ';', ']', '{', '}'):
                    text = text.replace(ea + end, eb + end)
            done.append('struct %s -> %s' % (newq, oldq))
        raw = json.loads(text)
        for a in raw['adts']:
            for newq, oldq in pairs:
                if a['q'] == oldq:
                    for v in a['variants']:
                        if v['name'] == newq.rsplit('::', 1)[1]:
                            v['name'] = oldq.rsplit('::', 1)[1]
    # --- field renames
    ren = {}          # (adt q, field index, new name) -> old name
    for a in raw['adts']:
        k = known_adts.get(a['q'])
        if not k or len(k['variants']) != len(a['variants']):
            continue
        for v, kv in zip(a['variants'], k['variants']):
            if len(v['fields']) != len(kv['fields']) or [f['ty'] for f in v['fields']] != [f[1] for f in kv['fields']]:
                continue
            for i, (f, kf) in enumerate(zip(v['fields'], kv['fields'])):
                if f['name'] != kf[0] and f['name'] not in [x[0] for x in kv['fields']]:
                    ren[(a['q'], i, f['name'])] = kf[0]
                    done.append('field %s.%s -> %s' % (a['q'], f['name'], kf[0]))
                    f['name'] = kf[0]
    if ren:
        def walk(x):
            if isinstance(x, list):
                for y in x:
                    walk(y)
            elif isinstance(x, dict):
                if x.get('k') == 'field' and 'adt' in x and 'n' in x and (x['adt'], x.get('i'), x['n']) in ren:
                    x['n'] = ren[(x['adt'], x.get('i'), x['n'])]
                if x.get('k') == 'agg' and x.get('ak') == 'adt' and isinstance(x.get('fields'), list):
                    x['fields'] = [ren.get((x.get('adt'), i, n), n) for i, n in enumerate(x['fields'])]
                for y in x.values():
                    walk(y)
        walk(raw['bodies'])
    return raw, done


def restore_renames(raw, known):
    """A private function of the audited tree that is missing while exactly one unknown function with the same
    signature, kind and impl type exists has been renamed: give it its audited name back (in the body list and in every
    reference), so that the rules anchored on it still find it and then judge its body.  Returns [(new name, old name)]."""
    if not known:
        return raw, []
    present = set(b['q'] for b in raw['bodies'])
    missing = [q for q in known if q not in present and '::{closure' not in q and known[q].get('vis') != 'pub' and known[q].get('sig')]
    unknown = [b for b in raw['bodies'] if b['q'] not in known and '::{closure' not in b['q'] and b.get('vis') != 'pub']
    pairs = []
    for q in missing:
        k = known[q]
        cands = [b for b in unknown if b.get('sig') == k.get('sig') and b.get('impl_self') == k.get('impl_self') and b.get('kind') == k.get('kind')
                 and b['q'].rsplit('::', 1)[0] == q.rsplit('::', 1)[0]]
        others = [m2 for m2 in missing if m2 != q and known[m2].get('sig') == k.get('sig') and known[m2].get('impl_self') == k.get('impl_self') and m2.rsplit('::', 1)[0] == q.rsplit('::', 1)[0]]
        if len(cands) == 1 and not others:
            pairs.append((cands[0]['q'], q))
    # moved to another module under the same name (`fn compute_normal` from stroke.rs to geom.rs): same last path
    # segment, same signature and kind, the audited path missing, the new path unknown, one candidate
    taken = set(n for n, o in pairs)
    for q in missing:
        if any(o == q for n, o in pairs):
            continue
        k = known[q]
        if k.get('impl_self'):
            continue
        name = q.rsplit('::', 1)[1]
        cands = [b for b in raw['bodies'] if b['q'] not in known and b['q'] not in taken and '::{closure' not in b['q'] and not b.get('impl_self')
                 and b['q'].rsplit('::', 1)[1] == name and b.get('sig') == k.get('sig') and b.get('kind') == k.get('kind')]
        if len(cands) == 1:
            pairs.append((cands[0]['q'], q))
            taken.add(cands[0]['q'])
    # free function <-> associated function / method of a local type (`fn blend_row::<T>(..)` -> `BlendRow::row::<T>(..)`,
    # `compute_curve_steps(&Edge)` -> `Edge::curve_shift(&self)`): the same signature, unique on both sides
    for q in missing:
        if any(o == q for n, o in pairs):
            continue
        k = known[q]
        sig = k.get('sig')
        if not sig or len([m2 for m2 in missing if known[m2].get('sig') == sig]) != 1:
            continue
        # a generic parameter that becomes the Self type of a provided trait method: `<T as Tr>::X` ~ `<Self as Tr>::X`
        nsig = lambda x: (x or '').replace('<Self as ', '<T as ')
        cands = [b for b in raw['bodies'] if b['q'] not in known and b['q'] not in taken and '::{closure' not in b['q'] and nsig(b.get('sig')) == nsig(sig)
                 and not b.get('impl_trait')]
        if len(cands) == 1:
            pairs.append((cands[0]['q'], q))
            taken.add(cands[0]['q'])
    if not pairs:
        return raw, []
    text = json.dumps(raw)
    for newq, oldq in pairs:
        for a, b2 in ((newq, oldq), (newq.replace('raqote::', '', 1), oldq.replace('raqote::', '', 1))):
            text = text.replace(json.dumps(a)[1:-1] + '"', json.dumps(b2)[1:-1] + '"').replace(json.dumps(a)[1:-1] + '::', json.dumps(b2)[1:-1] + '::')
    raw2 = json.loads(text)
    for b in raw2['bodies']:
        for newq, oldq in pairs:
            if b['q'] == oldq:
                b['name'] = oldq.rsplit('::', 1)[1]
    return raw2, pairs


def _is_span(d):
    return isinstance(d, dict) and 'f' in d and 'l2' in d


def _remap(x, loff, boff, poff=0):
    """deep copy with locals shifted by loff (and promoted-constant indices by poff); block references are handled by the caller"""
    if isinstance(x, list):
        return [_remap(v, loff, boff, poff) for v in x]
    if isinstance(x, dict):
        if _is_span(x):
            return dict(x)
        out = {}
        is_place = 'l' in x and 'pr' in x
        is_index_proj = x.get('k') == 'index' and 'l' in x and 'pr' not in x
        for k, v in x.items():
            if k == 'l' and (is_place or is_index_proj) and isinstance(v, int):
                out[k] = v + loff
            elif k == 'promoted' and isinstance(v, int) and x.get('k') == 'const':
                out[k] = v + poff
            else:
                out[k] = _remap(v, loff, boff, poff)
        return out
    return x


def _remap_term_blocks(t, boff):
    k = t['k']
    if k in ('goto', 'call', 'drop', 'assert') and 't' in t:
        t['t'] = t['t'] + boff
    if k == 'switch':
        t['targets'] = [[v, bb + boff] for v, bb in t['targets']]
        t['otherwise'] = t['otherwise'] + boff
    for extra in ('unwind', 'cleanup_t'):
        if isinstance(t.get(extra), int):
            t[extra] = t[extra] + boff
    return t


def _callee(t):
    f = t.get('f') or {}
    fn = f.get('fn') if f.get('k') == 'const' else None
    if not fn:
        return None
    return fn.get('res') or fn.get('def')


def _calls_of(body):
    out = set()
    for blk in body['blocks']:
        if blk['t']['k'] == 'call':
            c = _callee(blk['t'])
            if c:
                out.add(c)
    return out


def inline_new_helpers(raw, known):
    """mutates raw['bodies']; returns the list of helper names that were inlined"""
    if known is None:
        return []
    bodies = {b['q']: b for b in raw['bodies']}
    helpers = {}
    new_pub = {}
    for q, b in bodies.items():
        if q in known or b.get('kind') not in ('Fn', 'AssocFn'):
            continue
        if b.get('impl_trait'):
            continue          # trait methods are reached through dispatch, not by name
        if b.get('vis') == 'pub':
            # a new public function stays (it is API), but where an *audited* function now delegates to it the audited
            # function is judged on what it does, so the call is expanded there as well
            new_pub[q] = b
            continue
        helpers[q] = b
    # drop recursive helpers (directly or through other helpers)
    def reaches(q, target, seen):
        for c in _calls_of(bodies[q]):
            if c == target:
                return True
            if (c in helpers or c in new_pub) and c not in seen:
                seen.add(c)
                if reaches(c, target, seen):
                    return True
        return False
    helpers = {q: b for q, b in helpers.items() if not reaches(q, q, set())}
    # audited *leaves* (a couple of statements, no calls: setters, accessors) reached over a call edge the audited tree
    # does not have — `self.set_transform(&t)` where the audited function stored the field, `self.width()` for the field —
    # are inlined at that new edge as well; their own bodies stay
    def is_leaf(b):
        n = calls = 0
        for blk in b['blocks']:
            if blk.get('cleanup'):
                continue
            t = blk['t']
            if t['k'] == 'call':
                c = _callee(t) or ''
                if c.startswith(raw.get('crate', 'raqote') + '::') or not c:
                    return False        # calls into the crate: not a leaf
                calls += 1
            elif t['k'] not in ('return', 'goto', 'unreachable', 'drop'):
                return False
            n += len(blk['st'])
        return n <= 8 and calls <= 2
    leaves = {q: b for q, b in bodies.items() if q in known and isinstance(known[q], dict) and 'callees' in known[q]
              and b.get('kind') in ('Fn', 'AssocFn') and not b.get('impl_trait') and is_leaf(b)}
    has_edges = any(isinstance(v, dict) and 'callees' in v for v in known.values())
    def new_leaf_edge(q, c):
        if c in new_pub and c != q and q in known and not reaches(c, c, set()):
            return True
        if not has_edges or c not in leaves or c == q:
            return False
        kq = known.get(q)
        if isinstance(kq, dict) and 'callees' in kq:
            return c not in kq['callees']
        return q not in known       # a new function's edges are all new (it is inlined itself if private)
    if not helpers and not new_pub and not any(new_leaf_edge(q, _callee(blk['t'])) for q, b in bodies.items() for blk in b['blocks'] if blk['t']['k'] == 'call'):
        return []
    used = set()
    touched = set()
    for _round in range(4):
        changed = False
        for q, b in bodies.items():
            bi = 0
            while bi < len(b['blocks']):
                blk = b['blocks'][bi]
                t = blk['t']
                if t['k'] == 'call' and not blk.get('cleanup'):
                    c = _callee(t)
                    if c in helpers and c != q:
                        _inline_at(b, bi, helpers[c])
                        used.add(c)
                        touched.add(q)
                        changed = True
                    elif new_leaf_edge(q, c) and q not in helpers:
                        _inline_at(b, bi, copy.deepcopy(leaves[c] if c in leaves else new_pub[c]))
                        used.add('edge %s -> %s' % (q.split('::')[-1], c.split('::')[-1]))
                        touched.add(q)
                        changed = True
                bi += 1
        if not changed:
            break
    for q in touched:
        if q not in used:
            thread_jumps(bodies[q], raw.get('adts', []))
    # a helper that is no longer called anywhere (and whose address is not taken) disappears from the fact set
    still = set()
    for q, b in bodies.items():
        if q in used:
            continue
        still |= _calls_of(b)
        for blk in b['blocks']:
            s = json.dumps(blk)
            for h in used:
                if '"def": "%s"' % h in s:
                    still.add(h)
    raw['bodies'] = [b for b in raw['bodies'] if not (b['q'] in used and b['q'] not in still)]
    return sorted(used)


def _ret_of(sig):
    """return type of a printed fn signature ('' for none); None when the signature cannot be read"""
    i = sig.find('fn(')
    if i < 0:
        return None
    depth = 0
    for j in range(i + 2, len(sig)):
        if sig[j] in '([<' and not (sig[j] == '<' and sig[j - 1] == '-'):
            depth += 1
        elif sig[j] in ')]' or (sig[j] == '>' and sig[j - 1] != '-'):
            depth -= 1
            if depth == 0 and sig[j] == ')':
                rest = sig[j + 1:].strip()
                return rest[2:].strip() if rest.startswith('->') else ('' if not rest else None)
    return None


def summarise_tail_returns(raw, known):
    """A14: an audited function that returned nothing and now returns what an accessor reads from `self` as its last act
    (`fn apply_path(&mut self, ..) -> IntRect { ..; self.rasterizer.get_bounds() }`) is the audited function followed by
    that accessor call at every call site: the tail calls leave the function and appear after each call of it, reading
    the same field path of the caller's receiver.  Returns the names of the functions so summarised."""
    if known is None:
        return []
    done = []
    bodies = {b['q']: b for b in raw['bodies']}
    for q, f in bodies.items():
        kq = known.get(q)
        if not isinstance(kq, dict) or not kq.get('sig') or _ret_of(kq['sig']) not in ('', '()'):
            continue
        if _ret_of(f.get('sig') or '') in ('', '()', None):
            continue
        tails = []
        ok = True
        for bi, blk in enumerate(f['blocks']):
            if blk.get('cleanup'):
                continue
            for st in blk['st']:
                if st.get('k') == 'assign' and st['p']['l'] == 0:
                    ok = False
            t = blk['t']
            if t['k'] == 'call' and t['dest']['l'] == 0:
                if t['dest']['pr'] or len(t['args']) != 1 or t['args'][0].get('k') != 'move' or t['args'][0]['p']['pr']:
                    ok = False
                    continue
                u = t['args'][0]['p']['l']
                defs = [st for st in blk['st'] if st.get('k') == 'assign' and st['p']['l'] == u and not st['p']['pr']]
                if len(defs) != 1 or defs[0]['rv'].get('k') != 'ref' or defs[0]['rv'].get('mut') or _single_def(f, u) is None:
                    ok = False
                    continue
                p = defs[0]['rv']['p']
                if p['l'] != 1 or not p['pr'] or p['pr'][0].get('k') != 'deref' or any(e.get('k') != 'field' for e in p['pr'][1:]):
                    ok = False
                    continue
                if any(_uses_local(st, u) for blk2 in f['blocks'] for st in blk2['st'] if st is not defs[0]):
                    ok = False
                    continue
                tails.append((bi, defs[0], json.dumps(p['pr'][1:], sort_keys=True), _callee(t)))
        if not ok or not tails or len(set((x[2], x[3]) for x in tails)) != 1 or not tails[0][3]:
            continue
        g = tails[0][3]
        if g in (kq.get('callees') or []) or g == q:
            continue
        path = json.loads(tails[0][2])
        proto = f['blocks'][tails[0][0]]['t']
        # every call site must hand over a reference whose referent can be named in the caller
        plan = []
        for cq, c in bodies.items():
            if cq == q:
                if any(_callee(blk['t']) == q for blk in c['blocks'] if blk['t']['k'] == 'call'):
                    ok = False
                continue
            for bi, blk in enumerate(c['blocks']):
                t = blk['t']
                if t['k'] != 'call' or _callee(t) != q:
                    continue
                a = t['args'][0] if t['args'] else None
                if not a or a.get('k') not in ('move', 'copy') or a['p']['pr'] or t.get('t') is None:
                    ok = False
                    continue
                ud = _single_def(c, a['p']['l'])
                for _hop in range(4):
                    if ud is None:
                        break
                    rv0 = ud[2]['rv']
                    if rv0.get('k') == 'use' and rv0['o'].get('k') in ('move', 'copy') and not rv0['o']['p']['pr'] and str(c['locals'][rv0['o']['p']['l']].get('ty', '')).startswith('&') and _single_def(c, rv0['o']['p']['l']):
                        ud = _single_def(c, rv0['o']['p']['l'])
                    else:
                        break
                if ud is None:
                    if a['p']['l'] <= (c.get('argc') or 0):
                        plan.append((c, bi, {'l': a['p']['l'], 'pr': [{'k': 'deref'}]}))     # the caller's own parameter
                        continue
                    ok = False
                    continue
                rv0 = ud[2]['rv']
                if rv0.get('k') == 'ref' and all(e.get('k') in ('deref', 'field') for e in rv0['p']['pr']):
                    plan.append((c, bi, copy.deepcopy(rv0['p'])))
                elif rv0.get('k') == 'use' and rv0['o'].get('k') in ('move', 'copy') and not rv0['o']['p']['pr'] and rv0['o']['p']['l'] <= (c.get('argc') or 0):
                    plan.append((c, bi, {'l': rv0['o']['p']['l'], 'pr': [{'k': 'deref'}]}))
                else:
                    ok = False
        if not ok:
            continue
        for bi, d, _p, _g in tails:
            blk = f['blocks'][bi]
            blk['st'] = [st for st in blk['st'] if st is not d]
            blk['t'] = {'k': 'goto', 't': blk['t']['t'], 'sp': blk['t'].get('sp')}
        f['sig'] = kq['sig']
        for c, bi, root in plan:
            blk = c['blocks'][bi]
            t = blk['t']
            tmp = len(c['locals'])
            c['locals'].append({'ty': (proto.get('arg_tys') or [''])[0], 'name': None})
            unit = len(c['locals'])
            c['locals'].append({'ty': '()', 'name': None})
            nb = len(c['blocks'])
            call = copy.deepcopy(proto)
            for extra in ('unwind', 'cleanup_t', 'u'):
                call.pop(extra, None)
            call['args'] = [{'k': 'move', 'p': {'l': tmp, 'pr': []}}]
            call['dest'] = copy.deepcopy(t['dest'])
            call['t'] = t['t']
            call['sp'] = t.get('sp')
            c['blocks'].append({'st': [{'k': 'assign', 'p': {'l': tmp, 'pr': []}, 'rv': {'k': 'ref', 'mut': False, 'p': {'l': root['l'], 'pr': root['pr'] + copy.deepcopy(path)}},
                                        'ty': (proto.get('arg_tys') or [''])[0], 'sp': t.get('sp')}], 't': call})
            t['dest'] = {'l': unit, 'pr': []}
            t['dest_ty'] = '()'
            t['t'] = nb
            if isinstance(t.get('f'), dict) and isinstance(t['f'].get('ty'), str) and ' -> ' in t['f']['ty']:
                pass
        done.append('%s returns %s' % (q.split('::')[-1], g.split('::')[-1]))
    return done


def _inline_at(b, bi, callee, forward_refs=True):
    blk = b['blocks'][bi]
    t = blk['t']
    loff = len(b['locals'])
    boff = len(b['blocks'])
    poff = len(b.get('promoted') or [])
    if callee.get('promoted'):
        b['promoted'] = list(b.get('promoted') or []) + copy.deepcopy(callee['promoted'])
    for i, l in enumerate(callee['locals']):
        l2 = dict(l)
        b['locals'].append(l2)
    sp = t.get('sp')
    # parameters := arguments
    for i, a in enumerate(t['args']):
        pl = loff + 1 + i
        blk['st'].append({'k': 'assign', 'p': {'l': pl, 'pr': []}, 'rv': {'k': 'use', 'o': copy.deepcopy(a)},
                          'ty': (t.get('arg_tys') or [''] * (i + 1))[i] if i < len(t.get('arg_tys') or []) else '', 'sp': sp})
    cont = t.get('t')
    dest = t['dest']
    blk['t'] = {'k': 'goto', 't': boff, 'sp': sp}
    for cb in callee['blocks']:
        nb = {'st': _remap(cb['st'], loff, boff, poff), 't': _remap_term_blocks(_remap(cb['t'], loff, boff, poff), boff)}
        if cb.get('cleanup'):
            nb['cleanup'] = True
        if nb['t']['k'] == 'return':
            nb['st'].append({'k': 'assign', 'p': copy.deepcopy(dest), 'rv': {'k': 'use', 'o': {'k': 'move', 'p': {'l': loff, 'pr': []}}},
                             'ty': t.get('dest_ty', ''), 'sp': nb['t'].get('sp') or sp})
            nb['t'] = {'k': 'goto', 't': cont, 'sp': nb['t'].get('sp') or sp} if cont is not None else {'k': 'unreachable', 'sp': sp}
        b['blocks'].append(nb)
    # a parameter that received `&x` / `&mut x` of a caller variable (or of a field path of one): inside the inlined body
    # `*param` is that place itself, so that the callee's updates are updates of the caller's variable again
    new_blocks = b['blocks'][boff:]
    for i, a in enumerate(t['args'] if forward_refs else []):
        if a.get('k') not in ('move', 'copy') or a['p']['pr']:
            continue
        u = a['p']['l']
        ud = _single_def(b, u)
        # the reference may have been moved or re-borrowed on its way into the argument (`t1 = &mut x; t2 = &mut *t1;
        # f(move t2)`): it still refers to x
        for _hop in range(4):
            if ud is None:
                break
            rv0 = ud[2]['rv']
            if rv0.get('k') == 'use' and rv0['o'].get('k') in ('move', 'copy') and not rv0['o']['p']['pr'] and str(b['locals'][rv0['o']['p']['l']].get('ty', '')).startswith('&'):
                ud = _single_def(b, rv0['o']['p']['l'])
            elif rv0.get('k') == 'ref' and [e.get('k') for e in rv0['p']['pr']] == ['deref']:
                ud = _single_def(b, rv0['p']['l'])
            else:
                break
        if ud is None or ud[2]['rv'].get('k') != 'ref':
            continue
        tgt = ud[2]['rv']['p']
        if any(e.get('k') != 'field' for e in tgt['pr']):
            continue
        pl = loff + 1 + i
        places = []
        _places(new_blocks, places)
        whole_use = False
        for p in places:
            if p['l'] != pl:
                continue
            if p['pr'] and p['pr'][0].get('k') == 'deref':
                p['l'] = tgt['l']
                p['pr'] = copy.deepcopy(tgt['pr']) + p['pr'][1:]
            else:
                whole_use = True
        if not whole_use:
            # the parameter copy and the reference temporary are dead now
            blk['st'] = [st for st in blk['st'] if not (st.get('k') == 'assign' and st['p']['l'] == pl and not st['p']['pr'])]
            still = False
            for blk2 in b['blocks']:
                for st in blk2['st']:
                    if st.get('k') == 'assign' and st['p']['l'] == u and not st['p']['pr']:
                        continue
                    if _uses_local(st, u):
                        still = True
                if _uses_local(blk2['t'], u):
                    still = True
            if not still:
                for blk2 in b['blocks']:
                    blk2['st'] = [st for st in blk2['st'] if not (st.get('k') == 'assign' and st['p']['l'] == u and not st['p']['pr'])]


def dissolve_new_structs(raw, known_adts):
    """A struct that the audited tree does not have and that only bundles values (`struct SubpathStart { point, normal }`
    for the tuple `(Point, Vector)`, `struct FlattenCursor { cur, start }` for two locals) is read as the tuple of its
    fields: aggregates become tuple aggregates, field projections become positional, and the type name is replaced by
    the tuple type in every type string.  Only structs without methods left after inlining, without generics and not
    public are dissolved.  Returns descriptions."""
    import re
    if known_adts is None:
        return []
    done = []
    bodies_q = [b['q'] for b in raw['bodies']]
    for a in list(raw['adts']):
        q = a['q']
        if q in known_adts or a.get('kind') != 'Struct' or len(a.get('variants', [])) != 1:
            continue
        fields = a['variants'][0]['fields']
        if not fields or any(f['name'].isdigit() for f in fields):
            continue
        DERIVED = ('std::clone::Clone>::clone', 'std::fmt::Debug>::fmt', 'std::cmp::PartialEq>::eq', 'std::default::Default>::default')
        own = [bq for bq in bodies_q if bq.startswith(q + '::') or ('<' + q + ' as ') in bq or ('<' + q.replace('raqote::', '', 1) + ' as ') in bq]
        if any(not bq.endswith(DERIVED) for bq in own):
            continue          # it has behaviour of its own (methods, hand-written trait impls)
        short = q.replace('raqote::', '', 1)
        idx = {f['name']: i for i, f in enumerate(fields)}
        tup = '(' + ', '.join(f['ty'] for f in fields) + (',)' if len(fields) == 1 else ')')
        pat = re.compile(r'(?<![\w:])' + re.escape(short) + r'(?!::|\w)')

        def walk(x):
            if isinstance(x, list):
                for i, y in enumerate(x):
                    if isinstance(y, str):
                        x[i] = pat.sub(tup, y)
                    else:
                        walk(y)
            elif isinstance(x, dict):
                if x.get('k') == 'field' and x.get('adt') == q and x.get('n') in idx:
                    x['n'] = str(idx[x['n']])
                    x['adt'] = '(tuple)'
                    x.pop('v', None)
                if x.get('k') == 'agg' and x.get('ak') == 'adt' and x.get('adt') == q:
                    x['ak'] = 'tuple'
                    for kk in ('adt', 'v', 'fields', 'substs'):
                        x.pop(kk, None)
                for kk, y in list(x.items()):
                    if isinstance(y, str):
                        if kk not in ('q', 'name', 'def', 'res', 'f'):
                            x[kk] = pat.sub(tup, y)
                    else:
                        walk(y)
        for b in raw['bodies']:
            walk(b)
        raw['adts'] = [x for x in raw['adts'] if x['q'] != q]
        raw['bodies'] = [b for b in raw['bodies'] if b['q'] not in own]
        for b in raw['bodies']:
            for li, l in enumerate(list(b['locals'])):
                if l.get('ty') == tup and li > b.get('argc', 0):
                    _split_tuple_local(b, li, [f['name'] for f in fields], [f['ty'] for f in fields])
        done.append('struct %s read as the tuple %s' % (q, tup))
    return done


# ------------------------------------------------------------------ internal iteration -> loops
def _uses_local(x, n, skip=None):
    """does the JSON fragment mention local n as (the base of) a place or an index?"""
    if x is skip:
        return False
    if isinstance(x, list):
        return any(_uses_local(y, n, skip) for y in x)
    if isinstance(x, dict):
        if _is_span(x):
            return False
        if x.get('l') == n and ('pr' in x or x.get('k') == 'index'):
            return True
        return any(_uses_local(v, n, skip) for v in x.values())
    return False


def _places(x, out):
    if isinstance(x, list):
        for y in x:
            _places(y, out)
    elif isinstance(x, dict):
        if _is_span(x):
            return
        if 'l' in x and 'pr' in x and isinstance(x['pr'], list):
            out.append(x)
        for v in x.values():
            _places(v, out)


def _single_def(b, n):
    """the only statement assigning the whole local n (call destinations count as definitions): (block, index, stmt) or None"""
    hits = []
    for bi, blk in enumerate(b['blocks']):
        for si, st in enumerate(blk['st']):
            if st.get('k') == 'assign' and st['p']['l'] == n and not st['p']['pr']:
                hits.append((bi, si, st))
        t = blk['t']
        if t['k'] == 'call' and t.get('dest') and t['dest']['l'] == n:
            hits.append((bi, None, None))
    return hits[0] if len(hits) == 1 and hits[0][2] is not None else None


def normalise_internal_iteration(raw):
    """`iter.for_each(|x| body)` and `iter.fold(init, |acc, x| body)` with a closure literal of the same function are
    rewritten into the loop they stand for — `loop { match iter.next() { None => break, Some(x) => body } }` with the
    closure body inlined and its captures resolved to the captured variables — so that every rule sees one spelling of
    iteration.  The audited tree contains neither.  Returns descriptions of what was rewritten."""
    bodies = {b['q']: b for b in raw['bodies']}
    done = []
    used = set()
    for b in raw['bodies']:
        bi = 0
        while bi < len(b['blocks']):
            blk = b['blocks'][bi]
            t = blk['t']
            if t['k'] == 'call' and not blk.get('cleanup') and t.get('t') is not None:
                fn = (t.get('f') or {}).get('fn') or {}
                kind = {'std::iter::Iterator::for_each': 'for_each', 'std::iter::Iterator::fold': 'fold'}.get(fn.get('def'))
                if kind:
                    cq = _expand_internal(b, bi, kind, bodies)
                    if cq:
                        done.append('%s in %s written as a loop (closure %s inlined)' % (kind, b['q'], cq.rsplit('::', 1)[-1]))
                        used.add(cq)
            bi += 1
    if used:
        still = set()
        for b in raw['bodies']:
            s = json.dumps(b['blocks'])
            for h in used:
                if '"def": "%s"' % h in s:
                    still.add(h)
        raw['bodies'] = [b for b in raw['bodies'] if not (b['q'] in used and b['q'] not in still)]
    return done


def _resolve_captures(b, boff, env, by_ref, cagg, cl, extra_dead):
    """after a closure body was inlined at block offset boff with its environment parameter in local `env`: places that
    go through the environment are rewritten to the captured variables, and the plumbing that nothing reads any more
    (environment, closure value, capture references) is removed"""
    ops = cagg.get('ops') or []
    new_blocks = b['blocks'][boff:]
    places = []
    _places(new_blocks, places)
    for p in places:
        if p['l'] != env:
            continue
        pr = p['pr']
        k0 = 1 if by_ref else 0
        if by_ref and not (pr and pr[0].get('k') == 'deref'):
            continue
        if len(pr) <= k0 or pr[k0].get('k') != 'field' or not str(pr[k0].get('n', '')).startswith('upvar'):
            continue
        ui = pr[k0].get('i')
        if ui is None or ui >= len(ops):
            continue
        op = ops[ui]
        if op.get('k') not in ('move', 'copy') or op['p']['pr']:
            continue
        u = op['p']['l']
        rest = pr[k0 + 1:]
        ud = _single_def(b, u)
        if ud is not None and ud[2]['rv'].get('k') == 'ref' and rest and rest[0].get('k') == 'deref':
            # the capture is `&x` / `&mut x`: *capture is x itself
            tgt = ud[2]['rv']['p']
            p['l'] = tgt['l']
            p['pr'] = copy.deepcopy(tgt['pr']) + rest[1:]
        else:
            p['l'] = u
            p['pr'] = rest
    # dead plumbing: the environment parameter, the reference to the closure, the closure value and capture references
    # that nothing reads any more are removed, so that captured variables are ordinary locals again
    def drop_defs(n):
        for blk2 in b['blocks']:
            blk2['st'] = [st for st in blk2['st'] if not (st.get('k') == 'assign' and st['p']['l'] == n and not st['p']['pr'])]
    def only_defined(n):
        for blk2 in b['blocks']:
            for st in blk2['st']:
                if st.get('k') == 'assign' and st['p']['l'] == n and not st['p']['pr']:
                    if _uses_local(st['rv'], n):
                        return False
                    continue
                if st.get('k') in ('storage_live', 'storage_dead', 'live', 'dead') :
                    continue
                if _uses_local(st, n):
                    return False
            if _uses_local(blk2['t'], n):
                return False
        return True
    cap_locals = [op['p']['l'] for op in ops if op.get('k') in ('move', 'copy') and not op['p']['pr']]
    # temporaries that merely copy a capture reference (`_t = copy capture; (*_t) = ..`): *_t is the captured variable
    temps = []
    for u in cap_locals:
        ud = _single_def(b, u)
        if ud is None or ud[2]['rv'].get('k') != 'ref':
            continue
        tgt = ud[2]['rv']['p']
        for nb in new_blocks:
            for st in nb['st']:
                if st.get('k') == 'assign' and not st['p']['pr'] and st['rv'].get('k') == 'use' and st['rv']['o'].get('k') in ('copy', 'move') \
                        and st['rv']['o']['p']['l'] == u and not st['rv']['o']['p']['pr']:
                    tl = st['p']['l']
                    if _single_def(b, tl) is None:
                        continue
                    allp = []
                    _places(b['blocks'], allp)
                    for p in allp:
                        if p['l'] == tl and p['pr'] and p['pr'][0].get('k') == 'deref':
                            p['l'] = tgt['l']
                            p['pr'] = copy.deepcopy(tgt['pr']) + p['pr'][1:]
                    temps.append(tl)
    for n in temps + [env] + list(extra_dead) + [cl] + cap_locals:
        if only_defined(n):
            drop_defs(n)


def _call_def(b, n):
    """(block index, terminator) of the call whose destination is the only definition of local n, else None"""
    hits = []
    for bi2, blk in enumerate(b['blocks']):
        for st in blk['st']:
            if st.get('k') == 'assign' and st['p']['l'] == n and not st['p']['pr']:
                hits.append(None)
        t = blk['t']
        if t['k'] == 'call' and t.get('dest') and t['dest']['l'] == n and not t['dest']['pr']:
            hits.append((bi2, t))
    return hits[0] if len(hits) == 1 and hits[0] is not None else None


def _closure_of(b, op, bodies):
    """(closure local, aggregate rvalue, closure body) for an operand that is a closure literal of this function"""
    if op.get('k') not in ('move', 'copy') or op['p']['pr']:
        return None
    cl = op['p']['l']
    d = _single_def(b, cl)
    if d is None or d[2]['rv'].get('k') != 'agg' or d[2]['rv'].get('ak') != 'closure':
        return None
    cb = bodies.get(d[2]['rv'].get('def'))
    if cb is None:
        return None
    return cl, d[2]['rv'], cb


def _expand_internal(b, bi, kind, bodies):
    blk = b['blocks'][bi]
    t = blk['t']
    args = t['args']
    want = 2 if kind == 'for_each' else 3
    if len(args) != want:
        return None
    fin_c = _closure_of(b, args[-1], bodies)
    if fin_c is None or fin_c[2].get('argc') != want:
        return None
    sp = t.get('sp')
    # adaptor chain between the base iterator and the consumer: .map(f) / .filter(p), outermost first
    chain = []
    base_op = args[0]
    for _ in range(6):
        if base_op.get('k') not in ('move', 'copy') or base_op['p']['pr']:
            break
        l0 = _trace_local(b, base_op, hops=3)
        cd = _call_def(b, l0) if l0 is not None else None
        if cd is None:
            break
        fn = (cd[1].get('f') or {}).get('fn') or {}
        ak = {'std::iter::Iterator::map': 'map', 'std::iter::Iterator::filter': 'filter'}.get(fn.get('def'))
        if ak is None or len(cd[1]['args']) != 2:
            break
        ac = _closure_of(b, cd[1]['args'][1], bodies)
        if ac is None or ac[2].get('argc') != 2:
            break
        chain.append((ak, ac, cd))
        base_op = cd[1]['args'][0]
    # the adaptor objects are not built any more: their constructor calls become plain jumps, the base iterator is used
    for ak, ac, cd in chain:
        cblk = b['blocks'][cd[0]]
        cblk['t'] = {'k': 'goto', 't': cd[1]['t'], 'sp': cd[1].get('sp')}
    it_ty = '?'
    if base_op.get('k') in ('move', 'copy') and not base_op['p']['pr']:
        it_ty = b['locals'][base_op['p']['l']].get('ty', '?')
    stages = [(ak, ac) for ak, ac, cd in reversed(chain)] + [(kind, fin_c)]
    first_cb = stages[0][1][2]
    item_ty = first_cb['locals'][first_cb['argc']]['ty']
    if stages[0][0] == 'filter' and item_ty.startswith('&'):
        item_ty = item_ty[1:]

    def newlocal(ty):
        b['locals'].append({'ty': ty})
        return len(b['locals']) - 1
    L_it, L_ref, L_opt, L_d = newlocal(it_ty), newlocal('&mut ' + it_ty), newlocal('std::option::Option<%s>' % item_ty), newlocal('isize')
    L_acc = newlocal(t.get('dest_ty', '?')) if kind == 'fold' else None
    P = lambda l, pr=None: {'l': l, 'pr': pr or []}
    cont = t['t']
    dest = t['dest']
    blk['st'].append({'k': 'assign', 'p': P(L_it), 'rv': {'k': 'use', 'o': copy.deepcopy(base_op)}, 'ty': it_ty, 'sp': sp})
    if kind == 'fold':
        blk['st'].append({'k': 'assign', 'p': P(L_acc), 'rv': {'k': 'use', 'o': copy.deepcopy(args[1])}, 'ty': t.get('dest_ty', '?'), 'sp': sp})
    N1 = len(b['blocks'])
    N2, N4, N5 = N1 + 1, N1 + 2, N1 + 3
    S0 = N1 + 4
    blk['t'] = {'k': 'goto', 't': N1, 'sp': sp}
    nextfn = {'k': 'const', 'ty': 'fn(&mut %s) -> Option<%s> {<%s as std::iter::Iterator>::next}' % (it_ty, item_ty, it_ty),
              'fn': {'def': 'std::iter::Iterator::next', 'path': 'std::iter::Iterator::next', 'name': 'next', 'local': False, 'substs': [it_ty],
                     'subst_heads': [it_ty.split('<')[0]], 'trait': 'std::iter::Iterator', 'self': it_ty, 'self_head': it_ty.split('<')[0], 'res_kind': 'item'}}
    b['blocks'].append({'st': [{'k': 'assign', 'p': P(L_ref), 'rv': {'k': 'ref', 'mut': True, 'p': P(L_it)}, 'ty': '&mut ' + it_ty, 'sp': sp}],
                        't': {'k': 'call', 'f': nextfn, 'args': [{'k': 'move', 'p': P(L_ref)}], 'arg_tys': ['&mut ' + it_ty], 'dest_ty': 'std::option::Option<%s>' % item_ty, 'dest': P(L_opt), 't': N2, 'sp': sp}})
    b['blocks'].append({'st': [{'k': 'assign', 'p': P(L_d), 'rv': {'k': 'discr', 'adt': 'std::option::Option', 'p': P(L_opt)}, 'ty': 'isize', 'sp': sp}],
                        't': {'k': 'switch', 'o': {'k': 'move', 'p': P(L_d)}, 'ty': 'isize', 'targets': [['0', N4], ['1', S0]], 'otherwise': N5, 'sp': sp}})
    fin = {'k': 'use', 'o': {'k': 'move', 'p': P(L_acc)}} if kind == 'fold' else {'k': 'use', 'o': {'k': 'const', 'ty': '()', 'text': 'Val(ZeroSized, ())'}}
    b['blocks'].append({'st': [{'k': 'assign', 'p': copy.deepcopy(dest), 'rv': fin, 'ty': t.get('dest_ty', '()'), 'sp': sp}], 't': {'k': 'goto', 't': cont, 'sp': sp}})
    b['blocks'].append({'st': [], 't': {'k': 'unreachable', 'sp': sp}})
    # stage blocks: S0 .. ; a filter stage has an extra block that tests its result
    some0 = [{'k': 'downcast', 'v': 'Some', 'adt': 'std::option::Option'}, {'k': 'field', 'i': 0, 'n': '0', 'adt': 'std::option::Option', 'v': 'Some'}]
    cur_item = newlocal(item_ty)
    pre = [{'k': 'assign', 'p': P(cur_item), 'rv': {'k': 'use', 'o': {'k': 'move', 'p': P(L_opt, some0)}}, 'ty': item_ty, 'sp': sp}]
    plan = []            # (block index of the synthetic call, stage)
    nblocks = len(b['blocks'])
    idx = nblocks
    layout = []
    for ak, ac in stages:
        layout.append(idx)
        idx += 2 if ak == 'filter' else 1
    for si, (ak, ac) in enumerate(stages):
        cl, cagg, cb = ac
        env_ty = cb['locals'][1]['ty']
        by_ref = env_ty.startswith('&')
        cref = newlocal(env_ty)
        st = list(pre)
        pre = []
        if by_ref:
            st.append({'k': 'assign', 'p': P(cref), 'rv': {'k': 'ref', 'mut': env_ty.startswith('&mut'), 'p': P(cl)}, 'ty': env_ty, 'sp': sp})
        else:
            st.append({'k': 'assign', 'p': P(cref), 'rv': {'k': 'use', 'o': {'k': 'move', 'p': P(cl)}}, 'ty': env_ty, 'sp': sp})
        nxt = layout[si + 1] if si + 1 < len(stages) else N1
        fnc = {'k': 'const', 'ty': 'closure', 'fn': {'def': cb['q'], 'path': cb['q'], 'name': 'closure', 'local': True}}
        if ak == 'map':
            out_ty = cb['locals'][0]['ty']
            out = newlocal(out_ty)
            term = {'k': 'call', 'f': fnc, 'args': [{'k': 'move', 'p': P(cref)}, {'k': 'move', 'p': P(cur_item)}], 'arg_tys': [env_ty, '?'], 'dest_ty': out_ty, 'dest': P(out), 't': nxt, 'sp': sp}
            b['blocks'].append({'st': st, 't': term})
            cur_item = out
        elif ak == 'filter':
            rty = cb['locals'][2]['ty']
            r = newlocal(rty)
            flag = newlocal('bool')
            st.append({'k': 'assign', 'p': P(r), 'rv': {'k': 'ref', 'mut': False, 'p': P(cur_item)}, 'ty': rty, 'sp': sp})
            term = {'k': 'call', 'f': fnc, 'args': [{'k': 'move', 'p': P(cref)}, {'k': 'move', 'p': P(r)}], 'arg_tys': [env_ty, rty], 'dest_ty': 'bool', 'dest': P(flag), 't': layout[si] + 1, 'sp': sp}
            b['blocks'].append({'st': st, 't': term})
            b['blocks'].append({'st': [], 't': {'k': 'switch', 'o': {'k': 'move', 'p': P(flag)}, 'ty': 'bool', 'targets': [['0', N1]], 'otherwise': nxt, 'sp': sp}})
        else:
            cargs = [{'k': 'move', 'p': P(cref)}] + ([{'k': 'move', 'p': P(L_acc)}] if kind == 'fold' else []) + [{'k': 'move', 'p': P(cur_item)}]
            cdest = P(L_acc) if kind == 'fold' else P(newlocal('()'))
            term = {'k': 'call', 'f': fnc, 'args': cargs, 'arg_tys': [env_ty] + (['?'] if kind == 'fold' else []) + ['?'], 'dest_ty': '?', 'dest': cdest, 't': N1, 'sp': sp}
            b['blocks'].append({'st': st, 't': term})
        plan.append((layout[si], cl, cagg, cb, by_ref, cref))
    for bidx, cl, cagg, cb, by_ref, cref in plan:
        loff = len(b['locals'])
        boff = len(b['blocks'])
        _inline_at(b, bidx, cb, forward_refs=False)
        _resolve_captures(b, boff, loff + 1, by_ref, cagg, cl, [cref])
    if kind == 'fold' and str(t.get('dest_ty', '')).startswith('('):
        # the accumulator tuple threads separate state variables through the loop: make them variables again
        _split_tuple_group(b, L_acc)
    return fin_c[2]['q']


# ------------------------------------------------------------------ jump threading after inlining
def _preds(b):
    preds = {}
    for i, blk in enumerate(b['blocks']):
        t = blk['t']
        succ = []
        if t['k'] == 'goto':
            succ = [t['t']]
        elif t['k'] == 'switch':
            succ = [x[1] for x in t['targets']] + [t['otherwise']]
        elif t['k'] in ('call', 'drop', 'assert') and 't' in t and t['t'] is not None:
            succ = [t['t']]
        for s2 in succ:
            preds.setdefault(s2, []).append(i)
    return preds


def _reachable(b):
    seen = {0}
    st = [0]
    while st:
        i = st.pop()
        t = b['blocks'][i]['t']
        succ = []
        if t['k'] == 'goto':
            succ = [t['t']]
        elif t['k'] == 'switch':
            succ = [x[1] for x in t['targets']] + [t['otherwise']]
        elif t['k'] in ('call', 'drop', 'assert') and t.get('t') is not None:
            succ = [t['t']]
        for s2 in succ:
            if s2 not in seen:
                seen.add(s2)
                st.append(s2)
    return seen


def thread_jumps(b, adts):
    """After a helper that returns an enum (`Option`, `bool`-like enums) was inlined, its `return None` / `return Some(x)`
    sites all flow into one block that immediately switches on the discriminant of the returned value.  Each such
    predecessor jumps to the arm its variant selects instead (the join's copy statements are repeated in the predecessor),
    so that what guarded the `Some` exit of the helper guards the `Some` arm of the caller again.  Applied only to
    bodies the inliner changed."""
    VAR = {('std::option::Option', 'None'): 0, ('std::option::Option', 'Some'): 1, ('std::result::Result', 'Ok'): 0, ('std::result::Result', 'Err'): 1,
           ('core::option::Option', 'None'): 0, ('core::option::Option', 'Some'): 1}
    for a in adts:
        for v in a.get('variants', []):
            VAR[(a['q'], v['name'])] = v.get('idx')
    blocks = b['blocks']
    for _round in range(6):
        changed = False
        # merge straight-line chains A -> B where B has no other predecessor
        reach = _reachable(b)
        preds = _preds(b)
        for A in sorted(reach):
            ta = blocks[A]['t']
            while ta['k'] == 'goto' and ta['t'] != A and ta['t'] != 0 and len([p for p in preds.get(ta['t'], []) if p in reach]) == 1 and not blocks[ta['t']].get('cleanup') and not blocks[A].get('cleanup'):
                B = ta['t']
                blocks[A]['st'] = blocks[A]['st'] + blocks[B]['st']
                blocks[A]['t'] = blocks[B]['t']
                blocks[B] = {'st': [], 't': {'k': 'unreachable', 'sp': ta.get('sp')}}
                ta = blocks[A]['t']
                preds = _preds(b)
                reach = _reachable(b)
                changed = True
        reach = _reachable(b)
        preds = _preds(b)
        for J in sorted(reach):
            blk = blocks[J]
            t = blk['t']
            if t['k'] != 'switch' or t['o'].get('k') not in ('move', 'copy') or t['o']['p']['pr']:
                continue
            dl = t['o']['p']['l']
            # statements: copies ... ; d = discr(L)
            sts = [st for st in blk['st'] if st.get('k') == 'assign']
            if len(sts) != len(blk['st']) or not sts:
                continue
            last = sts[-1]
            if last['p']['l'] != dl or last['p']['pr'] or last['rv'].get('k') != 'discr' or last['rv']['p']['pr']:
                continue
            root = last['rv']['p']['l']
            ok = True
            for st in reversed(sts[:-1]):
                rv = st['rv']
                if st['p']['pr'] or rv.get('k') != 'use' or rv['o'].get('k') not in ('move', 'copy') or rv['o']['p']['pr']:
                    ok = False
                    break
                if st['p']['l'] == root:
                    root = rv['o']['p']['l']
            if not ok:
                continue
            for P in list(preds.get(J, [])):
                if P == J or P not in reach:
                    continue
                pb = blocks[P]
                if pb['t']['k'] != 'goto':
                    continue
                v = None
                for st in reversed(pb['st']):
                    if st.get('k') == 'assign' and st['p']['l'] == root:
                        if not st['p']['pr'] and st['rv'].get('k') == 'agg' and st['rv'].get('ak') == 'adt':
                            v = (st['rv'].get('adt'), st['rv'].get('v'))
                        break
                if v is None or VAR.get(v) is None:
                    continue
                idx = str(VAR[v])
                tgt = dict((x[0], x[1]) for x in t['targets']).get(idx, t['otherwise'])
                pb['st'] = pb['st'] + copy.deepcopy(blk['st'])
                pb['t'] = {'k': 'goto', 't': tgt, 'sp': pb['t'].get('sp')}
                changed = True
        if not changed:
            break


def inline_closure_calls(raw):
    """`f(args)` where f is a closure literal of the same function that reached the call through moves only (typically
    after a higher-order private helper `fn with_x(&mut self, f: impl FnOnce(..))` was inlined by A11): the closure body
    is inlined at the call and its captures resolved.  Returns descriptions."""
    bodies = {b['q']: b for b in raw['bodies']}
    done = []
    used = set()
    for b in raw['bodies']:
        bi = 0
        while bi < len(b['blocks']):
            blk = b['blocks'][bi]
            t = blk['t']
            if t['k'] == 'call' and not blk.get('cleanup') and t.get('t') is not None:
                fn = (t.get('f') or {}).get('fn') or {}
                d = fn.get('def') or ''
                if d.split('::')[-1] in ('call_once', 'call_mut', 'call') and 'ops::' in d and '::Fn' in d and len(t['args']) == 2:
                    cq = _inline_closure_call(b, bi, bodies)
                    if cq:
                        done.append('closure %s called in %s: body inlined' % (cq.rsplit('::', 1)[-1], b['q']))
                        used.add(cq)
            bi += 1
    if used:
        still = set()
        for b in raw['bodies']:
            s2 = json.dumps(b['blocks'])
            for h in used:
                if '"def": "%s"' % h in s2:
                    still.add(h)
        raw['bodies'] = [b for b in raw['bodies'] if not (b['q'] in used and b['q'] not in still)]
        # the closures that remain keep the numbers the audited tree gives them: `f::{closure#1}` is `f::{closure#0}`
        # again once the closure in front of it has been dissolved
        import re
        gone = sorted(h for h in used if h not in still)
        parents = set(h.rsplit('::', 1)[0] for h in gone if re.search(r'::\{closure#\d+\}$', h))
        ren = []
        for par in parents:
            have = sorted((int(re.search(r'#(\d+)\}$', b['q']).group(1)), b['q']) for b in raw['bodies'] if b['q'].rsplit('::', 1)[0] == par and re.search(r'::\{closure#\d+\}$', b['q']))
            for new_i, (old_i, q) in enumerate(have):
                if new_i != old_i:
                    ren.append((q, '%s::{closure#%d}' % (par, new_i)))
        if ren:
            text = json.dumps(raw['bodies'])
            for oldq, newq in ren:        # ascending: the target number is always free by the time it is taken
                for a, b2 in ((oldq, newq), (oldq.replace('raqote::', '', 1), newq.replace('raqote::', '', 1))):
                    text = text.replace(json.dumps(a)[1:-1], json.dumps(b2)[1:-1])
            raw['bodies'] = json.loads(text)
            done.append('closures renumbered: %s' % ', '.join('%s -> %s' % (a.rsplit('::', 1)[-1], b2.rsplit('::', 1)[-1]) for a, b2 in ren))
    return done


def _trace_local(b, op, hops=6):
    """follow `x = move y` / `x = &y` chains of single-definition locals from an operand: the final local"""
    if op.get('k') not in ('move', 'copy') or op['p']['pr']:
        return None
    l = op['p']['l']
    for _ in range(hops):
        d = _single_def(b, l)
        if d is None:
            return l
        rv = d[2]['rv']
        if rv.get('k') == 'use' and rv['o'].get('k') in ('move', 'copy') and not rv['o']['p']['pr']:
            l = rv['o']['p']['l']
        elif rv.get('k') == 'ref' and not rv['p']['pr']:
            l = rv['p']['l']
        elif rv.get('k') == 'ref' and len(rv['p']['pr']) == 1 and rv['p']['pr'][0].get('k') == 'deref':
            l = rv['p']['l']
        else:
            return l
    return l


def _inline_closure_call(b, bi, bodies):
    blk = b['blocks'][bi]
    t = blk['t']
    cl = _trace_local(b, t['args'][0])
    if cl is None:
        return None
    d = _single_def(b, cl)
    if d is None or d[2]['rv'].get('k') != 'agg' or d[2]['rv'].get('ak') != 'closure':
        return None
    cagg = d[2]['rv']
    cq = cagg.get('def')
    cb = bodies.get(cq)
    if cb is None or cb['q'] == b['q']:
        return None
    tl = _trace_local(b, t['args'][1], hops=2)
    td = _single_def(b, tl) if tl is not None else None
    if td is None or td[2]['rv'].get('k') != 'agg' or td[2]['rv'].get('ak') != 'tuple':
        return None
    actual = td[2]['rv']['ops']
    if cb.get('argc') != 1 + len(actual):
        return None
    sp = t.get('sp')
    env_ty = cb['locals'][1]['ty']
    by_ref = env_ty.startswith('&')
    cref = len(b['locals'])
    b['locals'].append({'ty': env_ty})
    if by_ref:
        blk['st'].append({'k': 'assign', 'p': {'l': cref, 'pr': []}, 'rv': {'k': 'ref', 'mut': env_ty.startswith('&mut'), 'p': {'l': cl, 'pr': []}}, 'ty': env_ty, 'sp': sp})
    else:
        blk['st'].append({'k': 'assign', 'p': {'l': cref, 'pr': []}, 'rv': {'k': 'use', 'o': {'k': 'move', 'p': {'l': cl, 'pr': []}}}, 'ty': env_ty, 'sp': sp})
    t['f'] = {'k': 'const', 'ty': 'closure', 'fn': {'def': cq, 'path': cq, 'name': 'closure', 'local': True}}
    t['args'] = [{'k': 'move', 'p': {'l': cref, 'pr': []}}] + copy.deepcopy(actual)
    t['arg_tys'] = [env_ty] + [cb['locals'][2 + i]['ty'] for i in range(len(actual))]
    loff = len(b['locals'])
    boff = len(b['blocks'])
    _inline_at(b, bi, cb, forward_refs=False)
    _resolve_captures(b, boff, loff + 1, by_ref, cagg, cl, [cref])
    return cq


def _split_tuple_local(b, n, names, tys):
    return _split_tuple_group(b, n, names, tys)


def _split_tuple_group(b, seed, names=None, tys=None):
    """scalar replacement: tuple-valued locals that are only ever built from aggregates, moved whole into one another and
    read/written field by field become one local per field, so that values a struct or a fold accumulator bundled are
    ordinary variables again.  The group is the set of locals connected to `seed` by whole moves; any other whole use
    (passing the tuple to a call, taking its address) leaves everything as it is."""
    def is_fieldproj(p):
        return bool(p['pr']) and p['pr'][0].get('k') == 'field' and p['pr'][0].get('adt') == '(tuple)'
    ty = b['locals'][seed].get('ty')
    group = {seed}
    grew = True
    while grew:
        grew = False
        for blk in b['blocks']:
            for st in blk['st']:
                if st.get('k') == 'assign' and not st['p']['pr'] and st['rv'].get('k') == 'use' and st['rv']['o'].get('k') in ('move', 'copy') and not st['rv']['o']['p']['pr']:
                    a, c = st['p']['l'], st['rv']['o']['p']['l']
                    if (a in group) != (c in group) and b['locals'][a].get('ty') == ty and b['locals'][c].get('ty') == ty:
                        group |= {a, c}
                        grew = True
    if any(g <= b.get('argc', 0) for g in group):
        return False
    width = None
    for blk in b['blocks']:
        for st in blk['st']:
            whole_ok = False
            if st.get('k') == 'assign' and st['p']['l'] in group and not st['p']['pr']:
                rv = st['rv']
                if rv.get('k') == 'agg' and rv.get('ak') == 'tuple':
                    if width is None:
                        width = len(rv['ops'])
                    if len(rv['ops']) != width or any(_uses_local(rv, g) for g in group):
                        return False
                    whole_ok = True
                elif rv.get('k') == 'use' and rv['o'].get('k') in ('move', 'copy') and not rv['o']['p']['pr'] and rv['o']['p']['l'] in group:
                    whole_ok = True
                else:
                    return False
            ps = []
            _places(st, ps)
            for p in ps:
                if p['l'] in group and not is_fieldproj(p):
                    if whole_ok and (p is st['p'] or (st['rv'].get('k') == 'use' and p is st['rv']['o']['p'])):
                        continue
                    return False
        ps = []
        _places(blk['t'], ps)
        for p in ps:
            if p['l'] in group and not is_fieldproj(p):
                return False
    if names is None:
        if width is None:
            return False
        names = [None] * width
        tys = ['?'] * width
    width = len(names)
    new = {}
    for g in sorted(group):
        base = b['locals'][g].get('name')
        new[g] = []
        for i in range(width):
            nm = names[i] if names[i] else (('%s.%d' % (base, i)) if base else None)
            l = {'ty': tys[i]}
            if nm:
                l['name'] = nm
            b['locals'].append(l)
            new[g].append(len(b['locals']) - 1)
    for blk in b['blocks']:
        out = []
        for st in blk['st']:
            if st.get('k') == 'assign' and st['p']['l'] in group and not st['p']['pr']:
                g = st['p']['l']
                if st['rv'].get('k') == 'agg':
                    for i, op in enumerate(st['rv']['ops']):
                        out.append({'k': 'assign', 'p': {'l': new[g][i], 'pr': []}, 'rv': {'k': 'use', 'o': op}, 'ty': tys[i], 'sp': st.get('sp')})
                else:
                    src = st['rv']['o']['p']['l']
                    for i in range(width):
                        out.append({'k': 'assign', 'p': {'l': new[g][i], 'pr': []}, 'rv': {'k': 'use', 'o': {'k': st['rv']['o']['k'], 'p': {'l': new[src][i], 'pr': []}}}, 'ty': tys[i], 'sp': st.get('sp')})
                continue
            out.append(st)
        blk['st'] = out
    places = []
    _places(b['blocks'], places)
    for p in places:
        if p['l'] in group and p['pr'] and p['pr'][0].get('k') == 'field':
            i = int(p['pr'][0]['n'])
            p['l'] = new[p['l']][i]
            p['pr'] = p['pr'][1:]
    return True


def normalise_mem_ops(raw):
    """`opt.replace(v)`, `opt.take()`, `mem::replace(&mut x, v)` on a place of this function are the read and the
    assignment they stand for: `old = x; x = Some(v) / None / v`.  The audited tree uses none of them.  Returns
    descriptions."""
    done = []
    KINDS = {'std::option::Option::<T>::replace': 'opt_replace', 'std::option::Option::<T>::take': 'opt_take',
             'std::mem::replace': 'replace', 'core::mem::replace': 'replace',
             'std::option::Option::<T>::get_or_insert': 'opt_goi', 'std::option::Option::<T>::get_or_insert_with': 'opt_goiw'}
    for b in raw['bodies']:
        for blk in list(b['blocks']):
            t = blk['t']
            if t['k'] != 'call' or blk.get('cleanup') or t.get('t') is None:
                continue
            fn = (t.get('f') or {}).get('fn') or {}
            kind = KINDS.get(fn.get('def'))
            if kind is None:
                continue
            a0 = t['args'][0]
            if a0.get('k') not in ('move', 'copy') or a0['p']['pr']:
                continue
            u = a0['p']['l']
            ud = _single_def(b, u)
            if ud is None or ud[2]['rv'].get('k') != 'ref':
                continue
            P = ud[2]['rv']['p']
            if any(e.get('k') not in ('field', 'deref') for e in P['pr']):
                continue
            sp = t.get('sp')
            dest = t['dest']
            substs = fn.get('substs') or []
            if kind in ('opt_goi', 'opt_goiw'):
                # `x.get_or_insert(v)` / `x.get_or_insert_with(f)`: if x is None { x = Some(v / f()) }; &mut x.0
                T = substs[0] if substs else '?'
                optty = 'std::option::Option<%s>' % T
                dl = len(b['locals']); b['locals'].append({'ty': 'isize'})
                n0 = len(b['blocks'])
                some_bb = {'st': [{'k': 'assign', 'p': copy.deepcopy(dest), 'rv': {'k': 'ref', 'mut': True, 'p': {'l': P['l'], 'pr': copy.deepcopy(P['pr']) + [{'k': 'downcast', 'v': 'Some', 'adt': 'std::option::Option'}, {'k': 'field', 'i': 0, 'n': '0', 'adt': 'std::option::Option', 'v': 'Some'}]}},
                                    'ty': t.get('dest_ty', '&mut ' + T), 'sp': sp}], 't': {'k': 'goto', 't': t['t'], 'sp': sp}}
                if kind == 'opt_goi':
                    none_bbs = [{'st': [{'k': 'assign', 'p': copy.deepcopy(P), 'rv': {'k': 'agg', 'ak': 'adt', 'adt': 'std::option::Option', 'v': 'Some', 'fields': ['0'], 'substs': [T], 'ops': [copy.deepcopy(t['args'][1])]}, 'ty': optty, 'sp': sp}],
                                 't': {'k': 'goto', 't': n0, 'sp': sp}}]
                else:
                    tup = len(b['locals']); b['locals'].append({'ty': '()'})
                    tv = len(b['locals']); b['locals'].append({'ty': T})
                    call = {'k': 'call', 'f': {'k': 'const', 'ty': 'FnOnce::call_once', 'fn': {'def': 'std::ops::FnOnce::call_once', 'path': 'std::ops::FnOnce::call_once', 'name': 'call_once', 'local': False, 'substs': [], 'subst_heads': [], 'res_kind': 'item'}},
                            'args': [copy.deepcopy(t['args'][1]), {'k': 'move', 'p': {'l': tup, 'pr': []}}], 'arg_tys': [(t.get('arg_tys') or ['', ''])[1], '()'], 'dest_ty': T, 'dest': {'l': tv, 'pr': []}, 't': n0 + 2, 'sp': sp}
                    none_bbs = [{'st': [{'k': 'assign', 'p': {'l': tup, 'pr': []}, 'rv': {'k': 'agg', 'ak': 'tuple', 'ops': []}, 'ty': '()', 'sp': sp}], 't': call},
                                {'st': [{'k': 'assign', 'p': copy.deepcopy(P), 'rv': {'k': 'agg', 'ak': 'adt', 'adt': 'std::option::Option', 'v': 'Some', 'fields': ['0'], 'substs': [T], 'ops': [{'k': 'move', 'p': {'l': tv, 'pr': []}}]}, 'ty': optty, 'sp': sp}],
                                 't': {'k': 'goto', 't': n0, 'sp': sp}}]
                b['blocks'].append(some_bb)
                b['blocks'].extend(none_bbs)
                blk['st'].append({'k': 'assign', 'p': {'l': dl, 'pr': []}, 'rv': {'k': 'discr', 'adt': 'std::option::Option', 'p': copy.deepcopy(P)}, 'ty': 'isize', 'sp': sp})
                blk['t'] = {'k': 'switch', 'o': {'k': 'move', 'p': {'l': dl, 'pr': []}}, 'ty': 'isize', 'targets': [['1', n0]], 'otherwise': n0 + 1, 'sp': sp}
                done.append('%s in %s written as test + assignment' % (fn.get('def').split('::')[-1], b['q']))
                continue
            if kind == 'opt_replace':
                newv = {'k': 'agg', 'ak': 'adt', 'adt': 'std::option::Option', 'v': 'Some', 'fields': ['0'], 'substs': substs[:1], 'ops': [copy.deepcopy(t['args'][1])]}
            elif kind == 'opt_take':
                newv = {'k': 'agg', 'ak': 'adt', 'adt': 'std::option::Option', 'v': 'None', 'fields': [], 'substs': substs[:1], 'ops': []}
            else:
                newv = {'k': 'use', 'o': copy.deepcopy(t['args'][1])}
            blk['st'].append({'k': 'assign', 'p': copy.deepcopy(dest), 'rv': {'k': 'use', 'o': {'k': 'copy', 'p': copy.deepcopy(P)}}, 'ty': t.get('dest_ty', '?'), 'sp': sp})
            blk['st'].append({'k': 'assign', 'p': copy.deepcopy(P), 'rv': newv, 'ty': t.get('dest_ty', '?'), 'sp': sp})
            blk['t'] = {'k': 'goto', 't': t['t'], 'sp': sp}
            # the reference temporary is dead now
            still = False
            for blk2 in b['blocks']:
                for st in blk2['st']:
                    if st.get('k') == 'assign' and st['p']['l'] == u and not st['p']['pr']:
                        continue
                    if _uses_local(st, u):
                        still = True
                if _uses_local(blk2['t'], u):
                    still = True
            if not still:
                for blk2 in b['blocks']:
                    blk2['st'] = [st for st in blk2['st'] if not (st.get('k') == 'assign' and st['p']['l'] == u and not st['p']['pr'])]
            done.append('%s in %s written as read + assignment' % (fn.get('def').split('::')[-1], b['q']))
    return done


def normalise_option_filter(raw):
    """`opt.filter(|x| cond)` with a closure literal is the match it stands for: None stays None, Some(x) stays Some(x)
    when cond holds and becomes None otherwise; the closure is inlined.  (The audited tree has no Option::filter.)
    Returns descriptions."""
    bodies = {b['q']: b for b in raw['bodies']}
    done = []
    used = set()
    for b in raw['bodies']:
        bi = 0
        while bi < len(b['blocks']):
            blk = b['blocks'][bi]
            t = blk['t']
            bi += 1
            if t['k'] != 'call' or blk.get('cleanup') or t.get('t') is None:
                continue
            fn = (t.get('f') or {}).get('fn') or {}
            if fn.get('def') != 'std::option::Option::<T>::filter' or len(t['args']) != 2:
                continue
            oc = _closure_of(b, t['args'][1], bodies)
            a0 = t['args'][0]
            if oc is None or oc[2].get('argc') != 2 or a0.get('k') not in ('move', 'copy') or a0['p']['pr']:
                continue
            cl, cagg, cb = oc
            sp = t.get('sp')
            opt = a0['p']['l']
            dest = t['dest']
            cont = t['t']
            oty = t.get('dest_ty', '?')
            env_ty = cb['locals'][1]['ty']
            by_ref = env_ty.startswith('&')
            rty = cb['locals'][2]['ty']

            def newlocal(ty):
                b['locals'].append({'ty': ty})
                return len(b['locals']) - 1
            L_d, L_ref, L_cref, L_flag = newlocal('isize'), newlocal(rty), newlocal(env_ty), newlocal('bool')
            P = lambda l, pr=None: {'l': l, 'pr': pr or []}
            some0 = [{'k': 'downcast', 'v': 'Some', 'adt': 'std::option::Option'}, {'k': 'field', 'i': 0, 'n': '0', 'adt': 'std::option::Option', 'v': 'Some'}]
            substs = (fn.get('substs') or [])[:1]
            M1 = len(b['blocks'])
            MN, MS, MF, MY, MU = M1 + 1, M1 + 2, M1 + 3, M1 + 4, M1 + 5
            blk['t'] = {'k': 'goto', 't': M1, 'sp': sp}
            b['blocks'].append({'st': [{'k': 'assign', 'p': P(L_d), 'rv': {'k': 'discr', 'adt': 'std::option::Option', 'p': P(opt)}, 'ty': 'isize', 'sp': sp}],
                                't': {'k': 'switch', 'o': {'k': 'move', 'p': P(L_d)}, 'ty': 'isize', 'targets': [['0', MN], ['1', MS]], 'otherwise': MU, 'sp': sp}})
            b['blocks'].append({'st': [{'k': 'assign', 'p': copy.deepcopy(dest), 'rv': {'k': 'agg', 'ak': 'adt', 'adt': 'std::option::Option', 'v': 'None', 'fields': [], 'substs': substs, 'ops': []}, 'ty': oty, 'sp': sp}],
                                't': {'k': 'goto', 't': cont, 'sp': sp}})
            st = [{'k': 'assign', 'p': P(L_ref), 'rv': {'k': 'ref', 'mut': False, 'p': P(opt, some0)}, 'ty': rty, 'sp': sp}]
            if by_ref:
                st.append({'k': 'assign', 'p': P(L_cref), 'rv': {'k': 'ref', 'mut': env_ty.startswith('&mut'), 'p': P(cl)}, 'ty': env_ty, 'sp': sp})
            else:
                st.append({'k': 'assign', 'p': P(L_cref), 'rv': {'k': 'use', 'o': {'k': 'move', 'p': P(cl)}}, 'ty': env_ty, 'sp': sp})
            b['blocks'].append({'st': st, 't': {'k': 'call', 'f': {'k': 'const', 'ty': 'closure', 'fn': {'def': cb['q'], 'path': cb['q'], 'name': 'closure', 'local': True}},
                                                'args': [{'k': 'move', 'p': P(L_cref)}, {'k': 'move', 'p': P(L_ref)}], 'arg_tys': [env_ty, rty], 'dest_ty': 'bool', 'dest': P(L_flag), 't': MF, 'sp': sp}})
            b['blocks'].append({'st': [], 't': {'k': 'switch', 'o': {'k': 'move', 'p': P(L_flag)}, 'ty': 'bool', 'targets': [['0', MN]], 'otherwise': MY, 'sp': sp}})
            b['blocks'].append({'st': [{'k': 'assign', 'p': copy.deepcopy(dest), 'rv': {'k': 'agg', 'ak': 'adt', 'adt': 'std::option::Option', 'v': 'Some', 'fields': ['0'], 'substs': substs,
                                                                                    'ops': [{'k': 'move', 'p': P(opt, some0)}]}, 'ty': oty, 'sp': sp}],
                                't': {'k': 'goto', 't': cont, 'sp': sp}})
            b['blocks'].append({'st': [], 't': {'k': 'unreachable', 'sp': sp}})
            loff = len(b['locals'])
            boff = len(b['blocks'])
            _inline_at(b, MS, cb, forward_refs=False)
            _resolve_captures(b, boff, loff + 1, by_ref, cagg, cl, [L_cref])
            thread_jumps(b, raw.get('adts', []))
            used.add(cb['q'])
            done.append('Option::filter in %s written as a match (closure inlined)' % b['q'])
    if used:
        still = set()
        for b in raw['bodies']:
            s2 = json.dumps(b['blocks'])
            for h in used:
                if '"def": "%s"' % h in s2:
                    still.add(h)
        raw['bodies'] = [b for b in raw['bodies'] if not (b['q'] in used and b['q'] not in still)]
    return done


def split_tuple_locals(raw, known=None):
    """`let (a, b, c) = if cond { (x1, y1, z1) } else { (x2, y2, z2) };` keeps three values in one tuple-typed temporary
    that is only ever built from aggregates and read by field: the temporary is split into one local per component
    (scalar replacement), so that each component is an ordinary variable with its own definitions.  Returns
    descriptions."""
    done = []
    for b in raw['bodies']:
        cands = []
        for li, l in enumerate(b['locals']):
            ty = l.get('ty') or ''
            if li > b.get('argc', 0) and li != 0 and ty.startswith('(') and ty.endswith(')') and ',' in ty:
                cands.append(li)
        if not cands:
            continue
        # only locals with at least two whole aggregate definitions are worth it (a join of alternatives)
        ndefs = {}
        for blk in b['blocks']:
            for st in blk['st']:
                if st.get('k') == 'assign' and not st['p']['pr'] and st['p']['l'] in cands and st['rv'].get('k') == 'agg' and st['rv'].get('ak') == 'tuple':
                    ndefs[st['p']['l']] = ndefs.get(st['p']['l'], 0) + 1
        audited = set(((known or {}).get(b['q']) or {}).get('tuple_joins') or [])
        for li in cands:
            # a join the audited version of this function has as well is left as the rules know it
            if ndefs.get(li, 0) >= 2 and li < len(b['locals']) and b['locals'][li].get('ty') not in audited:
                if _split_tuple_group(b, li):
                    done.append('tuple temporary _%d of %s split into its components' % (li, b['q']))
    return done
