"""Facts-level inlining of *new* private helper functions (A11).

Rules anchor on the functions that exist in the audited tree.  A behaviour-preserving clean-up that extracts a few
statements into a new private helper (or wraps an expression in one) would otherwise hide those statements from the
rule that looks for them in the original function.  Before any rule runs, every call to a local, non-public,
non-recursive function whose name is not in rules/known_fns.json (the functions of the audited tree) is replaced by a
copy of the callee's MIR: parameters are assigned from the call's arguments, locals and blocks are renumbered, and each
`return` becomes `dest = _0; goto continuation`.  The helper's own body is then removed from the fact set when no
other use of it remains (it would otherwise be counted twice by whole-crate censuses).

Nothing is inlined on the audited tree itself (every function is known), so the rules see exactly the compiler's MIR there."""
import copy
import json
import os

KNOWN_PATH = os.path.join(os.path.dirname(os.path.abspath(__file__)), 'known_fns.json')


def load_known():
    try:
        with open(KNOWN_PATH) as f:
            return set(json.load(f))
    except OSError:
        return None


def _is_span(d):
    return isinstance(d, dict) and 'f' in d and 'l2' in d


def _remap(x, loff, boff):
    """deep copy with locals shifted by loff; block references are handled by the caller"""
    if isinstance(x, list):
        return [_remap(v, loff, boff) for v in x]
    if isinstance(x, dict):
        if _is_span(x):
            return dict(x)
        out = {}
        is_place = 'l' in x and 'pr' in x
        is_index_proj = x.get('k') == 'index' and 'l' in x and 'pr' not in x
        for k, v in x.items():
            if k == 'l' and (is_place or is_index_proj) and isinstance(v, int):
                out[k] = v + loff
            else:
                out[k] = _remap(v, loff, boff)
        return out
    return x


def _remap_term_blocks(t, boff):
    k = t['k']
    if k in ('goto', 'call', 'drop', 'assert') and 't' in t:
        t['t'] = t['t'] + boff
    if k == 'switch':
        t['targets'] = [[v, bb + boff] for v, bb in t['targets']]
        t['otherwise'] = t['otherwise'] + boff
    for extra in ('unwind', 'cleanup_t'):
        if isinstance(t.get(extra), int):
            t[extra] = t[extra] + boff
    return t


def _callee(t):
    f = t.get('f') or {}
    fn = f.get('fn') if f.get('k') == 'const' else None
    if not fn:
        return None
    return fn.get('res') or fn.get('def')


def _calls_of(body):
    out = set()
    for blk in body['blocks']:
        if blk['t']['k'] == 'call':
            c = _callee(blk['t'])
            if c:
                out.add(c)
    return out


def inline_new_helpers(raw, known):
    """mutates raw['bodies']; returns the list of helper names that were inlined"""
    if known is None:
        return []
    bodies = {b['q']: b for b in raw['bodies']}
    helpers = {}
    for q, b in bodies.items():
        if q in known or b.get('kind') not in ('Fn', 'AssocFn') or b.get('vis') == 'pub':
            continue
        if b.get('promoted'):
            continue
        if b.get('impl_trait'):
            continue          # trait methods are reached through dispatch, not by name
        helpers[q] = b
    # drop recursive helpers (directly or through other helpers)
    def reaches(q, target, seen):
        for c in _calls_of(bodies[q]):
            if c == target:
                return True
            if c in helpers and c not in seen:
                seen.add(c)
                if reaches(c, target, seen):
                    return True
        return False
    helpers = {q: b for q, b in helpers.items() if not reaches(q, q, set())}
    if not helpers:
        return []
    used = set()
    for _round in range(4):
        changed = False
        for q, b in bodies.items():
            bi = 0
            while bi < len(b['blocks']):
                blk = b['blocks'][bi]
                t = blk['t']
                if t['k'] == 'call' and not blk.get('cleanup'):
                    c = _callee(t)
                    if c in helpers and c != q:
                        _inline_at(b, bi, helpers[c])
                        used.add(c)
                        changed = True
                bi += 1
        if not changed:
            break
    # a helper that is no longer called anywhere (and whose address is not taken) disappears from the fact set
    still = set()
    for q, b in bodies.items():
        if q in used:
            continue
        still |= _calls_of(b)
        for blk in b['blocks']:
            s = json.dumps(blk)
            for h in used:
                if '"def": "%s"' % h in s:
                    still.add(h)
    raw['bodies'] = [b for b in raw['bodies'] if not (b['q'] in used and b['q'] not in still)]
    return sorted(used)


def _inline_at(b, bi, callee):
    blk = b['blocks'][bi]
    t = blk['t']
    loff = len(b['locals'])
    boff = len(b['blocks'])
    for i, l in enumerate(callee['locals']):
        l2 = dict(l)
        b['locals'].append(l2)
    sp = t.get('sp')
    # parameters := arguments
    for i, a in enumerate(t['args']):
        pl = loff + 1 + i
        blk['st'].append({'k': 'assign', 'p': {'l': pl, 'pr': []}, 'rv': {'k': 'use', 'o': copy.deepcopy(a)},
                          'ty': (t.get('arg_tys') or [''] * (i + 1))[i] if i < len(t.get('arg_tys') or []) else '', 'sp': sp})
    cont = t.get('t')
    dest = t['dest']
    blk['t'] = {'k': 'goto', 't': boff, 'sp': sp}
    for cb in callee['blocks']:
        nb = {'st': _remap(cb['st'], loff, boff), 't': _remap_term_blocks(_remap(cb['t'], loff, boff), boff)}
        if cb.get('cleanup'):
            nb['cleanup'] = True
        if nb['t']['k'] == 'return':
            nb['st'].append({'k': 'assign', 'p': copy.deepcopy(dest), 'rv': {'k': 'use', 'o': {'k': 'move', 'p': {'l': loff, 'pr': []}}},
                             'ty': t.get('dest_ty', ''), 'sp': nb['t'].get('sp') or sp})
            nb['t'] = {'k': 'goto', 't': cont, 'sp': nb['t'].get('sp') or sp} if cont is not None else {'k': 'unreachable', 'sp': sp}
        b['blocks'].append(nb)
