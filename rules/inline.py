"""Facts-level inlining of *new* private helper functions (A11).

Rules anchor on the functions that exist in the audited tree.  A behaviour-preserving clean-up that extracts a few
statements into a new private helper (or wraps an expression in one) would otherwise hide those statements from the
rule that looks for them in the original function.  Before any rule runs, every call to a local, non-public,
non-recursive function whose name is not in rules/known_fns.json (the functions of the audited tree) is replaced by a
copy of the callee's MIR: parameters are assigned from the call's arguments, locals and blocks are renumbered, and each
`return` becomes `dest = _0; goto continuation`.  The helper's own body is then removed from the fact set when no
other use of it remains (it would otherwise be counted twice by whole-crate censuses).

Nothing is inlined on the audited tree itself (every function is known), so the rules see exactly the compiler's MIR there."""
import copy
import json
import os

KNOWN_PATH = os.path.join(os.path.dirname(os.path.abspath(__file__)), 'known_fns.json')


def load_known():
    """{qualified name: {sig, impl_self, kind, argc, vis}} of the functions of the audited tree"""
    try:
        with open(KNOWN_PATH) as f:
            d = json.load(f)
            if isinstance(d, dict) and 'fns' in d:
                return d['fns']
            return d if isinstance(d, dict) else {q: {} for q in d}
    except OSError:
        return None


def load_known_adts():
    try:
        with open(KNOWN_PATH) as f:
            d = json.load(f)
            return d.get('adts') if isinstance(d, dict) else None
    except OSError:
        return None


def restore_adt_names(raw, known_adts):
    """Renamed private struct fields and renamed private structs get their audited names back.
    A field counts as renamed when the struct still has the same number of fields with the same types in the same order
    and the field at that position is not public; a struct counts as renamed when an audited struct is missing while
    exactly one unknown struct of the same module has the identical field list.  Returns (raw, [descriptions])."""
    if not known_adts:
        return raw, []
    done = []
    cur = {a['q']: a for a in raw['adts']}
    # --- struct renames
    missing = [q for q in known_adts if q not in cur]
    unknown = [a for a in raw['adts'] if a['q'] not in known_adts]
    pairs = []
    def shape(a):
        return (a['kind'], tuple(tuple((f[1] if isinstance(f, list) else f['ty']) for f in v['fields']) for v in a['variants']),
                tuple(tuple((f[0] if isinstance(f, list) else f['name']) for f in v['fields']) for v in a['variants']))
    for q in missing:
        mod = q.rsplit('::', 1)[0]
        cands = [a for a in unknown if a['q'].rsplit('::', 1)[0] == mod and shape(a)[:2] == shape(known_adts[q])[:2]]
        others = [m2 for m2 in missing if m2 != q and m2.rsplit('::', 1)[0] == mod and shape(known_adts[m2])[:2] == shape(known_adts[q])[:2]]
        if len(cands) == 1 and not others:
            pairs.append((cands[0]['q'], q))
    if pairs:
        text = json.dumps(raw)
        for newq, oldq in pairs:
            for a, b2 in ((newq, oldq), (newq.replace('raqote::', '', 1), oldq.replace('raqote::', '', 1))):
                ea, eb = json.dumps(a)[1:-1], json.dumps(b2)[1:-1]
                for end in ('"', '::', ' ', '>', ',', ')', '<', ';', ']', '{', '}'):
                    text = text.replace(ea + end, eb + end)
            done.append('struct %s -> %s' % (newq, oldq))
        raw = json.loads(text)
        for a in raw['adts']:
            for newq, oldq in pairs:
                if a['q'] == oldq:
                    for v in a['variants']:
                        if v['name'] == newq.rsplit('::', 1)[1]:
                            v['name'] = oldq.rsplit('::', 1)[1]
    # --- field renames
    ren = {}          # (adt q, field index, new name) -> old name
    for a in raw['adts']:
        k = known_adts.get(a['q'])
        if not k or len(k['variants']) != len(a['variants']):
            continue
        for v, kv in zip(a['variants'], k['variants']):
            if len(v['fields']) != len(kv['fields']) or [f['ty'] for f in v['fields']] != [f[1] for f in kv['fields']]:
                continue
            for i, (f, kf) in enumerate(zip(v['fields'], kv['fields'])):
                if f['name'] != kf[0] and f['name'] not in [x[0] for x in kv['fields']]:
                    ren[(a['q'], i, f['name'])] = kf[0]
                    done.append('field %s.%s -> %s' % (a['q'], f['name'], kf[0]))
                    f['name'] = kf[0]
    if ren:
        def walk(x):
            if isinstance(x, list):
                for y in x:
                    walk(y)
            elif isinstance(x, dict):
                if x.get('k') == 'field' and 'adt' in x and 'n' in x and (x['adt'], x.get('i'), x['n']) in ren:
                    x['n'] = ren[(x['adt'], x.get('i'), x['n'])]
                if x.get('k') == 'agg' and x.get('ak') == 'adt' and isinstance(x.get('fields'), list):
                    x['fields'] = [ren.get((x.get('adt'), i, n), n) for i, n in enumerate(x['fields'])]
                for y in x.values():
                    walk(y)
        walk(raw['bodies'])
    return raw, done


def restore_renames(raw, known):
    """A private function of the audited tree that is missing while exactly one unknown function with the same
    signature, kind and impl type exists has been renamed: give it its audited name back (in the body list and in every
    reference), so that the rules anchored on it still find it and then judge its body.  Returns [(new name, old name)]."""
    if not known:
        return raw, []
    present = set(b['q'] for b in raw['bodies'])
    missing = [q for q in known if q not in present and '::{closure' not in q and known[q].get('vis') != 'pub' and known[q].get('sig')]
    unknown = [b for b in raw['bodies'] if b['q'] not in known and '::{closure' not in b['q'] and b.get('vis') != 'pub']
    pairs = []
    for q in missing:
        k = known[q]
        cands = [b for b in unknown if b.get('sig') == k.get('sig') and b.get('impl_self') == k.get('impl_self') and b.get('kind') == k.get('kind')
                 and b['q'].rsplit('::', 1)[0] == q.rsplit('::', 1)[0]]
        others = [m2 for m2 in missing if m2 != q and known[m2].get('sig') == k.get('sig') and known[m2].get('impl_self') == k.get('impl_self') and m2.rsplit('::', 1)[0] == q.rsplit('::', 1)[0]]
        if len(cands) == 1 and not others:
            pairs.append((cands[0]['q'], q))
    if not pairs:
        return raw, []
    text = json.dumps(raw)
    for newq, oldq in pairs:
        for a, b2 in ((newq, oldq), (newq.replace('raqote::', '', 1), oldq.replace('raqote::', '', 1))):
            text = text.replace(json.dumps(a)[1:-1] + '"', json.dumps(b2)[1:-1] + '"').replace(json.dumps(a)[1:-1] + '::', json.dumps(b2)[1:-1] + '::')
    raw2 = json.loads(text)
    for b in raw2['bodies']:
        for newq, oldq in pairs:
            if b['q'] == oldq:
                b['name'] = oldq.rsplit('::', 1)[1]
    return raw2, pairs


def _is_span(d):
    return isinstance(d, dict) and 'f' in d and 'l2' in d


def _remap(x, loff, boff, poff=0):
    """deep copy with locals shifted by loff (and promoted-constant indices by poff); block references are handled by the caller"""
    if isinstance(x, list):
        return [_remap(v, loff, boff, poff) for v in x]
    if isinstance(x, dict):
        if _is_span(x):
            return dict(x)
        out = {}
        is_place = 'l' in x and 'pr' in x
        is_index_proj = x.get('k') == 'index' and 'l' in x and 'pr' not in x
        for k, v in x.items():
            if k == 'l' and (is_place or is_index_proj) and isinstance(v, int):
                out[k] = v + loff
            elif k == 'promoted' and isinstance(v, int) and x.get('k') == 'const':
                out[k] = v + poff
            else:
                out[k] = _remap(v, loff, boff, poff)
        return out
    return x


def _remap_term_blocks(t, boff):
    k = t['k']
    if k in ('goto', 'call', 'drop', 'assert') and 't' in t:
        t['t'] = t['t'] + boff
    if k == 'switch':
        t['targets'] = [[v, bb + boff] for v, bb in t['targets']]
        t['otherwise'] = t['otherwise'] + boff
    for extra in ('unwind', 'cleanup_t'):
        if isinstance(t.get(extra), int):
            t[extra] = t[extra] + boff
    return t


def _callee(t):
    f = t.get('f') or {}
    fn = f.get('fn') if f.get('k') == 'const' else None
    if not fn:
        return None
    return fn.get('res') or fn.get('def')


def _calls_of(body):
    out = set()
    for blk in body['blocks']:
        if blk['t']['k'] == 'call':
            c = _callee(blk['t'])
            if c:
                out.add(c)
    return out


def inline_new_helpers(raw, known):
    """mutates raw['bodies']; returns the list of helper names that were inlined"""
    if known is None:
        return []
    bodies = {b['q']: b for b in raw['bodies']}
    helpers = {}
    for q, b in bodies.items():
        if q in known or b.get('kind') not in ('Fn', 'AssocFn') or b.get('vis') == 'pub':
            continue
        if b.get('impl_trait'):
            continue          # trait methods are reached through dispatch, not by name
        helpers[q] = b
    # drop recursive helpers (directly or through other helpers)
    def reaches(q, target, seen):
        for c in _calls_of(bodies[q]):
            if c == target:
                return True
            if c in helpers and c not in seen:
                seen.add(c)
                if reaches(c, target, seen):
                    return True
        return False
    helpers = {q: b for q, b in helpers.items() if not reaches(q, q, set())}
    if not helpers:
        return []
    used = set()
    for _round in range(4):
        changed = False
        for q, b in bodies.items():
            bi = 0
            while bi < len(b['blocks']):
                blk = b['blocks'][bi]
                t = blk['t']
                if t['k'] == 'call' and not blk.get('cleanup'):
                    c = _callee(t)
                    if c in helpers and c != q:
                        _inline_at(b, bi, helpers[c])
                        used.add(c)
                        changed = True
                bi += 1
        if not changed:
            break
    # a helper that is no longer called anywhere (and whose address is not taken) disappears from the fact set
    still = set()
    for q, b in bodies.items():
        if q in used:
            continue
        still |= _calls_of(b)
        for blk in b['blocks']:
            s = json.dumps(blk)
            for h in used:
                if '"def": "%s"' % h in s:
                    still.add(h)
    raw['bodies'] = [b for b in raw['bodies'] if not (b['q'] in used and b['q'] not in still)]
    return sorted(used)


def _inline_at(b, bi, callee):
    blk = b['blocks'][bi]
    t = blk['t']
    loff = len(b['locals'])
    boff = len(b['blocks'])
    poff = len(b.get('promoted') or [])
    if callee.get('promoted'):
        b['promoted'] = list(b.get('promoted') or []) + copy.deepcopy(callee['promoted'])
    for i, l in enumerate(callee['locals']):
        l2 = dict(l)
        b['locals'].append(l2)
    sp = t.get('sp')
    # parameters := arguments
    for i, a in enumerate(t['args']):
        pl = loff + 1 + i
        blk['st'].append({'k': 'assign', 'p': {'l': pl, 'pr': []}, 'rv': {'k': 'use', 'o': copy.deepcopy(a)},
                          'ty': (t.get('arg_tys') or [''] * (i + 1))[i] if i < len(t.get('arg_tys') or []) else '', 'sp': sp})
    cont = t.get('t')
    dest = t['dest']
    blk['t'] = {'k': 'goto', 't': boff, 'sp': sp}
    for cb in callee['blocks']:
        nb = {'st': _remap(cb['st'], loff, boff, poff), 't': _remap_term_blocks(_remap(cb['t'], loff, boff, poff), boff)}
        if cb.get('cleanup'):
            nb['cleanup'] = True
        if nb['t']['k'] == 'return':
            nb['st'].append({'k': 'assign', 'p': copy.deepcopy(dest), 'rv': {'k': 'use', 'o': {'k': 'move', 'p': {'l': loff, 'pr': []}}},
                             'ty': t.get('dest_ty', ''), 'sp': nb['t'].get('sp') or sp})
            nb['t'] = {'k': 'goto', 't': cont, 'sp': nb['t'].get('sp') or sp} if cont is not None else {'k': 'unreachable', 'sp': sp}
        b['blocks'].append(nb)
