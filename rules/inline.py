"""Facts-level inlining of *new* private helper functions (A11).

Rules anchor on the functions that exist in the audited tree.  A behaviour-preserving clean-up that extracts a few
statements into a new private helper (or wraps an expression in one) would otherwise hide those statements from the
rule that looks for them in the original function.  Before any rule runs, every call to a local, non-public,
non-recursive function whose name is not in rules/known_fns.json (the functions of the audited tree) is replaced by a
copy of the callee's MIR: parameters are assigned from the call's arguments, locals and blocks are renumbered, and each
`return` becomes `dest = _0; goto continuation`.  The helper's own body is then removed from the fact set when no
other use of it remains (it would otherwise be counted twice by whole-crate censuses).

Nothing is inlined on the audited tree itself (every function is known), so the rules see exactly the compiler's MIR there."""
import copy
import json
import os

KNOWN_PATH = os.path.join(os.path.dirname(os.path.abspath(__file__)), 'known_fns.json')


def load_known():
    """{qualified name: {sig, impl_self, kind, argc, vis}} of the functions of the audited tree"""
    try:
        with open(KNOWN_PATH) as f:
            d = json.load(f)
            if isinstance(d, dict) and 'fns' in d:
                return d['fns']
            return d if isinstance(d, dict) else {q: {} for q in d}
    except OSError:
        return None


def load_known_adts():
    try:
        with open(KNOWN_PATH) as f:
            d = json.load(f)
            return d.get('adts') if isinstance(d, dict) else None
    except OSError:
        return None


def restore_adt_names(raw, known_adts):
    """Renamed private struct fields and renamed private structs get their audited names back.
    A field counts as renamed when the struct still has the same number of fields with the same types in the same order
    and the field at that position is not public; a struct counts as renamed when an audited struct is missing while
    exactly one unknown struct of the same module has the identical field list.  Returns (raw, [descriptions])."""
    if not known_adts:
        return raw, []
    done = []
    cur = {a['q']: a for a in raw['adts']}
    # --- struct renames
    missing = [q for q in known_adts if q not in cur]
    unknown = [a for a in raw['adts'] if a['q'] not in known_adts]
    pairs = []
    def shape(a):
        return (a['kind'], tuple(tuple((f[1] if isinstance(f, list) else f['ty']) for f in v['fields']) for v in a['variants']),
                tuple(tuple((f[0] if isinstance(f, list) else f['name']) for f in v['fields']) for v in a['variants']))
    for q in missing:
        mod = q.rsplit('::', 1)[0]
        cands = [a for a in unknown if a['q'].rsplit('::', 1)[0] == mod and shape(a)[:2] == shape(known_adts[q])[:2]]
        others = [m2 for m2 in missing if m2 != q and m2.rsplit('::', 1)[0] == mod and shape(known_adts[m2])[:2] == shape(known_adts[q])[:2]]
        if len(cands) == 1 and not others:
            pairs.append((cands[0]['q'], q))
    if pairs:
        text = json.dumps(raw)
        for newq, oldq in pairs:
            for a, b2 in ((newq, oldq), (newq.replace('raqote::', '', 1), oldq.replace('raqote::', '', 1))):
                ea, eb = json.dumps(a)[1:-1], json.dumps(b2)[1:-1]
                for end in ('"', '::', ' ', '>', ',', ')', '<', ';', ']', '{', '}'):
                    text = text.replace(ea + end, eb + end)
            done.append('struct %s -> %s' % (newq, oldq))
        raw = json.loads(text)
        for a in raw['adts']:
            for newq, oldq in pairs:
                if a['q'] == oldq:
                    for v in a['variants']:
                        if v['name'] == newq.rsplit('::', 1)[1]:
                            v['name'] = oldq.rsplit('::', 1)[1]
    # --- field renames
    ren = {}          # (adt q, field index, new name) -> old name
    for a in raw['adts']:
        k = known_adts.get(a['q'])
        if not k or len(k['variants']) != len(a['variants']):
            continue
        for v, kv in zip(a['variants'], k['variants']):
            if len(v['fields']) != len(kv['fields']) or [f['ty'] for f in v['fields']] != [f[1] for f in kv['fields']]:
                continue
            for i, (f, kf) in enumerate(zip(v['fields'], kv['fields'])):
                if f['name'] != kf[0] and f['name'] not in [x[0] for x in kv['fields']]:
                    ren[(a['q'], i, f['name'])] = kf[0]
                    done.append('field %s.%s -> %s' % (a['q'], f['name'], kf[0]))
                    f['name'] = kf[0]
    if ren:
        def walk(x):
            if isinstance(x, list):
                for y in x:
                    walk(y)
            elif isinstance(x, dict):
                if x.get('k') == 'field' and 'adt' in x and 'n' in x and (x['adt'], x.get('i'), x['n']) in ren:
                    x['n'] = ren[(x['adt'], x.get('i'), x['n'])]
                if x.get('k') == 'agg' and x.get('ak') == 'adt' and isinstance(x.get('fields'), list):
                    x['fields'] = [ren.get((x.get('adt'), i, n), n) for i, n in enumerate(x['fields'])]
                for y in x.values():
                    walk(y)
        walk(raw['bodies'])
    return raw, done


def restore_renames(raw, known):
    """A private function of the audited tree that is missing while exactly one unknown function with the same
    signature, kind and impl type exists has been renamed: give it its audited name back (in the body list and in every
    reference), so that the rules anchored on it still find it and then judge its body.  Returns [(new name, old name)]."""
    if not known:
        return raw, []
    present = set(b['q'] for b in raw['bodies'])
    missing = [q for q in known if q not in present and '::{closure' not in q and known[q].get('vis') != 'pub' and known[q].get('sig')]
    unknown = [b for b in raw['bodies'] if b['q'] not in known and '::{closure' not in b['q'] and b.get('vis') != 'pub']
    pairs = []
    for q in missing:
        k = known[q]
        cands = [b for b in unknown if b.get('sig') == k.get('sig') and b.get('impl_self') == k.get('impl_self') and b.get('kind') == k.get('kind')
                 and b['q'].rsplit('::', 1)[0] == q.rsplit('::', 1)[0]]
        others = [m2 for m2 in missing if m2 != q and known[m2].get('sig') == k.get('sig') and known[m2].get('impl_self') == k.get('impl_self') and m2.rsplit('::', 1)[0] == q.rsplit('::', 1)[0]]
        if len(cands) == 1 and not others:
            pairs.append((cands[0]['q'], q))
    # moved to another module under the same name (`fn compute_normal` from stroke.rs to geom.rs): same last path
    # segment, same signature and kind, the audited path missing, the new path unknown, one candidate
    taken = set(n for n, o in pairs)
    for q in missing:
        if any(o == q for n, o in pairs):
            continue
        k = known[q]
        if k.get('impl_self'):
            continue
        name = q.rsplit('::', 1)[1]
        cands = [b for b in raw['bodies'] if b['q'] not in known and b['q'] not in taken and '::{closure' not in b['q'] and not b.get('impl_self')
                 and b['q'].rsplit('::', 1)[1] == name and b.get('sig') == k.get('sig') and b.get('kind') == k.get('kind')]
        if len(cands) == 1:
            pairs.append((cands[0]['q'], q))
            taken.add(cands[0]['q'])
    # free function <-> associated function / method of a local type (`fn blend_row::<T>(..)` -> `BlendRow::row::<T>(..)`,
    # `compute_curve_steps(&Edge)` -> `Edge::curve_shift(&self)`): the same signature, unique on both sides
    for q in missing:
        if any(o == q for n, o in pairs):
            continue
        k = known[q]
        sig = k.get('sig')
        if not sig or len([m2 for m2 in missing if known[m2].get('sig') == sig]) != 1:
            continue
        # a generic parameter that becomes the Self type of a provided trait method: `<T as Tr>::X` ~ `<Self as Tr>::X`
        nsig = lambda x: (x or '').replace('<Self as ', '<T as ')
        cands = [b for b in raw['bodies'] if b['q'] not in known and b['q'] not in taken and '::{closure' not in b['q'] and nsig(b.get('sig')) == nsig(sig)
                 and not b.get('impl_trait')]
        if len(cands) == 1:
            pairs.append((cands[0]['q'], q))
            taken.add(cands[0]['q'])
    if not pairs:
        return raw, []
    text = json.dumps(raw)
    for newq, oldq in pairs:
        for a, b2 in ((newq, oldq), (newq.replace('raqote::', '', 1), oldq.replace('raqote::', '', 1))):
            text = text.replace(json.dumps(a)[1:-1] + '"', json.dumps(b2)[1:-1] + '"').replace(json.dumps(a)[1:-1] + '::', json.dumps(b2)[1:-1] + '::')
    raw2 = json.loads(text)
    for b in raw2['bodies']:
        for newq, oldq in pairs:
            if b['q'] == oldq:
                b['name'] = oldq.rsplit('::', 1)[1]
    return raw2, pairs


def _is_span(d):
    return isinstance(d, dict) and 'f' in d and 'l2' in d


def _remap(x, loff, boff, poff=0):
    """deep copy with locals shifted by loff (and promoted-constant indices by poff); block references are handled by the caller"""
    if isinstance(x, list):
        return [_remap(v, loff, boff, poff) for v in x]
    if isinstance(x, dict):
        if _is_span(x):
            return dict(x)
        out = {}
        is_place = 'l' in x and 'pr' in x
        is_index_proj = x.get('k') == 'index' and 'l' in x and 'pr' not in x
        for k, v in x.items():
            if k == 'l' and (is_place or is_index_proj) and isinstance(v, int):
                out[k] = v + loff
            elif k == 'promoted' and isinstance(v, int) and x.get('k') == 'const':
                out[k] = v + poff
            else:
                out[k] = _remap(v, loff, boff, poff)
        return out
    return x


def _remap_term_blocks(t, boff):
    k = t['k']
    if k in ('goto', 'call', 'drop', 'assert') and 't' in t:
        t['t'] = t['t'] + boff
    if k == 'switch':
        t['targets'] = [[v, bb + boff] for v, bb in t['targets']]
        t['otherwise'] = t['otherwise'] + boff
    for extra in ('unwind', 'cleanup_t'):
        if isinstance(t.get(extra), int):
            t[extra] = t[extra] + boff
    return t


def _callee(t):
    f = t.get('f') or {}
    fn = f.get('fn') if f.get('k') == 'const' else None
    if not fn:
        return None
    return fn.get('res') or fn.get('def')


def _calls_of(body):
    out = set()
    for blk in body['blocks']:
        if blk['t']['k'] == 'call':
            c = _callee(blk['t'])
            if c:
                out.add(c)
    return out


def inline_new_helpers(raw, known):
    """mutates raw['bodies']; returns the list of helper names that were inlined"""
    if known is None:
        return []
    bodies = {b['q']: b for b in raw['bodies']}
    helpers = {}
    for q, b in bodies.items():
        if q in known or b.get('kind') not in ('Fn', 'AssocFn') or b.get('vis') == 'pub':
            continue
        if b.get('impl_trait'):
            continue          # trait methods are reached through dispatch, not by name
        helpers[q] = b
    # drop recursive helpers (directly or through other helpers)
    def reaches(q, target, seen):
        for c in _calls_of(bodies[q]):
            if c == target:
                return True
            if c in helpers and c not in seen:
                seen.add(c)
                if reaches(c, target, seen):
                    return True
        return False
    helpers = {q: b for q, b in helpers.items() if not reaches(q, q, set())}
    if not helpers:
        return []
    used = set()
    for _round in range(4):
        changed = False
        for q, b in bodies.items():
            bi = 0
            while bi < len(b['blocks']):
                blk = b['blocks'][bi]
                t = blk['t']
                if t['k'] == 'call' and not blk.get('cleanup'):
                    c = _callee(t)
                    if c in helpers and c != q:
                        _inline_at(b, bi, helpers[c])
                        used.add(c)
                        changed = True
                bi += 1
        if not changed:
            break
    # a helper that is no longer called anywhere (and whose address is not taken) disappears from the fact set
    still = set()
    for q, b in bodies.items():
        if q in used:
            continue
        still |= _calls_of(b)
        for blk in b['blocks']:
            s = json.dumps(blk)
            for h in used:
                if '"def": "%s"' % h in s:
                    still.add(h)
    raw['bodies'] = [b for b in raw['bodies'] if not (b['q'] in used and b['q'] not in still)]
    return sorted(used)


def _inline_at(b, bi, callee):
    blk = b['blocks'][bi]
    t = blk['t']
    loff = len(b['locals'])
    boff = len(b['blocks'])
    poff = len(b.get('promoted') or [])
    if callee.get('promoted'):
        b['promoted'] = list(b.get('promoted') or []) + copy.deepcopy(callee['promoted'])
    for i, l in enumerate(callee['locals']):
        l2 = dict(l)
        b['locals'].append(l2)
    sp = t.get('sp')
    # parameters := arguments
    for i, a in enumerate(t['args']):
        pl = loff + 1 + i
        blk['st'].append({'k': 'assign', 'p': {'l': pl, 'pr': []}, 'rv': {'k': 'use', 'o': copy.deepcopy(a)},
                          'ty': (t.get('arg_tys') or [''] * (i + 1))[i] if i < len(t.get('arg_tys') or []) else '', 'sp': sp})
    cont = t.get('t')
    dest = t['dest']
    blk['t'] = {'k': 'goto', 't': boff, 'sp': sp}
    for cb in callee['blocks']:
        nb = {'st': _remap(cb['st'], loff, boff, poff), 't': _remap_term_blocks(_remap(cb['t'], loff, boff, poff), boff)}
        if cb.get('cleanup'):
            nb['cleanup'] = True
        if nb['t']['k'] == 'return':
            nb['st'].append({'k': 'assign', 'p': copy.deepcopy(dest), 'rv': {'k': 'use', 'o': {'k': 'move', 'p': {'l': loff, 'pr': []}}},
                             'ty': t.get('dest_ty', ''), 'sp': nb['t'].get('sp') or sp})
            nb['t'] = {'k': 'goto', 't': cont, 'sp': nb['t'].get('sp') or sp} if cont is not None else {'k': 'unreachable', 'sp': sp}
        b['blocks'].append(nb)


def dissolve_new_structs(raw, known_adts):
    """A struct that the audited tree does not have and that only bundles values (`struct SubpathStart { point, normal }`
    for the tuple `(Point, Vector)`, `struct FlattenCursor { cur, start }` for two locals) is read as the tuple of its
    fields: aggregates become tuple aggregates, field projections become positional, and the type name is replaced by
    the tuple type in every type string.  Only structs without methods left after inlining, without generics and not
    public are dissolved.  Returns descriptions."""
    import re
    if known_adts is None:
        return []
    done = []
    bodies_q = [b['q'] for b in raw['bodies']]
    for a in list(raw['adts']):
        q = a['q']
        if q in known_adts or a.get('kind') != 'Struct' or len(a.get('variants', [])) != 1:
            continue
        fields = a['variants'][0]['fields']
        if not fields or any(f['name'].isdigit() for f in fields):
            continue
        DERIVED = ('std::clone::Clone>::clone', 'std::fmt::Debug>::fmt', 'std::cmp::PartialEq>::eq', 'std::default::Default>::default')
        own = [bq for bq in bodies_q if bq.startswith(q + '::') or ('<' + q + ' as ') in bq or ('<' + q.replace('raqote::', '', 1) + ' as ') in bq]
        if any(not bq.endswith(DERIVED) for bq in own):
            continue          # it has behaviour of its own (methods, hand-written trait impls)
        short = q.replace('raqote::', '', 1)
        idx = {f['name']: i for i, f in enumerate(fields)}
        tup = '(' + ', '.join(f['ty'] for f in fields) + (',)' if len(fields) == 1 else ')')
        pat = re.compile(r'(?<![\w:])' + re.escape(short) + r'(?!::|\w)')

        def walk(x):
            if isinstance(x, list):
                for i, y in enumerate(x):
                    if isinstance(y, str):
                        x[i] = pat.sub(tup, y)
                    else:
                        walk(y)
            elif isinstance(x, dict):
                if x.get('k') == 'field' and x.get('adt') == q and x.get('n') in idx:
                    x['n'] = str(idx[x['n']])
                    x['adt'] = '(tuple)'
                    x.pop('v', None)
                if x.get('k') == 'agg' and x.get('ak') == 'adt' and x.get('adt') == q:
                    x['ak'] = 'tuple'
                    for kk in ('adt', 'v', 'fields', 'substs'):
                        x.pop(kk, None)
                for kk, y in list(x.items()):
                    if isinstance(y, str):
                        if kk not in ('q', 'name', 'def', 'res', 'f'):
                            x[kk] = pat.sub(tup, y)
                    else:
                        walk(y)
        for b in raw['bodies']:
            walk(b)
        raw['adts'] = [x for x in raw['adts'] if x['q'] != q]
        raw['bodies'] = [b for b in raw['bodies'] if b['q'] not in own]
        done.append('struct %s read as the tuple %s' % (q, tup))
    return done


# ------------------------------------------------------------------ internal iteration -> loops
def _uses_local(x, n, skip=None):
    """does the JSON fragment mention local n as (the base of) a place or an index?"""
    if x is skip:
        return False
    if isinstance(x, list):
        return any(_uses_local(y, n, skip) for y in x)
    if isinstance(x, dict):
        if _is_span(x):
            return False
        if x.get('l') == n and ('pr' in x or x.get('k') == 'index'):
            return True
        return any(_uses_local(v, n, skip) for v in x.values())
    return False


def _places(x, out):
    if isinstance(x, list):
        for y in x:
            _places(y, out)
    elif isinstance(x, dict):
        if _is_span(x):
            return
        if 'l' in x and 'pr' in x and isinstance(x['pr'], list):
            out.append(x)
        for v in x.values():
            _places(v, out)


def _single_def(b, n):
    """the only statement assigning the whole local n (call destinations count as definitions): (block, index, stmt) or None"""
    hits = []
    for bi, blk in enumerate(b['blocks']):
        for si, st in enumerate(blk['st']):
            if st.get('k') == 'assign' and st['p']['l'] == n and not st['p']['pr']:
                hits.append((bi, si, st))
        t = blk['t']
        if t['k'] == 'call' and t.get('dest') and t['dest']['l'] == n:
            hits.append((bi, None, None))
    return hits[0] if len(hits) == 1 and hits[0][2] is not None else None


def normalise_internal_iteration(raw):
    """`iter.for_each(|x| body)` and `iter.fold(init, |acc, x| body)` with a closure literal of the same function are
    rewritten into the loop they stand for — `loop { match iter.next() { None => break, Some(x) => body } }` with the
    closure body inlined and its captures resolved to the captured variables — so that every rule sees one spelling of
    iteration.  The audited tree contains neither.  Returns descriptions of what was rewritten."""
    bodies = {b['q']: b for b in raw['bodies']}
    done = []
    used = set()
    for b in raw['bodies']:
        bi = 0
        while bi < len(b['blocks']):
            blk = b['blocks'][bi]
            t = blk['t']
            if t['k'] == 'call' and not blk.get('cleanup') and t.get('t') is not None:
                fn = (t.get('f') or {}).get('fn') or {}
                kind = {'std::iter::Iterator::for_each': 'for_each', 'std::iter::Iterator::fold': 'fold'}.get(fn.get('def'))
                if kind:
                    cq = _expand_internal(b, bi, kind, bodies)
                    if cq:
                        done.append('%s in %s written as a loop (closure %s inlined)' % (kind, b['q'], cq.rsplit('::', 1)[-1]))
                        used.add(cq)
            bi += 1
    if used:
        still = set()
        for b in raw['bodies']:
            s = json.dumps(b['blocks'])
            for h in used:
                if '"def": "%s"' % h in s:
                    still.add(h)
        raw['bodies'] = [b for b in raw['bodies'] if not (b['q'] in used and b['q'] not in still)]
    return done


def _expand_internal(b, bi, kind, bodies):
    blk = b['blocks'][bi]
    t = blk['t']
    args = t['args']
    want = 2 if kind == 'for_each' else 3
    if len(args) != want:
        return None
    clo_op = args[-1]
    if clo_op.get('k') not in ('move', 'copy') or clo_op['p']['pr']:
        return None
    cl = clo_op['p']['l']
    d = _single_def(b, cl)
    if d is None or d[2]['rv'].get('k') != 'agg' or d[2]['rv'].get('ak') != 'closure':
        return None
    cagg = d[2]['rv']
    cq = cagg.get('def')
    cb = bodies.get(cq)
    if cb is None or cb.get('argc') != want:
        return None
    sp = t.get('sp')
    env_ty = cb['locals'][1]['ty']
    by_ref = env_ty.startswith('&')
    item_ty = cb['locals'][want]['ty']
    it_ty = (t.get('arg_tys') or ['?'])[0]
    L = len(b['locals'])
    names = ['it', 'ref', 'opt', 'd', 'item', 'cref', 'unit', 'acc']
    tys = [it_ty, '&mut ' + it_ty, 'std::option::Option<%s>' % item_ty, 'isize', item_ty, env_ty, '()', t.get('dest_ty', '?')]
    loc = {}
    for n, ty in zip(names, tys):
        loc[n] = len(b['locals'])
        b['locals'].append({'ty': ty})
    pl = lambda n, pr=None: {'l': loc[n], 'pr': pr or []}
    N1 = len(b['blocks'])
    N2, N3, N4, N5 = N1 + 1, N1 + 2, N1 + 3, N1 + 4
    cont = t['t']
    dest = t['dest']
    # B: move the iterator (and the accumulator) into loop state
    blk['st'].append({'k': 'assign', 'p': pl('it'), 'rv': {'k': 'use', 'o': copy.deepcopy(args[0])}, 'ty': it_ty, 'sp': sp})
    if kind == 'fold':
        blk['st'].append({'k': 'assign', 'p': pl('acc'), 'rv': {'k': 'use', 'o': copy.deepcopy(args[1])}, 'ty': tys[7], 'sp': sp})
    blk['t'] = {'k': 'goto', 't': N1, 'sp': sp}
    nextfn = {'k': 'const', 'ty': 'fn(&mut %s) -> Option<%s> {<%s as std::iter::Iterator>::next}' % (it_ty, item_ty, it_ty),
              'fn': {'def': 'std::iter::Iterator::next', 'path': 'std::iter::Iterator::next', 'name': 'next', 'local': False, 'substs': [it_ty],
                     'subst_heads': [it_ty.split('<')[0]], 'trait': 'std::iter::Iterator', 'self': it_ty, 'self_head': it_ty.split('<')[0], 'res_kind': 'item'}}
    b['blocks'].append({'st': [{'k': 'assign', 'p': pl('ref'), 'rv': {'k': 'ref', 'mut': True, 'p': pl('it')}, 'ty': tys[1], 'sp': sp}],
                        't': {'k': 'call', 'f': nextfn, 'args': [{'k': 'move', 'p': pl('ref')}], 'arg_tys': [tys[1]], 'dest_ty': tys[2], 'dest': pl('opt'), 't': N2, 'sp': sp}})
    b['blocks'].append({'st': [{'k': 'assign', 'p': pl('d'), 'rv': {'k': 'discr', 'adt': 'std::option::Option', 'p': pl('opt')}, 'ty': 'isize', 'sp': sp}],
                        't': {'k': 'switch', 'o': {'k': 'move', 'p': pl('d')}, 'ty': 'isize', 'targets': [['0', N4], ['1', N3]], 'otherwise': N5, 'sp': sp}})
    some0 = [{'k': 'downcast', 'v': 'Some', 'adt': 'std::option::Option'}, {'k': 'field', 'i': 0, 'n': '0', 'adt': 'std::option::Option', 'v': 'Some'}]
    st3 = [{'k': 'assign', 'p': pl('item'), 'rv': {'k': 'use', 'o': {'k': 'move', 'p': pl('opt', some0)}}, 'ty': item_ty, 'sp': sp}]
    if by_ref:
        st3.append({'k': 'assign', 'p': pl('cref'), 'rv': {'k': 'ref', 'mut': env_ty.startswith('&mut'), 'p': {'l': cl, 'pr': []}}, 'ty': env_ty, 'sp': sp})
    else:
        st3.append({'k': 'assign', 'p': pl('cref'), 'rv': {'k': 'use', 'o': {'k': 'move', 'p': {'l': cl, 'pr': []}}}, 'ty': env_ty, 'sp': sp})
    cargs = [{'k': 'move', 'p': pl('cref')}] + ([{'k': 'move', 'p': pl('acc')}] if kind == 'fold' else []) + [{'k': 'move', 'p': pl('item')}]
    cdest = pl('acc') if kind == 'fold' else pl('unit')
    b['blocks'].append({'st': st3, 't': {'k': 'call', 'f': {'k': 'const', 'ty': 'closure', 'fn': {'def': cq, 'path': cq, 'name': 'closure', 'local': True}},
                                         'args': cargs, 'arg_tys': [env_ty] + ([tys[7]] if kind == 'fold' else []) + [item_ty],
                                         'dest_ty': tys[7] if kind == 'fold' else '()', 'dest': cdest, 't': N1, 'sp': sp}})
    fin = {'k': 'use', 'o': {'k': 'move', 'p': pl('acc')}} if kind == 'fold' else {'k': 'use', 'o': {'k': 'const', 'ty': '()', 'text': 'Val(ZeroSized, ())'}}
    b['blocks'].append({'st': [{'k': 'assign', 'p': copy.deepcopy(dest), 'rv': fin, 'ty': t.get('dest_ty', '()'), 'sp': sp}], 't': {'k': 'goto', 't': cont, 'sp': sp}})
    b['blocks'].append({'st': [], 't': {'k': 'unreachable', 'sp': sp}})
    # inline the closure body at N3 and resolve its captures
    loff = len(b['locals'])
    boff = len(b['blocks'])
    _inline_at(b, N3, cb)
    env = loff + 1
    ops = cagg.get('ops') or []
    new_blocks = b['blocks'][boff:]
    places = []
    _places(new_blocks, places)
    for p in places:
        if p['l'] != env:
            continue
        pr = p['pr']
        k0 = 1 if by_ref else 0
        if by_ref and not (pr and pr[0].get('k') == 'deref'):
            continue
        if len(pr) <= k0 or pr[k0].get('k') != 'field' or not str(pr[k0].get('n', '')).startswith('upvar'):
            continue
        ui = pr[k0].get('i')
        if ui is None or ui >= len(ops):
            continue
        op = ops[ui]
        if op.get('k') not in ('move', 'copy') or op['p']['pr']:
            continue
        u = op['p']['l']
        rest = pr[k0 + 1:]
        ud = _single_def(b, u)
        if ud is not None and ud[2]['rv'].get('k') == 'ref' and rest and rest[0].get('k') == 'deref':
            # the capture is `&x` / `&mut x`: *capture is x itself
            tgt = ud[2]['rv']['p']
            p['l'] = tgt['l']
            p['pr'] = copy.deepcopy(tgt['pr']) + rest[1:]
        else:
            p['l'] = u
            p['pr'] = rest
    # dead plumbing: the environment parameter, the reference to the closure, the closure value and capture references
    # that nothing reads any more are removed, so that captured variables are ordinary locals again
    def drop_defs(n):
        for blk2 in b['blocks']:
            blk2['st'] = [st for st in blk2['st'] if not (st.get('k') == 'assign' and st['p']['l'] == n and not st['p']['pr'])]
    def only_defined(n):
        for blk2 in b['blocks']:
            for st in blk2['st']:
                if st.get('k') == 'assign' and st['p']['l'] == n and not st['p']['pr']:
                    if _uses_local(st['rv'], n):
                        return False
                    continue
                if st.get('k') in ('storage_live', 'storage_dead', 'live', 'dead') :
                    continue
                if _uses_local(st, n):
                    return False
            if _uses_local(blk2['t'], n):
                return False
        return True
    cap_locals = [op['p']['l'] for op in ops if op.get('k') in ('move', 'copy') and not op['p']['pr']]
    # temporaries that merely copy a capture reference (`_t = copy capture; (*_t) = ..`): *_t is the captured variable
    temps = []
    for u in cap_locals:
        ud = _single_def(b, u)
        if ud is None or ud[2]['rv'].get('k') != 'ref':
            continue
        tgt = ud[2]['rv']['p']
        for nb in new_blocks:
            for st in nb['st']:
                if st.get('k') == 'assign' and not st['p']['pr'] and st['rv'].get('k') == 'use' and st['rv']['o'].get('k') in ('copy', 'move') \
                        and st['rv']['o']['p']['l'] == u and not st['rv']['o']['p']['pr']:
                    tl = st['p']['l']
                    if _single_def(b, tl) is None:
                        continue
                    allp = []
                    _places(b['blocks'], allp)
                    for p in allp:
                        if p['l'] == tl and p['pr'] and p['pr'][0].get('k') == 'deref':
                            p['l'] = tgt['l']
                            p['pr'] = copy.deepcopy(tgt['pr']) + p['pr'][1:]
                    temps.append(tl)
    for n in temps + [env, loc['cref'], cl] + cap_locals:
        if only_defined(n):
            drop_defs(n)
    return cq
