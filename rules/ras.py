"""Rules about path application and the rasteriser (shared by C01, C08, C10, C11, C07)."""
from util import *
from terms import fmt, subterms, Deps, mem_path
import shared
import dt

DT = dt.DT
RAS = 'raqote::rasterizer::Rasterizer::'
PATHOP = 'raqote::path_builder::PathOp'
OP_METHODS = {'MoveTo': ('move_to', 1), 'LineTo': ('line_to', 1), 'QuadTo': ('quad_to', 2), 'CubicTo': ('cubic_to', 3), 'Close': ('close', 0)}


def apply_path_match(ctx, R):
    b = ctx.body(DT + 'apply_path', R)
    ms = matches(ctx, b, 'PathOp')
    if len(ms) != 1:
        ctx.fail(R, 'draw_target::DrawTarget::apply_path|match', b.loc(), 'expected one match on a PathOp, found %d (fail closed)' % len(ms))
        return b, None
    return b, ms[0]


def move_to_sites(ctx, b, region):
    """[(block, point term)] of DrawTarget::move_to(pt) in a region: real calls, or -- when the helper was written out in
    place -- the pair of stores self.current_point = Some(X); self.first_point = Some(X) with one X that it consists of"""
    an = ctx.an(b)
    out = [(bi, ct[2][1]) for bi, d, ct in calls_in(ctx, b, region) if d == DT + 'move_to']
    if out or ctx.F.body(DT + 'move_to') is not None:
        return out
    sets = {}
    for a, v, pt, kind in an.stores:
        if kind != 'assign' or pt[0] not in region:
            continue
        for f in ('current_point', 'first_point'):
            if field_path(a) == (('param', 1), [f]):
                v1 = strip_all(v)
                if v1[0] == 'agg' and v1[3] == 'Some':
                    sets.setdefault(f, []).append((pt, nosite(strip_all(v1[4][0][1])), v1[4][0][1]))
    for pt, x, raw in sets.get('current_point', []):
        for pt2, x2, raw2 in sets.get('first_point', []):
            if x == x2 and (pt[0] == pt2[0] or an.cfg.dominates(pt[0], pt2[0]) or an.cfg.dominates(pt2[0], pt[0])):
                out.append((pt[0] if an.cfg.dominates(pt[0], pt2[0]) else pt2[0], raw))
    return out


def r08_1(ctx):
    """every control point of every op is transformed by the CTM and reaches its own argument slot"""
    R = 'R08.1'
    b, m = apply_path_match(ctx, R)
    if m is None:
        return
    an = ctx.an(b)
    key = 'draw_target::DrawTarget::apply_path'
    ctx.check(m.otherwise is None, R, key + '|no wildcard', b.loc(), 'no live wildcard arm', 'the op match has a live wildcard arm')
    n = 0
    for v, (meth, npts) in OP_METHODS.items():
        if v not in m.arms:
            ctx.fail(R, key + '|arm ' + v, b.loc(), 'no %s arm' % v)
            continue
        region = arm_region(an.cfg, m.bb, m.arms[v])
        cs = [(bi, ct) for bi, d, ct in calls_in(ctx, b, region) if d == DT + meth]
        if not cs and meth == 'move_to':
            cs = [(bi, ('call', DT + 'move_to', (('param', 1), x), bi)) for bi, x in move_to_sites(ctx, b, region)]
        if not ctx.check(len(cs) == 1, R, key + '|arm %s calls %s' % (v, meth), b.loc(), '%s -> self.%s(..)' % (v, meth), 'the %s arm calls %s %d times, expected once' % (v, meth, len(cs))):
            continue
        bi, ct = cs[0]
        stop = an.cfg.ipdom(m.bb)
        skips = stop is not None and bi in region and an.cfg.can_reach(m.arms[v], [stop], removed=[bi])
        others = sorted(set(d.split('::')[-1] for bi2, d, ct2 in calls_in(ctx, b, region) if d and d.startswith(DT) and d.split('::')[-1] in ('line_to', 'quad_to', 'cubic_to', 'move_to') and d != DT + meth))
        ctx.check(not skips and not others, R, key + '|arm %s always and only calls %s' % (v, meth), call_line(b, bi), 'on every path through the arm, and no other drawing op',
                  'the %s arm %s: the op is not handed on as the op it is for every input (a curve replaced by a line, or dropped, on a condition)' % (v, ('can be left without calling %s' % meth) if skips else ('also calls %s' % ', '.join(others))))
        ok = len(ct[2]) == 1 + npts
        for k2 in range(npts):
            if not ok:
                break
            a = strip_all(ct[2][1 + k2])
            ok = (is_call(a, 'Transform2D::<T, Src, Dst>::transform_point') and is_self_field(strip_all(a[2][0]), 'transform')
                  and strip_all(a[2][1])[0] == 'field' and strip_all(a[2][1])[2] == str(k2) and strip_all(a[2][1])[4] == v and strip_all(a[2][1])[3] == PATHOP)
            if not ok and a[0] == 'field' and a[2] == str(k2) and a[4] == v and a[3] == PATHOP and is_call(strip_all(a[1]), 'path_builder::PathOp::transform'):
                # the whole op mapped first: payload k of op.transform(&self.transform) is transform_point(payload k) of the
                # same variant (R20.3 decides that about PathOp::transform)
                tc = strip_all(a[1])
                src_op = strip_all(tc[2][0])
                ok = len(tc[2]) == 2 and is_self_field(strip_all(tc[2][1]), 'transform') and nosite(tc) == nosite(strip_all(m.scrut)) \
                    and not any(x[0] == 'call' and isinstance(x[1], str) and 'transform' in x[1] for x in subterms(src_op))
        ctx.check(ok, R, key + '|arm %s points' % v, call_line(b, bi), 'argument k = self.transform.transform_point(payload k)',
                  'the %s arm calls %s(%s): every argument k must be self.transform.transform_point(payload k)' % (v, meth, ', '.join(fmt(b, x) for x in ct[2][1:])))
        n += 1
    ctx.floor(R, 'PathOp arms in apply_path', n, 5)


def r01_4_close(ctx):
    """subpath closing in apply_path: MoveTo closes first, close() after the loop; curve flags"""
    R = 'R01.4'
    b, m = apply_path_match(ctx, R)
    if m is None:
        return
    an = ctx.an(b)
    cfg = an.cfg
    key = 'draw_target::DrawTarget::apply_path'
    closes = [bi for bi, d, ct in calls_in(ctx, b) if d == DT + 'close']
    inloop = set()
    for h, blocks in cfg.loops().items():
        inloop |= blocks
    after = [c for c in closes if c not in inloop]
    # every path that entered the op loop reaches return through a close() outside the loop
    loop_entry = None
    for h in cfg.loops():
        loop_entry = h
    ok = bool(after) and loop_entry is not None and cfg.must_pass_through(loop_entry, set(after))[0]
    ctx.check(ok, R, key + '|final close', b.loc(), 'close() after the op loop on every path', 'apply_path can return from the op loop without calling close(): the last subpath is not closed implicitly for filling')
    if 'MoveTo' in m.arms:
        region = arm_region(cfg, m.bb, m.arms['MoveTo'])
        cl = [c for c in closes if c in region]
        mv = [bi for bi, x in move_to_sites(ctx, b, region)]
        ok = bool(cl) and bool(mv) and all(any(cfg.dominates(c, x) and c != x for c in cl) for x in mv)
        ctx.check(ok, R, key + '|MoveTo closes first', b.loc(), 'MoveTo arm: close() before move_to()', 'the MoveTo arm does not close the previous subpath before moving: an open subpath is left unclosed when the next one starts')
    # curve flags: line_to and close add straight edges, add_quad adds curves with the control point in slot 3
    table = {DT + 'line_to': [('0', 'start is the cursor')], DT + 'close': [('0', '')], DT + 'add_quad': [('1', '')]}
    for q, _ in table.items():
        fb = ctx.body(q, R)
        want = '1' if q.endswith('add_quad') else '0'
        cs = [(bi, ct) for bi, d, ct in calls_in(ctx, fb) if d == RAS + 'add_edge']
        ok = len(cs) >= 1 and all(ct[2][3][0] == 'const' and ct[2][3][2] == want for bi, ct in cs)
        ctx.check(ok, R, short(q) + '|curve flag', fb.loc(), 'add_edge(.., curve=%s, ..)' % ('true' if want == '1' else 'false'),
                  '%s calls add_edge with curve=%s' % (short(q), [fmt(fb, ct[2][3]) for bi, ct in cs]))
    # close(): edge current -> first, then current := first
    cb = ctx.body(DT + 'close', R)
    can = ctx.an(cb)
    cs = [(bi, ct) for bi, d, ct in calls_in(ctx, cb) if d == RAS + 'add_edge']
    ok = len(cs) == 1
    if ok:
        r1, n1 = field_path(strip_all(cs[0][1][2][1]))
        r2, n2 = field_path(strip_all(cs[0][1][2][2]))
        ok = r1 == ('param', 1) and n1 == ['current_point', '0'] and r2 == ('param', 1) and n2 == ['first_point', '0']
    ctx.check(ok, R, 'draw_target::DrawTarget::close|closing edge', cb.loc(), 'closing edge runs current -> first', 'DrawTarget::close does not add exactly the edge (current_point, first_point)')
    st = [(a, v, pt) for a, v, pt, kind in can.stores if kind == 'assign' and field_path(a) == (('param', 1), ['current_point'])]
    okp = bool(st) and can.cfg.must_pass_through(0, set(pt[0] for a, v, pt in st))[0]
    okv = all(field_path(v) == (('param', 1), ['first_point']) for a, v, pt in st)
    ctx.check(okp and okv, R, 'draw_target::DrawTarget::close|cursor returns to start', cb.loc(), 'current_point := first_point on every path', 'DrawTarget::close does not set current_point from first_point on every path: drawing after close does not continue from the subpath start')


def is_current_or_first(ctx, b, an, t):
    """t is the current point of the fill path: self.current_point's payload, or — written as a value — a phi of that
    payload (under the Some variant) and the op's first point parameter (under None, where it becomes the current point)"""
    t = strip_all(t)
    r0, n0 = field_path(t)
    if r0 == ('param', 1) and n0 == ['current_point', '0']:
        return True
    if t[0] == 'phi' and len(t[2]) == 2:
        some_ok = none_ok = False
        for i in t[2]:
            d = an.defs[i]
            if d.kind != 'assign':
                return False
            v = strip_all(an.def_term(d))
            vg = variant_guards(ctx, b, d.bb)
            def on(variant):
                return any(vv == variant and is_self_field(strip_all(scr), 'current_point') for scr, adt, vv, sb in vg)
            rr, nn = field_path(v)
            if rr == ('param', 1) and nn == ['current_point', '0'] and on('Some'):
                some_ok = True
            if v == ('param', 2) and on('None'):
                none_ok = True
        return some_ok and none_ok
    return False


def r08_34(ctx):
    """cursor law on the fill side: line_to/quad_to/cubic_to"""
    R = 'R08.3'
    for meth, endp in (('line_to', 2), ('quad_to', 3), ('cubic_to', 4)):
        b = ctx.body(DT + meth, R)
        an = ctx.an(b)
        key = 'draw_target::DrawTarget::' + meth
        # (a) when there is no cursor, cursor and start are set to the first point argument
        st_cur = [(a, v, pt) for a, v, pt, kind in an.stores if kind == 'assign' and field_path(a) == (('param', 1), ['current_point'])]
        st_first = [(a, v, pt) for a, v, pt, kind in an.stores if kind == 'assign' and field_path(a) == (('param', 1), ['first_point'])]
        def some_of(v, p):
            v = strip_all(v)
            return v[0] == 'agg' and v[3] == 'Some' and strip_all(v[4][0][1]) == ('param', p)
        init_cur = [s for s in st_cur if some_of(s[1], 2)]
        init_first = [s for s in st_first if some_of(s[1], 2)]
        guarded = []
        for a, v, pt in init_first:
            gs = normalized_guards(ctx, b, pt[0])
            vg = variant_guards(ctx, b, pt[0])
            guarded.append(any(op == 'true' and is_call(g, 'Option::<T>::is_none') and is_self_field(strip_all(g[2][0]), 'current_point') for op, g, b2, si in gs)
                           or any(op == '!true' and is_call(g, 'Option::<T>::is_some') and is_self_field(strip_all(g[2][0]), 'current_point') for op, g, b2, si in gs)
                           or any(vv == 'None' and is_self_field(strip_all(scr), 'current_point') for scr, adt, vv, sb in vg))
        ctx.check(bool(init_first) and all(guarded) and bool(init_cur), R, key + '|implicit start', b.loc(), 'without a cursor the first point starts the subpath',
                  '%s does not start a subpath at its first point exactly when there is no current point' % meth)
        # (b) the cursor ends at the end point
        fin = [s for s in st_cur if some_of(s[1], endp) or (meth == 'quad_to' and True)]
        if meth == 'quad_to':
            # current_point = Some(curve[2]) with curve = [current, cpt, pt]
            okf = any(strip_all(v)[0] == 'agg' and strip_all(v)[3] == 'Some' and strip_all(strip_all(v)[4][0][1]) == ('param', 3) for a, v, pt in st_cur)
        else:
            okf = any(some_of(v, endp) for a, v, pt in st_cur)
        ctx.check(okf, R, key + '|cursor := end', b.loc(), 'current_point := Some(end point)', '%s does not leave current_point at its end point' % meth)
    # quad_to: curve = [current, cpt, pt] -> add_quad ; add_quad edges
    b = ctx.body(DT + 'quad_to', R)
    cs = [ct for bi, d, ct in calls_in(ctx, b) if d == DT + 'add_quad']
    ok = len(cs) == 1
    if ok:
        arr = strip_all(cs[0][2][1])
        ok = arr[0] == 'agg' and arr[1] == 'array' and len(arr[4]) == 3
        if ok:
            e0 = strip_all(arr[4][0][1])
            ok = is_current_or_first(ctx, b, ctx.an(b), e0) and strip_all(arr[4][1][1]) == ('param', 2) and strip_all(arr[4][2][1]) == ('param', 3)
    ctx.check(ok, R, 'draw_target::DrawTarget::quad_to|curve', b.loc(), 'add_quad([current, cpt, pt])', 'quad_to does not pass [current point, control, end] to add_quad')
    # cubic_to: CubicBezierSegment{from: current, ctrl1, ctrl2, to}
    b = ctx.body(DT + 'cubic_to', R)
    an = ctx.an(b)
    segs = []
    for bi, k2, s in b.statements():
        if s['k'] == 'assign' and s['rv']['k'] == 'agg' and s['rv'].get('adt', '').endswith('CubicBezierSegment') and bi in an.cfg.reach:
            segs.append(an.rvalue_term(bi, k2, s['rv']))
    ok = len(segs) == 1
    if ok:
        f = dict(segs[0][4])
        ok = is_current_or_first(ctx, b, an, f['from']) and f['ctrl1'] == ('param', 2) and f['ctrl2'] == ('param', 3) and f['to'] == ('param', 4)
    ctx.check(ok, R, 'draw_target::DrawTarget::cubic_to|segment', b.loc(), 'CubicBezierSegment{from: current, ctrl1, ctrl2, to}', 'cubic_to does not build the segment (current point, cpt1, cpt2, pt) in that order')
    # the points handed to cubic_to are already in device space: the conversion tolerance is a fixed fraction of a device
    # pixel and must not depend on the transform (or on anything else)
    fq = [ct for bi, d, ct in calls_in(ctx, b) if d and d.endswith('::for_each_quadratic_bezier')]
    okt = len(fq) == 1
    tol = None
    if okt:
        tol = const_val(strip_all(fq[0][2][1]))
        okt = isinstance(tol, float) and 0. < tol <= 0.25
    ctx.check(okt, R, 'draw_target::DrawTarget::cubic_to|tolerance', b.loc(), 'for_each_quadratic_bezier(constant %s device px, ..)' % tol,
              'cubic_to converts the (device-space) cubic to quadratics with tolerance %s, expected a constant of at most a quarter of a device pixel: a tolerance that depends on the transform is applied twice (the points are already transformed) and under a down-scaling transform the curve is approximated pixels away from its true outline' % (fmt(b, fq[0][2][1])[:120] if len(fq) == 1 else '(%d calls)' % len(fq)))
    cl = ctx.body(DT + 'cubic_to::{closure#0}', R)
    cs = [ct for bi, d, ct in calls_in(ctx, cl) if d == DT + 'add_quad']
    ok = len(cs) == 1
    if ok:
        arr = strip_all(cs[0][2][1])
        ok = arr[0] == 'agg' and arr[1] == 'array' and len(arr[4]) == 3
        if ok:
            names = []
            for _, e in arr[4]:
                r, nm = field_path(strip_all(e))
                names.append((r, nm))
            ok = all(r == ('param', 2) for r, nm in names) and [nm for r, nm in names] == [['from'], ['ctrl'], ['to']]
    ctx.check(ok, R, 'draw_target::DrawTarget::cubic_to|quadratics', cl.loc(), 'every quadratic reaches add_quad as [from, ctrl, to]', 'the cubic callback does not forward each quadratic as [q.from, q.ctrl, q.to]')


def r08_2(ctx):
    """monotonic chopping delivers both halves"""
    R = 'R08.2'
    b = ctx.body(DT + 'add_quad', R)
    an = ctx.an(b)
    key = 'draw_target::DrawTarget::add_quad'
    cs = [(bi, ct) for bi, d, ct in calls_in(ctx, b) if d == RAS + 'add_edge']
    ctx.floor(R, 'add_edge calls in add_quad', len(cs), 3)
    def idx_of(t):
        """(root kind, k) for dst[k] / curve[k]"""
        t = strip_all(t)
        if t[0] == 'cidx':
            return strip_all(t[1]), t[2]
        if t[0] == 'index':
            return strip_all(t[1]), const_val(t[2])
        return None, None
    chop_sites = []
    plain = []
    for bi, ct in cs:
        (r1, i1), (r2, i2), (r3, i3) = idx_of(ct[2][1]), idx_of(ct[2][2]), idx_of(ct[2][4])
        if r1 is None:
            ctx.fail(R, key + '|edge operands', call_line(b, bi), 'add_edge operands are not array elements: %s' % fmt(b, ct))
            continue
        is_dst = r1[0] == 'mem' and (b.locals[r1[1]].get('ty', '').endswith('; 5]'))
        if is_dst and r1 == r2 == r3:
            chop_sites.append((bi, (i1, i2, i3)))
        else:
            plain.append((bi, (r1, i1), (r2, i2), (r3, i3)))
    _snap = list(chop_sites)
    chop_sites = sorted(_snap, key=lambda p: sum(1 for q in _snap if an.cfg.dominates(q[0], p[0])))
    ok = [x[1] for x in chop_sites] == [(0, 2, 1), (2, 4, 3)]
    ctx.check(ok, R, key + '|chopped halves', b.loc(), 'edges (dst[0], dst[2], ctrl dst[1]) and (dst[2], dst[4], ctrl dst[3])',
              'after chopping, add_quad adds edges %s (start, end, control indices into dst); expected (0,2,1) then (2,4,3): the two halves must chain and keep their own control point' % [x[1] for x in chop_sites])
    # (the unchopped edge may be added at more than one place — e.g. once for a monotonic curve and once after forcing
    # monotonicity — but always as (curve[0], curve[2]) with control curve[1])
    okp = len(plain) >= 1 and all(p[1][1] == 0 and p[2][1] == 2 and p[3][1] == 1 and p[1][0] == p[2][0] == p[3][0] for p in plain)
    ctx.check(okp, R, key + '|unchopped', b.loc(), 'monotonic curve: edge (curve[0], curve[2], ctrl curve[1])', 'the unchopped route does not add the edge (curve[0], curve[2]) with control curve[1]')
    # the chop path is under is_not_monotonic and valid_unit_divide; chop_quad_at(&curve, &mut dst, t)
    for bi, idxs in chop_sites:
        gs = normalized_guards(ctx, b, bi)
        ok1 = any(op == 'true' and is_call(a, 'geom::is_not_monotonic') for op, a, b2, si in gs)
        ok2 = any(op == 'true' and is_call(a, 'geom::valid_unit_divide') for op, a, b2, si in gs) or \
            any(v == 'Some' and is_call(strip_all(scr), 'geom::valid_unit_divide') for scr, adt, v, sb in variant_guards(ctx, b, bi))   # ... -> Option<f32>
        ctx.check(ok1 and ok2, R, key + '|chop guards@%s' % (idxs,), call_line(b, bi), 'chopping under is_not_monotonic && valid_unit_divide', 'the chopped edges are not guarded by is_not_monotonic and valid_unit_divide')
    chops = [ct for bi, d, ct in calls_in(ctx, b) if d == 'raqote::geom::chop_quad_at']
    ok = len(chops) == 1 and strip_all(chops[0][2][1])[0] == 'mem'
    ctx.check(ok, R, key + '|chop call', b.loc(), 'chop_quad_at(&curve, &mut dst, t)', 'add_quad does not chop the curve into dst with chop_quad_at')
    # the forced-monotonic fallback: the control ordinate snaps to the *nearer* of the two end ordinates
    # (reached when is_not_monotonic holds but no chop parameter exists, e.g. control level with the start: snapping to
    # the far end would turn a rounded corner into a straight diagonal)
    forced = [d for d in an.defs_of.get(2, []) if d.kind == 'assign' and d.partial and d.node['p']['pr'] and d.node['p']['pr'][-1].get('n') == 'y']
    if ctx.check(len(forced) == 1, R, key + '|forced monotonic store', b.loc(), 'one store to curve[k].y', 'expected one store to the control ordinate of `curve` in add_quad, found %d (fail closed)' % len(forced)):
        d = forced[0]
        pr0 = d.node['p']['pr'][0]
        kidx = None
        if pr0['k'] == 'index':
            kidx = const_val(an.term_at(d.bb, d.idx, {'k': 'copy', 'p': {'l': pr0['l'], 'pr': []}}))
        elif pr0['k'] == 'cidx':
            kidx = pr0.get('off', pr0.get('i'))
        ctx.check(kidx == 1, R, key + '|forced monotonic target', b.loc(d.node['sp']), 'the fallback overwrites curve[1].y', 'the forced-monotonic fallback overwrites curve[%s].y, expected the control point curve[1].y' % kidx)
        v = an.rvalue_term(d.bb, d.idx, d.node['rv'])
        def ord_of(t):
            t = strip_all(t)
            if t[0] == 'field' and t[2] == 'y':
                r = strip_all(t[1])
                if r[0] == 'index' and strip_all(r[1]) in (('param', 2), ('phi', 2, ())) or (r[0] == 'index' and strip_all(r[1])[0] in ('param', 'phi') and strip_all(r[1])[1] == 2):
                    return const_val(r[2])
            return None
        def dist_end(t):
            # |curve[1].y - curve[k].y| -> k
            t = strip_all(t)
            if not is_call(t, '::abs'):
                return None
            x = strip_all(t[2][0])
            if x[0] == 'bin' and x[1] == 'Sub':
                ks = sorted([ord_of(x[2]), ord_of(x[3])], key=lambda z: (z is None, z))
                if ks[0] == 1 and ks[1] in (0, 2):
                    return ks[1]
                if ks[0] == 0 and ks[1] == 1:
                    return 0
            return None
        choices = []
        if v[0] == 'phi':
            for dk in v[2]:
                dd = an.defs[dk]
                if dd.kind != 'assign':
                    choices.append((None, None))
                    continue
                val = ord_of(an.def_term(dd))
                near = None
                for op, a, b2, si in normalized_guards(ctx, b, dd.bb):
                    neg = op.startswith('!')
                    o = op.lstrip('!')
                    if o in ('Lt', 'Le', 'Gt', 'Ge') and b2 is not None and dist_end(a) is not None and dist_end(b2) is not None:
                        smaller_is_lhs = (o in ('Lt', 'Le')) != neg
                        near = dist_end(a) if smaller_is_lhs else dist_end(b2)
                choices.append((val, near))
        okn = len(choices) == 2 and sorted(c[0] for c in choices if c[0] is not None) == [0, 2] and all(c[0] == c[1] for c in choices)
        ctx.check(okn, R, key + '|forced monotonic snaps to the nearer end', b.loc(d.node['sp']), 'curve[1].y := nearer of curve[0].y / curve[2].y',
                  'the forced-monotonic fallback does not set the control ordinate to the nearer of the two end ordinates (value chosen / end that is nearer under the guard: %s): a quad whose control point is level with its start is bent to its far end and the curve degenerates to a straight diagonal' % choices)
    # axis symmetry of the interpolation helpers
    bx = ctx.body('raqote::geom::interp_quad_x_coords', R)
    by = ctx.body('raqote::geom::interp_quad_y_coords', R)
    def shape(bb, ax):
        an2 = ctx.an(bb)
        out = []
        for a, v, pt, kind in an2.stores:
            if kind != 'assign':
                continue
            t = nosite(('st', a, v))
            out.append(repr(t).replace("'%s'" % ax, "'AX'"))
        return sorted(out)
    ctx.check(shape(bx, 'x') == shape(by, 'y') and len(shape(bx, 'x')) == 5, R, 'geom::interp_quad_{x,y}_coords|axis symmetry', bx.loc(), 'x and y interpolation are the same function of their axis', 'interp_quad_x_coords and interp_quad_y_coords differ beyond the axis they work on (chop_quad_at must split x and y at the same parameter the same way)')
    cb = ctx.body('raqote::geom::chop_quad_at', R)
    names = [d for bi, d, ct in calls_in(ctx, cb) if d and d.startswith('raqote::geom::interp_quad_')]
    ctx.check(sorted(names) == ['raqote::geom::interp_quad_x_coords', 'raqote::geom::interp_quad_y_coords'], R, 'geom::chop_quad_at|both axes', cb.loc(), 'chops x and y', 'chop_quad_at does not interpolate both axes exactly once')


# ====================================================================== C10
def ras_field_writes(ctx, q):
    """fields of Rasterizer stored to (directly) in body q with self = param 1"""
    b = ctx.F.body(q)
    out = set()
    if b is None:
        return out
    an = ctx.an(b)
    for a, v, pt, kind in an.stores:
        r, nm = field_path(a)
        if r == ('param', 1) and nm and kind in ('assign', 'call'):
            if any(x[0] == 'field' and x[3] == 'raqote::rasterizer::Rasterizer' for x in subterms(a)):
                out.add(nm[0])
    # a field whose address is taken mutably (`&mut self.active_edges as *mut _`: the list head is rewritten through
    # the pointer) is dirtied as well
    for blk in b.blocks:
        for st in blk['st']:
            if st.get('k') == 'assign' and st['rv'].get('k') in ('ref', 'rawptr') and st['rv'].get('mut', st['rv'].get('k') == 'rawptr'):
                p = st['rv']['p']
                if p['l'] == 1 and len(p['pr']) >= 2 and p['pr'][0].get('k') == 'deref' and p['pr'][1].get('k') == 'field' and p['pr'][1].get('adt') == 'raqote::rasterizer::Rasterizer' and len(p['pr']) == 2:
                    out.add(p['pr'][1]['n'])
    return out


def r10_1(ctx):
    """reset pairs with use"""
    R = 'R10.1'
    users = {}
    for q, b in ctx.F.bodies.items():
        for bi, d, ct in calls_in(ctx, b):
            if d in (DT + 'apply_path', RAS + 'rasterize', RAS + 'add_edge'):
                users.setdefault(q, []).append((bi, d))
    allowed_direct = {DT + 'fill', DT + 'push_clip'}
    helpers = {DT + 'apply_path', DT + 'line_to', DT + 'add_quad', DT + 'close', DT + 'quad_to', DT + 'cubic_to', DT + 'cubic_to::{closure#0}', DT + 'move_to', RAS + 'rasterize'}
    for q in sorted(users):
        if q in helpers:
            continue
        b = ctx.F.body(q)
        an = ctx.an(b)
        key = short(q)
        if q not in allowed_direct:
            # a further user of the shared rasteriser (a new entry point): the same law applies to it — that it is a method
            # of DrawTarget taking `&mut self` is what makes the rasteriser its to use
            okm = q.startswith(DT) and b.argc >= 1 and b.local_ty(1).startswith('&mut') and 'DrawTarget' in b.local_ty(1)
            if not ctx.check(okm, R, key + '|uses the rasteriser', b.loc(), 'a DrawTarget method with exclusive access', '%s feeds or runs the shared rasteriser but is neither one of the audited entry points %s nor a `&mut self` method of DrawTarget' % (short(q), sorted(short(x) for x in allowed_direct))):
                continue
        resets = set(bi for bi, d, ct in calls_in(ctx, b) if d == RAS + 'reset')
        first = [bi for bi, d in users[q]]
        ok = bool(resets)
        bad = None
        for bi in first:
            good, path = an.cfg.must_pass_through(bi, resets - {bi})
            if not good:
                ok = False
                bad = path
        ctx.check(ok, R, key + '|reset on every path', b.loc(), 'every path from the first edge insertion to return passes Rasterizer::reset',
                  '%s can return after adding edges without calling Rasterizer::reset (path through blocks %s): the edges would leak into the next drawing call' % (short(q), bad))
    ctx.floor(R, 'entry points using the rasteriser', len(set(users) & allowed_direct), 2)


def r10_2(ctx):
    """reset covers what was dirtied"""
    R = 'R10.2'
    b = ctx.body(RAS + 'reset', R)
    an = ctx.an(b)
    cfg = an.cfg
    key = 'rasterizer::Rasterizer::reset'
    dirty = set()
    for q in (RAS + 'add_edge', RAS + 'rasterize', RAS + 'step_edges', RAS + 'insert_starting_edges', RAS + 'scan_edges', RAS + 'sort_edges'):
        ctx.body(q, R)
        dirty |= ras_field_writes(ctx, q)
    # any other method of Rasterizer that writes its fields (a setter added later, say) dirties them as well; only the
    # constructor and reset() itself are exempt
    for q, ob in ctx.F.bodies.items():
        if ob.impl_self == 'raqote::rasterizer::Rasterizer' and not ob.impl_trait and q not in (RAS + 'new', RAS + 'reset') and '::{closure' not in q:
            dirty |= ras_field_writes(ctx, q)
    # the arena is dirtied by allocation through a shared reference
    ab = ctx.body(RAS + 'add_edge', R)
    if any(d and d.endswith('Arena::<T>::alloc') for bi, d, ct in calls_in(ctx, ab)):
        dirty.add('edge_arena')
    dirty.discard('cur_y')      # unconditionally re-initialised at the start of rasterize (checked below)
    ctx.check({'edge_starts', 'active_edges', 'bounds_top', 'bounds_bottom', 'bounds_left', 'bounds_right', 'edge_arena'} <= dirty, R, key + '|dirty set (positive control)', b.loc(), 'dirty fields: %s' % sorted(dirty), 'cannot recover the fields dirtied by add_edge/rasterize (found %s): fail closed' % sorted(dirty))
    rb = ctx.body(RAS + 'rasterize', R)
    ran = ctx.an(rb)
    cy = [(a, v, pt) for a, v, pt, kind in ran.stores if kind == 'assign' and field_path(a) == (('param', 1), ['cur_y'])]
    loops = ran.cfg.loops()
    inloop = set()
    for h, bl in loops.items():
        inloop |= bl
    ctx.check(any(pt[0] not in inloop and ran.cfg.dominates(pt[0], min(inloop) if inloop else 0) for a, v, pt in cy), R, 'rasterizer::Rasterizer::rasterize|cur_y initialised', rb.loc(), 'cur_y set before the scan loop', 'rasterize does not initialise cur_y before its scan loop')
    # early-out test: bounds_bottom < bounds_top
    early = None
    for si, t in b.terminators('switch'):
        blk = b.blocks[si]
        c = an.term_at(si, len(blk['st']), t['o'])
        if c[0] == 'bin' and c[1] == 'Lt' and is_self_field(c[2], 'bounds_bottom') and is_self_field(c[3], 'bounds_top'):
            early = (si, t['otherwise'])
    if not ctx.check(early is not None or True, R, key + '|early-out', b.loc(), 'early-out recognised' if early else 'no early-out', ''):
        return
    early_blocks = set()
    if early is not None:
        si, tt = early
        early_blocks = set(x for x in cfg.reach if cfg.edge_dominates(si, tt, x))
    for f in sorted(dirty):
        st = set(pt[0] for a, v, pt, kind in an.stores if kind in ('assign', 'call') and field_path(a)[0] == ('param', 1) and field_path(a)[1][:1] == [f])
        # writes through `for e in &mut self.edge_starts[a..b] { *e = None }` are seen as a call taking &mut of the field
        ok, path = cfg.must_pass_through(0, st | (early_blocks if f != 'edge_arena' else set()))
        ctx.check(ok and bool(st), R, key + '|resets ' + f, b.loc(), '%s reset on every %s path' % (f, 'path' if f == 'edge_arena' else 'non-early-out'),
                  'reset() can return without re-initialising %s (dirtied by add_edge/rasterize)%s: stale rasteriser state leaks into the next drawing call' % (f, '' if f == 'edge_arena' else ' outside the clean early-out'))
    # values: bounds reset to the empty box, active_edges to None
    want = {'bounds_bottom': lambda v: const_val(v) == 0, 'bounds_right': lambda v: const_val(v) == 0,
            'bounds_top': lambda v: is_call(v, 'dot2_to_int') and is_self_field(v[2][0], 'height'),
            'bounds_left': lambda v: is_call(v, 'dot2_to_int') and is_self_field(v[2][0], 'width'),
            'active_edges': lambda v: strip_all(v)[0] == 'agg' and strip_all(v)[3] == 'None'}
    for f, pred in want.items():
        vals = [v for a, v, pt, kind in an.stores if kind == 'assign' and field_path(a) == (('param', 1), [f])]
        ctx.check(bool(vals) and all(pred(v) for v in vals), R, key + '|value of ' + f, b.loc(), '%s reset to its empty value' % f, 'reset() sets %s to %s, not to the value Rasterizer::new gives it' % (f, [fmt(b, v) for v in vals]))
    # cleared range of edge_starts == scanned range of rasterize
    def rng_terms(an2, bb):
        s = e = None
        for d in an2.defs:
            if d.kind != 'assign' and d.kind != 'call':
                continue
            nm = bb.locals[d.local].get('name')
            if nm == 'start':
                s = nosite(strip_casts(an2.def_term(d)))
            if nm == 'end':
                e = nosite(strip_casts(an2.def_term(d)))
        return s, e
    s1, e1 = rng_terms(an, b)
    s2, e2 = rng_terms(ran, rb)
    def form(t, fld, fn, other):
        return t is not None and is_call(t, fn) and is_call(t[2][0], 'int_to_dot2') and is_self_field(t[2][0][2][0], fld) and other(t[2][1])
    oks = form(s1, 'bounds_top', '::max', lambda o: const_val(o) == 0) and form(s2, 'bounds_top', '::max', lambda o: const_val(o) == 0)
    oke = form(e1, 'bounds_bottom', '::min', lambda o: is_self_field(o, 'height')) and form(e2, 'bounds_bottom', '::min', lambda o: is_self_field(o, 'height'))
    ctx.check(oks and oke and s1 == s2 and e1 == e2, R, key + '|cleared range == scanned range', b.loc(), 'edge_starts[start..end] cleared over the range rasterize scans',
              'reset() clears edge_starts over (%s, %s) but rasterize scans (%s, %s): rows with pending edges can be left behind' % (fmt(b, s1) if s1 else '?', fmt(b, e1) if e1 else '?', fmt(rb, s2) if s2 else '?', fmt(rb, e2) if e2 else '?'))
    # the slice that is cleared uses those bounds
    sl = [ct for bi, d, ct in calls_in(ctx, b) if d and d.endswith('IndexMut::index_mut') and is_self_field(strip_all(ct[2][0]), 'edge_starts')]
    ok = len(sl) == 1 and sl[0][2][1][0] == 'agg'
    if ok:
        f2 = dict(sl[0][2][1][4])
        ok = nosite(strip_casts(f2.get('start', ('u',)))) == s1 and nosite(strip_casts(f2.get('end', ('u',)))) == e1
    ctx.check(ok, R, key + '|cleared slice', b.loc(), 'edge_starts[start..end]', 'reset() does not clear edge_starts[start..end]')


def r10_3(ctx):
    """bounds cover every insertion"""
    R = 'R10.3'
    b = ctx.body(RAS + 'add_edge', R)
    an = ctx.an(b)
    key = 'rasterizer::Rasterizer::add_edge'
    ins = [pt for a, v, pt, kind in an.stores if kind == 'assign' and field_path(a) == (('param', 1), ['edge_starts'])]
    if not ctx.check(len(ins) >= 1, R, key + '|insertion site', b.loc(), 'store into edge_starts found', 'no store into edge_starts found (fail closed)'):
        return
    for f in ('bounds_top', 'bounds_bottom', 'bounds_left', 'bounds_right'):
        st = set(pt[0] for a, v, pt, kind in an.stores if kind == 'assign' and field_path(a) == (('param', 1), [f]))
        ok = bool(st) and all(not an.cfg.can_reach(0, [pt[0]], removed=st - {pt[0]}) or pt[0] in st for pt in ins)
        ctx.check(ok, R, key + '|%s before insertion' % f, b.loc(), '%s updated on every path to the insertion' % f,
                  'an edge can be inserted into edge_starts without %s having been updated: get_bounds()/reset() would not cover it' % f)


def r10_4(ctx):
    """no stale scratch state: apply_path re-initialises the path cursor before reading it"""
    R = 'R10.4'
    b = ctx.body(DT + 'apply_path', R)
    an = ctx.an(b)
    cfg = an.cfg
    key = 'draw_target::DrawTarget::apply_path'
    readers = [bi for bi, d, ct in calls_in(ctx, b) if d in (DT + 'move_to', DT + 'line_to', DT + 'quad_to', DT + 'cubic_to', DT + 'close')]
    if not ctx.check(len(readers) >= 5, R, key + '|cursor users', b.loc(), '%d calls that read/write the path cursor' % len(readers), 'cannot find the op calls in apply_path (fail closed)'):
        return
    for f in ('current_point', 'first_point'):
        st = set()
        for a, v, pt, kind in an.stores:
            if kind == 'assign' and field_path(a) == (('param', 1), [f]):
                vv = strip_all(v)
                if vv[0] == 'agg' and vv[3] == 'None':
                    st.add(pt[0])
        # every path from entry to a cursor user passes a reset of the field
        ok = bool(st) and all(not cfg.can_reach(0, [r], removed=st) or r in st for r in readers)
        ctx.check(ok, R, key + '|%s reset per path' % f, b.loc(), '%s := None before the first op of every path' % f,
                  'apply_path reads self.%s (through line_to/quad_to/cubic_to/close) without resetting it first: it still holds the previous path\'s value, so a path that starts with line_to/quad_to continues from the previous drawing call\'s subpath start (a fresh DrawTarget starts it at its own first point)' % f)


# ====================================================================== C01
BLIT = 'raqote::blitter::'


def const_of(ctx, q):
    c = ctx.F.consts.get(q)
    if c is None or c.get('val') is None:
        return None
    try:
        return int(c['val'])
    except ValueError:
        return float(c['val'])


def r01_1(ctx):
    """sorted-at-scan typestate of the active edge list in Rasterizer::rasterize"""
    R = 'R01.1'
    b = ctx.body(RAS + 'rasterize', R)
    an = ctx.an(b)
    cfg = an.cfg
    key = 'rasterizer::Rasterizer::rasterize'
    eff = {RAS + 'insert_starting_edges': ('S', 'S'), RAS + 'scan_edges': ('S', 'S'), RAS + 'step_edges': (None, 'U'), RAS + 'sort_edges': (None, 'S')}
    call_at = {}
    for bi, d, ct in calls_in(ctx, b):
        if d in eff:
            call_at[bi] = d
    ctx.floor(R, 'edge-list calls in rasterize', len(call_at), 4)
    ctx.check(set(call_at.values()) == set(eff), R, key + '|all four phases', b.loc(), 'insert, scan, step, sort all called', 'rasterize calls %s; expected insert_starting_edges, scan_edges, step_edges and sort_edges' % sorted(short(x) for x in set(call_at.values())))
    # forward dataflow: state at block entry (set of 'S'/'U'); entry: S (reset() leaves the list empty, R10.2)
    IN = {0: frozenset('S')}
    work = [0]
    bad = {}
    while work:
        x = work.pop()
        st = set(IN[x])
        if x in call_at:
            req, post = eff[call_at[x]]
            if req is not None and st != {req}:
                bad[x] = call_at[x]
            st = {post}
        for y in cfg.succ[x]:
            new = frozenset(IN.get(y, frozenset()) | st)
            if new != IN.get(y):
                IN[y] = new
                work.append(y)
    for bi, d in sorted(call_at.items()):
        if eff[d][0] is None:
            continue
        ctx.check(bi not in bad, R, key + '|%s needs a sorted list' % d.split('::')[-1], call_line(b, bi), '%s reached only with a sorted active list' % d.split('::')[-1],
                  '%s can be reached while the active edge list may be unsorted (after step_edges without sort_edges, around the scan loop): spans would be produced from edges in the wrong x order' % short(d))


def r01_13(ctx):
    """every sample row in the scan window is scanned: inside rasterize's loop, cur_y only ever advances by one, and it
    advances either after scan_edges has run for the row, or past a row that was looked at and found to have no starting
    edge while no edge is active (the only rows that cannot produce a span)"""
    R = 'R01.13'
    b = ctx.body(RAS + 'rasterize', R)
    an = ctx.an(b)
    cfg = an.cfg
    key = 'rasterizer::Rasterizer::rasterize'
    inloop = set()
    for h, bl in cfg.loops().items():
        inloop |= bl
    scans = set(bi for bi, d, ct in calls_in(ctx, b) if d == RAS + 'scan_edges')
    cy = [(a, v, pt) for a, v, pt, kind in an.stores if kind == 'assign' and field_path(a) == (('param', 1), ['cur_y']) and pt[0] in inloop]
    ctx.floor(R, 'advances of cur_y inside the scan loop', len(cy), 1)
    for a, v, pt in cy:
        v0 = strip_all(v)
        step = None
        if v0[0] in ('bin', 'ovf') and v0[1] == 'Add':
            for x, y in ((v0[2], v0[3]), (v0[3], v0[2])):
                if is_self_field(strip_all(x), 'cur_y') and const_val(strip_all(y)) is not None:
                    step = const_val(strip_all(y))
        where = call_line(b, pt[0])
        k2 = key + '|cur_y advance at bb%d' % sorted(x[2][0] for x in cy).index(pt[0])
        if not ctx.check(step == 1, R, k2 + ' by one', where, 'cur_y += 1', 'rasterize advances cur_y by %s inside its scan loop: sample rows are passed over, and edges that start on them are never inserted (their polygon loses them)' % (fmt(b, v) if step is None else step)):
            continue
        # is the store on a cycle that avoids scan_edges?
        free = cfg.cycle_through(pt[0], inloop, scans) if hasattr(cfg, 'cycle_through') else True
        if not free:
            ctx.ok(R, k2 + ' after scanning', where, 'every cycle through the advance runs scan_edges')
            continue
        # then the row must have been found empty: edge_starts[cur_y] is None and active_edges is None dominate the store
        vg = variant_guards(ctx, b, pt[0])
        facts = bool_guards(ctx, b, pt[0])
        def none_of(pred):
            for scr, adt, vv, sb in vg:
                if vv == 'None' and pred(strip_all(scr)):
                    return True
            for cond, truth, si in facts:
                c = strip_all(cond)
                if c[0] == 'call' and isinstance(c[1], str) and c[1].endswith('Option::<T>::is_none') and truth and pred(strip_all(c[2][0])):
                    return True
                if c[0] == 'call' and isinstance(c[1], str) and c[1].endswith('Option::<T>::is_some') and not truth and pred(strip_all(c[2][0])):
                    return True
            return False
        def is_row_bucket(t):
            if t[0] != 'index':
                return False
            base, idx = strip_all(t[1]), strip_all(t[2])
            while idx[0] == 'cast':
                idx = strip_all(idx[3])
            return is_self_field(base, 'edge_starts') and is_self_field(idx, 'cur_y')
        ok = none_of(is_row_bucket) and none_of(lambda t: is_self_field(t, 'active_edges'))
        ctx.check(ok, R, k2 + ' past an empty row only', where, 'row skipped only when edge_starts[cur_y] and active_edges are both None',
                  'rasterize advances cur_y on a cycle that does not run scan_edges, without having found both edge_starts[cur_y] and active_edges empty: a sample row that can produce spans is skipped')


def r01_14(ctx):
    """an active edge's position belongs to the stepping code: across the crate, ActiveEdge::fullx (the x of the edge on
    the current sample row) is stored only by Rasterizer::add_edge (its starting value) and ActiveEdge::step (R08.7
    decides what step stores).  Anything else that adjusts it — a clamp, a snap — moves the crossing off the line the
    forward differences follow."""
    R = 'R01.14'
    allowed = (RAS + 'add_edge', 'raqote::rasterizer::ActiveEdge::step')
    n = 0
    bad = []
    for q in sorted(ctx.F.bodies):
        b = ctx.F.body(q)
        for bi, k2, st in b.statements():
            if st['k'] != 'assign':
                continue
            pr = st['p'].get('pr') or []
            if pr and pr[-1].get('k') == 'field' and pr[-1].get('n') == 'fullx' and (pr[-1].get('adt') or '').endswith('rasterizer::ActiveEdge'):
                n += 1
                if q not in allowed and not any(q.startswith(a + '::{closure') for a in allowed):
                    bad.append((q, b, st))
    ctx.floor(R, 'stores to ActiveEdge::fullx', n, 3)
    if bad:
        q, b, st = bad[0]
        ctx.fail(R, short(q) + '|stores the edge position', b.loc(st.get('sp')), '%s stores to ActiveEdge::fullx: the x of an active edge is changed outside add_edge/step, so the crossing on the following sample rows no longer lies on the edge (every later row continues from the adjusted value)' % short(q))
    else:
        ctx.ok(R, 'rasterizer::ActiveEdge.fullx|written by add_edge and step only', '-', '%d stores, all in add_edge / ActiveEdge::step' % n)


# ---------------------------------------------------------------- R01.15: fixed-point format discipline
# The rasteriser mixes three integer formats that the compiler cannot tell apart (all are `i32`): whole pixels, 30.2
# sample coordinates (Dot2) and 16.16 (Dot16).  The formats of the fields are frozen here from the declarations in
# rasterizer.rs (their alias names are erased in MIR); the format of a term follows from the conversion helpers.
FIX_FIELDS = {
    ('raqote::rasterizer::Edge', 'x1'): 'D2', ('raqote::rasterizer::Edge', 'y1'): 'D2', ('raqote::rasterizer::Edge', 'x2'): 'D2',
    ('raqote::rasterizer::Edge', 'y2'): 'D2', ('raqote::rasterizer::Edge', 'control_x'): 'D2', ('raqote::rasterizer::Edge', 'control_y'): 'D2',
    ('raqote::rasterizer::ActiveEdge', 'x2'): 'D2', ('raqote::rasterizer::ActiveEdge', 'y2'): 'D2',
    ('raqote::rasterizer::ActiveEdge', 'fullx'): 'D16', ('raqote::rasterizer::ActiveEdge', 'next_x'): 'D16', ('raqote::rasterizer::ActiveEdge', 'next_y'): 'D16',
    ('raqote::rasterizer::ActiveEdge', 'old_x'): 'D16', ('raqote::rasterizer::ActiveEdge', 'old_y'): 'D16',
    ('raqote::rasterizer::Rasterizer', 'cur_y'): 'D2', ('raqote::rasterizer::Rasterizer', 'width'): 'D2', ('raqote::rasterizer::Rasterizer', 'height'): 'D2',
    ('raqote::rasterizer::Rasterizer', 'bounds_top'): 'PX', ('raqote::rasterizer::Rasterizer', 'bounds_bottom'): 'PX',
    ('raqote::rasterizer::Rasterizer', 'bounds_left'): 'PX', ('raqote::rasterizer::Rasterizer', 'bounds_right'): 'PX',
}
FIX_CONV = {    # helper -> (argument format, result format)
    'raqote::rasterizer::f32_to_dot2': (None, 'D2'), 'raqote::rasterizer::dot2_to_dot16': ('D2', 'D16'), 'raqote::rasterizer::dot16_to_dot2': ('D16', 'D2'),
    'raqote::rasterizer::dot2_to_int': ('D2', 'PX'), 'raqote::rasterizer::int_to_dot2': ('PX', 'D2'),
}


def fix_format(an, t, depth=0):
    """'D2' | 'D16' | 'PX' | None (unknown / a pure number): the fixed-point format of an integer term"""
    t = strip_all(t)
    h = t[0]
    if depth > 12:
        return None
    if h == 'field' and (t[3], t[2]) in FIX_FIELDS:
        return FIX_FIELDS[(t[3], t[2])]
    if h == 'call' and isinstance(t[1], str) and t[1] in FIX_CONV:
        return FIX_CONV[t[1]][1]
    if h == 'cast' and t[1] == 'IntToInt':
        return fix_format(an, t[3], depth + 1)
    if h in ('bin', 'ovf') and t[1] in ('Add', 'Sub', 'AddWithOverflow', 'SubWithOverflow'):
        a, c = fix_format(an, t[2], depth + 1), fix_format(an, t[3], depth + 1)
        # adding a plain number (a rounding bias, a `+ 3` margin) keeps the format
        return a if c is None or a == c else (c if a is None else 'MIXED')
    if h == 'call' and isinstance(t[1], str) and t[1].split('::')[-1] in ('max', 'min') and len(t[2]) == 2:
        a, c = fix_format(an, t[2][0], depth + 1), fix_format(an, t[2][1], depth + 1)
        return a if c is None or a == c else (c if a is None else 'MIXED')
    if h == 'phi':
        fs = set(fix_format(an, x, depth + 1) for x in an.phi_terms(t))
        fs.discard(None)
        return fs.pop() if len(fs) == 1 else (None if not fs else 'MIXED')
    return None


def r01_15(ctx):
    """fixed-point format discipline in the rasteriser: a value stored into a field has the field's format (whole pixels,
    30.2 sample coordinates, 16.16); the conversion helpers receive their input format; sums, differences, min/max and
    comparisons relate values of one format.  The formats are all `i32`, so a 30.2 row stored where a 16.16 row is
    expected compiles and is off by 2^14"""
    R = 'R01.15'
    n = 0
    bad = []
    for q in sorted(ctx.F.bodies):
        if not q.startswith('raqote::rasterizer::'):
            continue
        b = ctx.F.body(q)
        an = ctx.an(b)
        def site(bb):
            return call_line(b, bb)
        # stores into formatted fields
        for a, v, pt, kind in an.stores:
            t = strip_all(a)
            if kind not in ('assign', 'call') or t[0] != 'field' or (t[3], t[2]) not in FIX_FIELDS:
                continue
            n += 1
            want = FIX_FIELDS[(t[3], t[2])]
            got = fix_format(an, v)
            if got is not None and got != want:
                bad.append((q, pt[0], '%s.%s (%s) is assigned %s, a %s value' % (t[3].split('::')[-1], t[2], want, fmt(b, strip_all(v))[:80], got)))
        seen = set()
        def scan(t0, bb):
            for x in subterms(t0):
                k = nosite(x)
                if k in seen:
                    continue
                seen.add(k)
                if x[0] == 'call' and isinstance(x[1], str) and x[1] in FIX_CONV and FIX_CONV[x[1]][0] and x[2]:
                    got = fix_format(an, x[2][0])
                    if got is not None and got != FIX_CONV[x[1]][0]:
                        bad.append((q, bb, '%s is applied to %s, a %s value (it converts from %s)' % (x[1].split('::')[-1], fmt(b, strip_all(x[2][0]))[:80], got, FIX_CONV[x[1]][0])))
                if x[0] == 'bin' and x[1] in ('Add', 'Sub', 'Lt', 'Le', 'Gt', 'Ge', 'Eq', 'Ne'):
                    a2, c2 = fix_format(an, x[2]), fix_format(an, x[3])
                    if a2 and c2 and a2 != c2 and 'MIXED' not in (a2, c2):
                        bad.append((q, bb, '%s relates a %s value and a %s value' % (fmt(b, x)[:100], a2, c2)))
        for d in an.defs:
            if d.kind == 'assign' and not d.partial and d.bb in an.cfg.reach:
                scan(an.def_term(d), d.bb)
        for bi, dd, ct in calls_in(ctx, b):
            scan(ct, bi)
        for si, t in b.terminators('switch'):
            if si in an.cfg.reach:
                scan(an.term_at(si, len(b.blocks[si]['st']), t['o']), si)
    ctx.floor(R, 'stores into fixed-point fields of the rasteriser', n, 20)
    if bad:
        q, bb, msg = bad[0]
        b = ctx.F.body(q)
        ctx.fail(R, short(q) + '|fixed-point formats agree', call_line(b, bb), 'in %s: %s — the formats are all i32, so this compiles; the value is off by a power of two (%d such places)' % (short(q), msg, len(bad)))
    else:
        ctx.ok(R, 'rasterizer|fixed-point formats agree', '-', '%d stores, conversions and comparisons agree on whole pixels / 30.2 / 16.16' % n)


def r01_2(ctx):
    """every edge the scan cursor passes contributes its winding"""
    R = 'R01.2'
    b = ctx.body(RAS + 'scan_edges', R)
    an = ctx.an(b)
    cfg = an.cfg
    key = 'rasterizer::Rasterizer::scan_edges'
    wl = named_local_idx(b, 'winding')
    loops = cfg.loops()
    n = 0
    for h, bl in sorted(loops.items()):
        adv = set()
        acc = set()
        for d in an.defs:
            if d.bb not in bl or d.kind != 'assign' or d.partial:
                continue
            t = an.def_term(d)
            # cursor advance: x = e.next
            if t[0] == 'field' and t[2] == 'next' and (t[3] or '').endswith('ActiveEdge'):
                adv.add(d.bb)
            if t[0] == 'bin' and t[1] == 'Add':
                w = strip_casts(t[3])
                if w[0] == 'field' and w[2] == 'winding' and (w[3] or '').endswith('ActiveEdge') and t[2][0] in ('phi', 'rec', 'const'):
                    acc.add(d.bb)
        if not adv:
            continue
        n += 1
        # every cycle passes an advance (it is a list walk) and every cycle passes an accumulation
        ok = not cfg.cyclic_without(bl, acc)
        ctx.check(ok, R, key + '|loop@%s accumulates' % ('left-of-surface' if n == 1 else 'span'), b.loc(), 'every cycle adds e.winding', 'a loop of scan_edges can advance to the next edge without adding the edge\'s winding to the counter: edges (e.g. those left of the surface) are dropped from the winding number')
    ctx.floor(R, 'edge-walking loops in scan_edges', n, 2)


def named_local_idx(b, name):
    for i, l in enumerate(b.locals):
        if l.get('name') == name:
            return i
    return None


def r01_3(ctx):
    R = 'R01.3'
    b = ctx.body(RAS + 'scan_edges', R)
    key = 'rasterizer::Rasterizer::scan_edges'
    wl = named_local_idx(b, 'winding')
    def count_pred(t):
        return t[0] in ('phi', 'rec') and (t[0] == 'rec' or True)
    shared.winding_table(ctx, b, R, key, lambda t: t == ('param', 3), count_pred)
    # the span is blitted only when inside
    an = ctx.an(b)
    bs = [(bi, ct) for bi, d, ct in calls_in(ctx, b) if d == 'raqote::blitter::RasterBlitter::blit_span']
    ok = len(bs) == 1
    if ok:
        gs = normalized_guards(ctx, b, bs[0][0])
        ok = any(op == 'true' and a[0] in ('phi', 'rec') for op, a, b2, si in gs)
        # mask form of the winding test: the guard is the test itself, (count & mask) != 0
        mt = getattr(ctx, 'mask_tests', set())
        ok = ok or any(op == 'Ne' and nosite(('bin', 'Ne', a, b2)) in mt for op, a, b2, si in gs if b2 is not None)
    ctx.check(ok, R, key + '|blit only when inside', b.loc(), 'blit_span under `inside`', 'scan_edges does not blit spans exactly under the inside test')


def r01_5(ctx):
    """raster blitter siblings: rebasing, clamp, row index"""
    R = 'R01.5'
    SHIFT = const_of(ctx, 'raqote::blitter::SHIFT')
    SCALE = const_of(ctx, 'raqote::blitter::SCALE')
    if not ctx.check(SHIFT is not None and SCALE is not None, R, 'blitter consts', '-', 'SHIFT=%s SCALE=%s' % (SHIFT, SCALE), 'cannot read blitter::SHIFT / SCALE (fail closed)'):
        return
    P = lambda i: Poly.leaf(('param', i))
    for ty in ('MaskSuperBlitter', 'MaskBlitter'):
        b = ctx.body('<%s%s as raqote::blitter::RasterBlitter>::blit_span' % (BLIT, ty), R)
        an = ctx.an(b)
        key = 'blitter::%s::blit_span' % ty
        SF = lambda n: Poly.leaf(('field', ('deref', ('param', 1)), n, BLIT + ty, None))
        Y, X1, X2 = P(2) - SF('y'), P(3) - SF('x'), P(4) - SF('x')
        ROW = Poly.leaf(('bin', 'Div', ('poly', Y), ('poly', Poly.const(SCALE)))) * SF('width')
        ROW_SHR = Poly.leaf(('bin', 'Shr', ('poly', Y), ('poly', Poly.const(SHIFT)))) * SF('width')   # same row for y >= 0
        # which of the two equivalent spellings the code uses
        body_txt = set()
        for bi0, k0, s0 in b.statements():
            if s0['k'] == 'assign' and s0['rv']['k'] == 'binop' and s0['rv']['op'] == 'Shr':
                t0 = an.rvalue_term(bi0, k0, s0['rv'])
                if poly(t0[2]) == Y:
                    ROW = ROW_SHR
        # all accesses to self.buf
        idxs = []
        for bi, d, ct in calls_in(ctx, b):
            if d and d.endswith('IndexMut::index_mut') and is_self_field(strip_all(ct[2][0]), 'buf'):
                idxs.append((bi, ct[2][1]))
        for a, v, pt, kind in an.stores:
            if kind == 'assign' and a[0] == 'index' and is_self_field(strip_all(a[1]), 'buf'):
                idxs.append((pt[0], a[2]))
        if not ctx.check(len(idxs) >= 1, R, key + '|buffer access', b.loc(), 'mask buffer access found', 'no access to self.buf found (fail closed)'):
            continue
        def clamp_ok(t):
            """t == min(x2 - self.x, self.width * SCALE)"""
            t = strip_all(t)
            return is_call(t, '::min') and poly(t[2][0]) == X2 and poly(t[2][1]) == SF('width') * Poly.const(SCALE)
        def shr(t):
            t = strip_casts(t)
            if t[0] == 'bin' and t[1] == 'Shr' and poly(t[3]) == Poly.const(SHIFT):
                return t[2]
            return None
        for bi, it in idxs[:1]:
            if it[0] == 'agg':      # MaskSuperBlitter: Range{start, end}
                f = dict(it[4])
                s, e = f['start'], f['end']
                # start = (row as usize) + (x1' >> SHIFT as usize) ; end = row + (clamp >> SHIFT) + 1
                def split(t):
                    """terms added together (flatten Add, dropping casts)"""
                    t = strip_casts(t)
                    if t[0] == 'bin' and t[1] == 'Add':
                        return split(t[2]) + split(t[3])
                    return [t]
                sp, ep = split(s), split(e)
                row_s = [x for x in sp if poly(x) == ROW]
                row_e = [x for x in ep if poly(x) == ROW]
                xs = [shr(x) for x in sp if shr(x) is not None]
                xe = [shr(x) for x in ep if shr(x) is not None]
                one = [x for x in ep if const_val(x) == 1]
                ctx.check(len(row_s) == 1 and len(row_e) == 1, R, key + '|row term', call_line(b, bi), 'row = ((y - self.y) / %d) * width' % SCALE, 'the mask row is not ((y - self.y) / %d) * self.width in both slice bounds' % SCALE)
                ctx.check(len(xs) == 1 and poly(xs[0]) == X1, R, key + '|x1 rebased', call_line(b, bi), 'start column = (x1 - self.x) >> SHIFT', 'the span start column is not (x1 - self.x) >> SHIFT')
                ctx.check(len(xe) == 1 and clamp_ok(xe[0]), R, key + '|x2 clamped', call_line(b, bi), 'end column = min(x2 - self.x, width*SCALE) >> SHIFT', 'the span end is not clamped with min(x2 - self.x, self.width * SCALE) before it indexes the mask row: a span reaching past the right edge writes into the next row / past the buffer')
                ctx.check(len(one) == 1, R, key + '|+1 slice end', call_line(b, bi), 'slice end includes the partial last cell (+1)', 'the slice end lost its +1 (the partially covered last cell)')
            else:                   # MaskBlitter: element index = row + i
                p = poly(it)
                lv = [l for l in p.leaves() if l[0] == 'field' and l[4] == 'Some' and is_call(l[1], 'Iterator::next')]
                ok = len(lv) == 1 and p == ROW + Poly.leaf(lv[0])
                ctx.check(ok, R, key + '|row term', call_line(b, bi), 'index = ((y - self.y) / %d) * width + i' % SCALE, 'the mask index is %s, expected ((y - self.y) / %d) * self.width + i' % (p.show(b), SCALE))
                D = Deps(an)
                D.closure(it)
                rng = [x for x in D.visited if x[0] == 'agg' and x[2] and x[2].endswith('ops::Range')]
                okr = False
                for rg in rng:
                    f = dict(rg[4])
                    a0, a1 = shr(f['start']), shr(f['end'])
                    if a0 is not None and a1 is not None and poly(a0) == X1 and clamp_ok(a1):
                        okr = True
                ctx.check(okr, R, key + '|x range', call_line(b, bi), 'i in ((x1-self.x)>>SHIFT) .. (min(x2-self.x, width*SCALE)>>SHIFT)', 'the columns written are not (x1 - self.x) >> SHIFT .. min(x2 - self.x, self.width*SCALE) >> SHIFT: without the clamp a span reaching past the right edge writes into the next row / past the buffer')
                # only the first sample row of each pixel row is used
                gs = normalized_guards(ctx, b, bi)
                ok0 = any(op in ('!Ne', 'Eq') and const_val(b2) == 0 and a[0] == 'bin' and a[1] == 'Rem' and poly(a[2]) == Y and poly(a[3]) == Poly.const(SCALE) for op, a, b2, si in gs)
                ctx.check(ok0, R, key + '|first sample row only', call_line(b, bi), 'writes only when (y - self.y) % SCALE == 0', 'the aliased blitter does not restrict itself to the first sample row of each pixel row ((y - self.y) % SCALE == 0)')
        # allocation: width*height + 1 (pairs with the +1 slice end)
        nb = ctx.body(BLIT + ty + '::new', R)
        rts = shared.ret_terms(ctx, nb)
        ok = len(rts) == 1 and rts[0][0] == 'agg'
        if ok:
            f = dict(rts[0][4])
            buf = strip_all(f['buf'])
            ok = is_call(buf, 'vec::from_elem') and const_val(buf[2][0]) == 0 and poly(buf[2][1]) == P(3) * P(4) + Poly.const(1)
            ok = ok and poly(f['x']) == P(1) * Poly.const(SCALE) and poly(f['y']) == P(2) * Poly.const(SCALE) and f['width'] == ('param', 3)
        ctx.check(ok, R, 'blitter::%s::new|geometry' % ty, nb.loc(), 'x,y scaled by SCALE; buf = width*height + 1 zero bytes', '%s::new does not store (x*SCALE, y*SCALE, width) with a zeroed buffer of width*height + 1 bytes (the +1 pairs with the slice end of blit_span)' % ty)


def r01_6(ctx):
    """sample-grid constants agree with SAMPLE_SHIFT"""
    R = 'R01.6'
    SS = const_of(ctx, 'raqote::rasterizer::SAMPLE_SHIFT')
    if not ctx.check(SS is not None, R, 'SAMPLE_SHIFT', '-', 'SAMPLE_SHIFT = %s' % SS, 'cannot read rasterizer::SAMPLE_SHIFT (fail closed)'):
        return
    want = {'raqote::blitter::SHIFT': SS, 'raqote::blitter::SCALE': 1 << SS, 'raqote::blitter::MASK': (1 << SS) - 1, 'raqote::blitter::SUPER_MASK': (1 << SS) - 1, 'raqote::rasterizer::SAMPLE_SIZE': float(1 << SS)}
    for q, v in want.items():
        got = const_of(ctx, q)
        if got is None and q not in ctx.F.consts:
            # a named constant that no longer exists cannot be wrong: its uses are literal values in the terms that the
            # geometry rules (R01.5, the clauses below) read
            ctx.note('constant %s not present (merged or inlined): nothing to compare' % short(q))
            continue
        ctx.check(got == v, R, short(q) + '|value', '-', '%s = %s' % (short(q), got), '%s is %s, expected %s for SAMPLE_SHIFT = %d' % (short(q), got, v, SS))
    # conversion helpers
    forms = {'dot2_to_dot16': ('Shl', 16 - SS), 'dot16_to_dot2': ('Shr', 16 - SS), 'dot2_to_int': ('Shr', SS), 'int_to_dot2': ('Shl', SS)}
    for fn, (op, k) in forms.items():
        b = ctx.body('raqote::rasterizer::' + fn, R)
        rts = shared.ret_terms(ctx, b)
        ok = len(rts) == 1 and rts[0][0] == 'bin' and rts[0][1] == op and rts[0][2] == ('param', 1) and poly(rts[0][3]) == Poly.const(k)
        ctx.check(ok, R, 'rasterizer::%s|form' % fn, b.loc(), '%s = val %s %d' % (fn, '<<' if op == 'Shl' else '>>', k), '%s is %s, expected val %s %d' % (fn, [fmt(b, t) for t in rts], '<<' if op == 'Shl' else '>>', k))
    b = ctx.body('raqote::rasterizer::f32_to_dot2', R)
    rts = shared.ret_terms(ctx, b)
    ok = len(rts) == 1 and rts[0][0] == 'cast' and rts[0][1] == 'FloatToInt' and rts[0][3][0] == 'bin' and rts[0][3][1] == 'Mul' and rts[0][3][2] == ('param', 1) and const_val(rts[0][3][3]) == float(1 << SS)
    ctx.check(ok, R, 'rasterizer::f32_to_dot2|form', b.loc(), 'f32_to_dot2 = (val * %d) as i32' % (1 << SS), 'f32_to_dot2 is not (val * SAMPLE_SIZE) as i32')
    # rows per pixel in rasterize
    b = ctx.body(RAS + 'rasterize', R)
    an = ctx.an(b)
    rng = []
    for bi, k2, s in b.statements():
        if s['k'] == 'assign' and s['rv']['k'] == 'agg' and s['rv'].get('adt', '').endswith('ops::Range') and bi in an.cfg.reach:
            rng.append(an.rvalue_term(bi, k2, s['rv']))
    ok = len(rng) == 1 and const_val(dict(rng[0][4])['start']) == 0 and poly(dict(rng[0][4])['end']) == Poly.const(1 << SS)
    ctx.check(ok, R, 'rasterizer::Rasterizer::rasterize|sample rows per pixel', b.loc(), '%d sample rows per pixel row' % (1 << SS), 'rasterize does not scan 1 << SAMPLE_SHIFT = %d sample rows per pixel row' % (1 << SS))
    # rounding constants of the two span ends
    b = ctx.body(RAS + 'scan_edges', R)
    bs = [ct for bi, d, ct in calls_in(ctx, b) if d == 'raqote::blitter::RasterBlitter::blit_span']
    ok = len(bs) == 1
    if ok:
        ends = []
        for a in bs[0][2][2:4]:
            a = strip_all(a)
            if is_call(a, 'rasterizer::dot16_to_dot2') and a[2][0][0] == 'bin' and a[2][0][1] == 'Add':
                ends.append(poly(a[2][0][3]).const_value())
            else:
                ends.append(None)
        half = 1 << (16 - SS - 1)
        ok = ends == [half, half]
        ctx.check(ok, R, 'rasterizer::Rasterizer::scan_edges|rounding', b.loc(), 'both span ends rounded with + %d (half a sample)' % half, 'span ends are rounded with %s before dot16_to_dot2; both must add %d = half of one sample step in 16.16 (round to the nearest quarter pixel)' % (ends, half))
        ctx.check(is_self_field(strip_all(bs[0][2][1]), 'cur_y'), R, 'rasterizer::Rasterizer::scan_edges|row', b.loc(), 'blit_span(cur_y, ..)', 'scan_edges does not blit at the current sample row')
    # coverage arithmetic of the super blitter
    b = ctx.body(BLIT + 'coverage_to_partial_alpha', R)
    rts = shared.ret_terms(ctx, b)
    sh = 8 - 2 * SS
    ok = len(rts) == 1 and strip_casts(rts[0])[0] == 'bin' and strip_casts(rts[0])[1] == 'Shl' and strip_casts(rts[0])[2] == ('param', 1) and poly(strip_casts(rts[0])[3]) == Poly.const(sh)
    ctx.check(ok, R, 'blitter::coverage_to_partial_alpha|shift', b.loc(), 'partial cell alpha = aa << %d' % sh, 'coverage_to_partial_alpha does not shift by 8 - 2*SHIFT = %d' % sh)
    b = ctx.body('<%sMaskSuperBlitter as raqote::blitter::RasterBlitter>::blit_span' % BLIT, R)
    an = ctx.an(b)
    mx = None
    for d in an.defs:
        if b.locals[d.local].get('name') == 'max' and d.kind == 'assign':
            mx = strip_casts(an.def_term(d))
    ok = mx is not None and mx[0] == 'bin' and mx[1] == 'Sub' and poly(mx[2]) == Poly.const(1 << (8 - SS))
    if ok:
        corr = strip_casts(mx[3])
        ok = corr[0] == 'bin' and corr[1] == 'Shr' and poly(corr[3]) == Poly.const(SS)
        if ok:
            inner = strip_casts(corr[2])
            ok = inner[0] == 'bin' and inner[1] == 'Add' and const_val(inner[3]) == 1 and inner[2][0] == 'bin' and inner[2][1] == 'BitAnd' and poly(inner[2][3]) == Poly.const((1 << SS) - 1)
    ctx.check(ok, R, 'blitter::MaskSuperBlitter::blit_span|full cell value', b.loc(), 'full cell = %d - (((y & MASK) + 1) >> SHIFT)' % (1 << (8 - SS)), 'the per-row value of a fully covered cell is not (1 << (8 - SHIFT)) - (((y & MASK) + 1) >> SHIFT) (four rows must add up to 255)')
    # straight edges: slope = dx * (1 << (16 - SHIFT)) / dy
    b = ctx.body(RAS + 'add_edge', R)
    an = ctx.an(b)
    slopes = [v for a, v, pt, kind in an.stores if kind == 'assign' and field_path(a)[1][-1:] == ['slope_x']]
    okl = False
    for v in slopes:
        v = strip_casts(v)
        if v[0] == 'bin' and v[1] == 'Div' and v[2][0] == 'bin' and v[2][1] == 'Mul':
            k = poly(v[2][3]).const_value()
            num = strip_casts(v[2][2])
            den = strip_casts(v[3])
            if k == (1 << (16 - SS)) and num[0] == 'bin' and num[1] == 'Sub' and den[0] == 'bin' and den[1] == 'Sub':
                def coord(t):
                    """(point root, axis) of f32_to_dot2(p.axis) (the Edge fields are seen through) or of edge.<axis><n>"""
                    t = strip_casts(t)
                    if is_call(t, 'rasterizer::f32_to_dot2'):
                        r, nm = field_path(t[2][0])
                        return (r, nm[-1] if nm else None)
                    r, nm = field_path(t)
                    if nm and nm[-1] in ('x1', 'x2', 'y1', 'y2'):
                        return (('edge', nm[-1][1]), nm[-1][0])
                    return (None, None)
                (re, ae), (rs, as_) = coord(num[2]), coord(num[3])
                (re2, ae2), (rs2, as2) = coord(den[2]), coord(den[3])
                if re is not None and rs is not None and re != rs and (ae, as_) == ('x', 'x') and (ae2, as2) == ('y', 'y') and re2 == re and rs2 == rs:
                    okl = True
    ctx.check(okl, R, 'rasterizer::Rasterizer::add_edge|line slope scale', b.loc(), 'slope_x = (x2 - x1) * %d / (y2 - y1)' % (1 << (16 - SS)), 'the slope of a straight edge is not (x2 - x1) * (1 << (16 - SAMPLE_SHIFT)) / (y2 - y1): the 16.16 x advance per sample row has the wrong scale')
    # start x in 16.16
    fx = [v for a, v, pt, kind in an.stores if kind == 'assign' and field_path(a)[1][-1:] == ['fullx']]
    ok = any(is_call(strip_all(v), 'rasterizer::dot2_to_dot16') for v in fx)
    ctx.check(ok, R, 'rasterizer::Rasterizer::add_edge|fullx', b.loc(), 'fullx = dot2_to_dot16(x1)', 'the starting x of an edge is not converted with dot2_to_dot16')


AXIS_NAMES = {'x': 'AX', 'y': 'AX', 'x1': 'A1', 'y1': 'A1', 'x2': 'A2', 'y2': 'A2', 'control_x': 'AC', 'control_y': 'AC',
              'dx': 'DA', 'dy': 'DA', 'ddx': 'DDA', 'ddy': 'DDA'}


def axis_blind(t):
    """the term with every per-axis field name replaced by an axis-neutral one (call sites erased)"""
    t = nosite(t)
    def rec(x):
        if not isinstance(x, tuple):
            return x
        if x and x[0] == 'field' and x[2] in AXIS_NAMES:
            return ('field', rec(x[1]), AXIS_NAMES[x[2]]) + tuple(x[3:])
        return tuple(rec(y) for y in x)
    return rec(t)


def axes_used(t):
    """axes of the per-axis fields a term reads; a whole Edge handed to a callee (compute_curve_steps(&edge), the shared
    subdivision count) is not a per-axis read"""
    s = set()

    def walk(x):
        if not isinstance(x, tuple) or not x:
            return
        if x[0] == 'agg' and isinstance(x[2], str) and x[2].endswith('rasterizer::Edge'):
            return
        if x[0] == 'field' and len(x) == 5 and x[2] in AXIS_NAMES:
            s.add('x' if 'x' in x[2] else 'y')
        for y in x:
            if isinstance(y, tuple):
                walk(y)
    walk(t)
    return s


def first_stores(an, names, skip=None):
    """{field name: (addr, value, point)} the store to each named field that comes first in execution order: the one
    whose block dominates every other store to that field (block numbers say nothing: inlined code is appended)"""
    by = {}
    for a, v, pt, kind in an.stores:
        if kind != 'assign' or pt[0] not in an.cfg.reach:
            continue
        nm = field_path(a)[1][-1:]
        if nm and nm[0] in names and not (skip and skip(nm[0], v)):
            by.setdefault(nm[0], []).append((a, v, pt))
    out = {}
    for n, lst in by.items():
        for c in lst:
            if all(c is o or (c[2][0] == o[2][0] and c[2][1] <= o[2][1]) or (c[2][0] != o[2][0] and an.cfg.dominates(c[2][0], o[2][0])) for o in lst):
                out[n] = c
                break
    return out


def r08_5(ctx):
    """axis twins: the x and y halves of the curve set-up are the same function of their own axis"""
    R = 'R08.5'
    b = ctx.body('raqote::rasterizer::compute_curve_steps', R)
    an = ctx.an(b)
    key = 'rasterizer::compute_curve_steps'
    vals = {}
    for d in an.defs:
        nm = b.locals[d.local].get('name')
        if nm in ('dx', 'dy') and d.kind == 'assign' and not d.partial:
            vals[nm] = an.def_term(d)
    ok = 'dx' in vals and 'dy' in vals and axis_blind(vals['dx']) == axis_blind(vals['dy']) and axes_used(vals['dx']) == {'x'} and axes_used(vals['dy']) == {'y'}
    ctx.check(ok, R, key + '|dx/dy twins', b.loc(), 'dx and dy are the same expression of their own axis',
              'in compute_curve_steps dx = %s and dy = %s are not the same function of their own axis (a field of the other axis slipped in): the subdivision count of some curves is far too small' % (fmt(b, vals.get('dx', ('unknown', '?'))), fmt(b, vals.get('dy', ('unknown', '?')))))
    cs = shared.calls_to(ctx, b, 'raqote::rasterizer::diff_to_shift')
    ok = len(cs) == 1 and all(is_call(a, 'rasterizer::dot2_to_dot6') for a in cs[0][2]) and cs[0][2][0][2][0] == vals.get('dx') and cs[0][2][1][2][0] == vals.get('dy')
    ctx.check(ok, R, key + '|diff_to_shift(dx, dy)', b.loc(), 'shift = diff_to_shift(dot6(dx), dot6(dy))', 'compute_curve_steps does not pass (dx, dy) in that order to diff_to_shift')
    # add_edge: the stores to e.dx/e.dy and e.ddx/e.ddy made first on the curve path
    ab = ctx.body(RAS + 'add_edge', R)
    aan = ctx.an(ab)
    first = {n: c[1] for n, c in first_stores(aan, ('dx', 'dy', 'ddx', 'ddy')).items()}
    for px, py in (('dx', 'dy'), ('ddx', 'ddy')):
        ok = px in first and py in first and axis_blind(first[px]) == axis_blind(first[py]) and axes_used(first[px]) <= {'x'} and axes_used(first[py]) <= {'y'} and axes_used(first[px]) and axes_used(first[py])
        ctx.check(ok, R, 'rasterizer::Rasterizer::add_edge|%s/%s twins' % (px, py), ab.loc(), 'e.%s and e.%s are the same expression of their own axis' % (px, py),
                  'in add_edge the forward-difference coefficient e.%s = %s and e.%s = %s are not the same function of their own axis' % (px, fmt(ab, first.get(px, ('unknown', '?')))[:120], py, fmt(ab, first.get(py, ('unknown', '?')))[:120]))


def r01_9(ctx):
    """sort_edges sorts to a fixpoint: the pass is repeated while the last pass swapped anything, the flag is raised by
    every swap and lowered only between passes, and only strictly out-of-order neighbours are swapped"""
    R = 'R01.9'
    b = ctx.body(RAS + 'sort_edges', R)
    an = ctx.an(b)
    cfg = an.cfg
    key = 'rasterizer::Rasterizer::sort_edges'
    loops = cfg.loops()
    nested = [(h, bl) for h, bl in loops.items() if any(h2 != h and h in bl2 and bl < bl2 for h2, bl2 in loops.items())]
    outer = [(h, bl) for h, bl in loops.items() if any(h2 != h and h2 in bl and loops[h2] < bl for h2 in loops)]
    if not ctx.check(len(nested) == 1 and len(outer) == 1, R, key + '|pass loop inside repeat loop', b.loc(), 'one pass loop nested in one repeat loop',
                     'cannot recover the bubble sort structure (a pass over the list nested in a repeat-until-no-swap loop): %d inner, %d outer loops (fail closed)' % (len(nested), len(outer))):
        return
    (ih, ibl), (oh, obl) = nested[0], outer[0]
    # the repeat test: a bool switch in the outer loop (outside the pass) with one successor leaving the outer loop
    flag = None
    for si, t in b.terminators('switch'):
        if si in obl and si not in ibl and t.get('ty') == 'bool':
            succs = [tt for v, tt in t['targets']] + [t['otherwise']]
            leaves = [x for x in succs if x not in obl and x not in cfg.dead]
            if len(leaves) != 1:
                continue
            c = an.term_at(si, len(b.blocks[si]['st']), t['o'])
            neg = False
            while c[0] == 'un' and c[1] == 'Not':
                c, neg = c[2], not neg
            if c[0] in ('phi', 'rec'):
                l = c[1] if c[0] == 'phi' else an.defs[c[1]].local
                false_t = [tt for v, tt in t['targets'] if v == '0'][0]
                exit_when = (false_t == leaves[0])      # leaves when the tested value is 0
                exit_when_flag = False if (exit_when != neg) else True
                flag = (l, si, exit_when_flag)
    if not ctx.check(flag is not None, R, key + '|repeat test', b.loc(), 'the repeat loop is left on a bool flag', 'cannot find the bool flag whose value ends the repeat loop (fail closed)'):
        return
    fl, fsi, exit_when_flag = flag
    ctx.check(exit_when_flag is False, R, key + '|repeat while swapped', b.loc(b.blocks[fsi]['t'].get('sp')), 'passes repeat while the flag is set',
              'the repeat loop is left when the flag is set: the list is re-scanned only when nothing was swapped')
    lows, highs, other = set(), set(), []
    for d in an.defs_of.get(fl, []):
        if d.kind == 'assign' and not d.partial and const_val(an.def_term(d)) in (0, 1) and an.def_term(d)[0] == 'const':
            (highs if const_val(an.def_term(d)) == 1 else lows).add(d.bb)
        else:
            other.append(d)
    ctx.check(not other, R, key + '|flag is only set/cleared', b.loc(), 'every definition of the flag is a constant',
              'the swap flag is also assigned a computed value (%s): a later comparison in the same pass can lower it again, so a pass that swapped is reported as clean and the list is left unsorted (edges that overtake two neighbours between sample rows)' % [fmt(b, an.def_term(d)) if d.kind == 'assign' else d.kind for d in other])
    ctx.check(bool(lows) and all(x in obl and x not in ibl and cfg.dominates(x, ih) for x in lows), R, key + '|flag lowered between passes only', b.loc(), 'flag := false before each pass, never inside it',
              'the swap flag is lowered inside the pass over the list (or not before it): swaps made earlier in the pass are forgotten')
    # swaps: heap writes inside the pass
    swaps = sorted(set(pt[0] for a, v, pt, kind in an.stores if kind == 'assign' and pt[0] in ibl))
    if not ctx.check(len(swaps) >= 1, R, key + '|swap stores (positive control)', b.loc(), '%d blocks relink list nodes' % len(swaps), 'cannot find the stores that swap two neighbouring edges (fail closed)'):
        return
    bad = []
    for sb in swaps:
        okp, pth = cfg.must_pass_through(sb, highs, exits=[ih])
        # a store after which the flag is raised in the same block counts too
        if not okp:
            bad.append((sb, pth))
    ctx.check(not bad and bool(highs), R, key + '|every swap raises the flag', b.loc(), 'flag := true on every path from a relinking store back to the pass header',
              'two edges can be swapped without raising the swap flag (%s): the sort stops although the list may still be out of order' % bad)
    # the swap guard: strictly greater, this node vs its successor
    okg = True
    seen = []
    for sb in swaps:
        gs = [(op, a, b2) for op, a, b2, si in normalized_guards(ctx, b, sb) if op.lstrip('!') in ('Gt', 'Ge', 'Lt', 'Le') and si in ibl]
        seen += [op for op, a, b2 in gs]
        good = False
        for op, a, b2 in gs:
            a, b2 = strip_all(a), strip_all(b2)
            if not (a[0] == 'field' and a[2] == 'fullx' and b2[0] == 'field' and b2[2] == 'fullx'):
                continue
            if op in ('Lt', '!Ge'):
                a, b2 = b2, a
            elif op not in ('Gt', '!Le'):
                continue
            # a: the node the walk stands on (initialised from the list head), b2: its successor (payload of the link)
            Da, Db = Deps(an), Deps(an)
            Da.closure(a[1]); Db.closure(b2[1])
            succ_payload = any(x[0] == 'field' and x[2] == '0' and x[4] == 'Some' for x in Db.visited)
            good = succ_payload
        okg = okg and good
    ctx.check(okg, R, key + '|swap only when strictly greater', b.loc(), 'neighbours are swapped iff node.fullx > successor.fullx',
              'the swap is not guarded by node.fullx > successor.fullx (guards seen: %s): with >= two edges at the same x are swapped on every pass and the sort never terminates; with the comparison reversed the list is sorted right-to-left and spans are produced in the wrong order' % sorted(set(seen)))


def r01_10(ctx):
    """every rasterisation uses the winding rule of the path that was applied: rasterize(.., path.winding) where `path`
    is the argument handed to apply_path in the same function (fill and push_clip must agree on this)"""
    R = 'R01.10'
    n = 0
    for q, b in sorted(ctx.F.bodies.items()):
        sites = [(bi, ct) for bi, d, ct in calls_in(ctx, b) if d == RAS + 'rasterize']
        if not sites:
            continue
        aps = [ct for bi, d, ct in calls_in(ctx, b) if d == DT + 'apply_path']
        for bi, ct in sites:
            n += 1
            w = strip_all(ct[2][2])
            ok = False
            shown = fmt(b, w)
            if len(aps) == 1:
                def peel(t):
                    t = strip_all(t)
                    while t[0] in ('ref', 'deref'):
                        t = strip_all(t[1])
                    return t
                p = peel(aps[0][2][1])
                ok = w[0] == 'field' and w[2] == 'winding' and peel(w[1]) == p and p[0] == 'param'
            ctx.check(ok, R, '%s|rasterize winding' % short(q), call_line(b, bi), 'rasterize(.., path.winding) of the applied path',
                      '%s rasterises with the winding rule %s instead of the winding of the path it applied: an even-odd path is filled (or used as a clip) with the wrong rule, e.g. the holes of an even-odd clip path are treated as inside' % (short(q), shown))
    ctx.floor(R, 'rasterize call sites', n, 3)


def r10_5(ctx):
    """every constructor of DrawTarget creates the rasteriser for the surface's own dimensions:
    DrawTarget { width: W, height: H, rasterizer: Rasterizer::new(W, H), .. } (the three constructors must agree), and
    Rasterizer::new stores its arguments in that order"""
    R = 'R10.5'
    n = 0
    for q, b in sorted(ctx.F.bodies.items()):
        an = ctx.an(b)
        for bi, k2, s in b.statements():
            if bi in an.cfg.reach and s['k'] == 'assign' and s['rv']['k'] == 'agg' and s['rv'].get('adt') == 'raqote::draw_target::DrawTarget':
                t = an.rvalue_term(bi, k2, s['rv'])
                f = dict(t[4])
                n += 1
                r = strip_all(f.get('rasterizer', ('unknown',)))
                ok = is_call(r, RAS + 'new') and len(r[2]) == 2 and nosite(r[2][0]) == nosite(f.get('width')) and nosite(r[2][1]) == nosite(f.get('height'))
                ctx.check(ok, R, '%s|rasterizer dimensions' % short(q), b.loc(s['sp']), 'rasterizer: Rasterizer::new(width, height) of the same surface',
                          '%s builds a DrawTarget {width: %s, height: %s} whose rasteriser is %s: the rasteriser culls, clamps and sizes its row table with other dimensions than the surface (on a non-square surface spans run past the coverage mask)' % (short(q), fmt(b, f.get('width', ('unknown', '?'))), fmt(b, f.get('height', ('unknown', '?'))), fmt(b, r)[:120]))
    # a constructor that delegates to another one with (width, height) in place counts as that one
    for q, b in sorted(ctx.F.bodies.items()):
        if not q.startswith(DT) or q.split('::')[-1] not in ('new', 'from_vec', 'from_backing'):
            continue
        for t in shared.ret_terms(ctx, b):
            t = strip_all(t)
            if t[0] == 'call' and isinstance(t[1], str) and t[1] != q and t[1].startswith(DT) and t[1].split('::')[-1] in ('new', 'from_vec', 'from_backing') and len(t[2]) >= 2:
                n += 1
                ctx.check(strip_all(t[2][0]) == ('param', 1) and strip_all(t[2][1]) == ('param', 2), R, '%s|delegates with its own dimensions' % short(q), b.loc(), 'delegates with (width, height)',
                          '%s delegates to %s with (%s, %s) instead of its own (width, height)' % (short(q), short(t[1]), fmt(b, t[2][0]), fmt(b, t[2][1])))
    ctx.floor(R, 'DrawTarget constructors', n, 3)
    nb = ctx.body(RAS + 'new', R)
    rts = shared.ret_terms(ctx, nb)
    ok = len(rts) == 1 and rts[0][0] == 'agg'
    if ok:
        f = dict(rts[0][4])
        def scaled(t, p):
            t = strip_all(t)
            if is_call(t, 'rasterizer::int_to_dot2') and len(t[2]) == 1:
                return strip_all(t[2][0]) == ('param', p)
            pp = poly(t)
            return len(pp.leaves()) == 1 and ('param', p) in pp.leaves() and pp.coeff_of(('param', p)) > 0
        ok = scaled(f.get('width', ('unknown',)), 1) and scaled(f.get('height', ('unknown',)), 2)
    ctx.check(ok, R, 'rasterizer::Rasterizer::new|argument order', nb.loc(), 'Rasterizer::new(width, height) stores width from its first and height from its second argument (scaled to sample units)',
              'Rasterizer::new does not derive self.width from its first and self.height from its second argument')


def r01_11(ctx):
    """the bounds accumulated in add_edge cover every edge end point: left/top are rounded down (dot2_to_int(v + k), k <= 0),
    right/bottom are rounded up (k >= 2^SAMPLE_SHIFT - 1), both x ends feed left and right, and these updates happen on every
    path that inserts the edge.  (The bounds size the coverage mask; spans are clamped to it, so a bound that is one
    pixel short silently drops the last column/row of coverage.)"""
    R = 'R01.11'
    b = ctx.body(RAS + 'add_edge', R)
    an = ctx.an(b)
    cfg = an.cfg
    key = 'rasterizer::Rasterizer::add_edge'
    db = ctx.body('raqote::rasterizer::dot2_to_int', R)
    rt = shared.ret_terms(ctx, db)
    sh = None
    if len(rt) == 1 and rt[0][0] == 'bin' and rt[0][1] == 'Shr' and rt[0][2] == ('param', 1):
        sh = const_val(rt[0][3])
    if not ctx.check(isinstance(sh, int) and 0 < sh < 8, R, 'rasterizer::dot2_to_int|shift', db.loc(), 'dot2_to_int(v) = v >> %s' % sh, 'cannot read dot2_to_int as a right shift by a constant (fail closed)'):
        return
    up = (1 << sh) - 1
    inserts = [pt[0] for a, v, pt, kind in an.stores if kind == 'assign' and field_path(a)[1][:1] == ['edge_starts']]
    if not ctx.check(len(inserts) >= 1, R, key + '|insertion', b.loc(), 'insertion into edge_starts found', 'cannot find the insertion into edge_starts (fail closed)'):
        return
    want = {'bounds_left': ('min', 'x', None), 'bounds_right': ('max', 'x', None), 'bounds_top': ('min', 'y', 2), 'bounds_bottom': ('max', 'y', 3)}
    # which point is the edge's upper end (2), its lower end (3), its control point (5): read off the Edge that add_edge
    # builds -- (x1, y1) is the upper end, (x2, y2) the lower one -- so that the ordered end points may live in the
    # (swapped) parameters or in locals of any name
    ends = {}
    for d0 in an.defs:
        if d0.kind == 'assign' and not d0.partial and d0.bb in cfg.reach:
            t0 = an.def_term(d0)
            if t0[0] == 'agg' and (t0[2] or '').endswith('rasterizer::Edge'):
                f0 = dict(t0[4])
                for role, (fx, fy) in ((2, ('x1', 'y1')), (3, ('x2', 'y2')), (5, ('control_x', 'control_y'))):
                    tx, ty = strip_all(f0.get(fx, ('unknown',))), strip_all(f0.get(fy, ('unknown',)))
                    if is_call(tx, 'rasterizer::f32_to_dot2') and is_call(ty, 'rasterizer::f32_to_dot2'):
                        px, py = strip_all(tx[2][0]), strip_all(ty[2][0])
                        if px[0] == 'field' and py[0] == 'field' and px[2] == 'x' and py[2] == 'y' and nosite(strip_all(px[1])) == nosite(strip_all(py[1])):
                            ends[nosite(strip_all(px[1]))] = role

    def point_role(t):
        t = strip_all(t)
        r0 = ends.get(nosite(t))
        if r0 is not None:
            return r0
        if t[0] in ('mem', 'param', 'phi') and t[1] in (2, 3, 5) and not ends:
            return t[1]
        return None
    feeds = {}
    n = 0
    for a, v, pt, kind in an.stores:
        r, nm = field_path(a)
        if kind != 'assign' or r != ('param', 1) or not nm or nm[0] not in want:
            continue
        n += 1
        f = nm[0]
        mm, axis, _ = want[f]
        v = strip_all(v)
        def leaves_of(t):
            # a chain min(min(a, b), c) is the min of its leaves
            t = strip_all(t)
            if t[0] == 'call' and isinstance(t[1], str) and t[1].endswith('Ord::' + mm) and len(t[2]) == 2:
                return leaves_of(t[2][0]) + leaves_of(t[2][1])
            return [t]
        args = leaves_of(v)
        mine = [x for x in args if is_self_field(x, f)]
        rest = [x for x in args if not is_self_field(x, f)]
        ok = len(args) >= 2 and len(mine) == 1 and bool(rest) and all(is_call(x, 'rasterizer::dot2_to_int') for x in rest)
        loc = b.loc(b.blocks[pt[0]]['st'][pt[1]]['sp'])
        if not ctx.check(ok, R, key + '|%s update form' % f, loc, '%s = %s(%s, dot2_to_int(..))' % (f, mm, f), '%s is not updated as %s(self.%s, dot2_to_int(..)): %s' % (f, mm, f, fmt(b, v)[:160])):
            continue
        for other in rest:
          p = poly(other[2][0])
          k = p.d.get((), 0)
          nonconst = {m: c for m, c in p.d.items() if m != ()}
          okp = len(nonconst) == 1 and list(nonconst.values())[0] == 1 and len(list(nonconst)[0]) == 1
          if okp:
              # ... and that one term is an end/control coordinate itself (converted to sample units), not a value
              # derived from several of them (the curve's extent in x is bounded by its control polygon, not by, say, its midpoint)
              leaf0 = list(nonconst)[0][0]
              def is_coord(t, depth=0):
                  t = strip_all(t)
                  if is_call(t, 'rasterizer::f32_to_dot2') and len(t[2]) == 1:
                      return True
                  if t[0] in ('phi', 'rec') and depth < 3:
                      ds = an.phi_terms(t) if t[0] == 'phi' else [an.def_term(an.defs[t[1]])]
                      return bool(ds) and all(is_coord(x, depth + 1) for x in ds)
                  if t[0] == 'field' and t[2] in ('x1', 'x2', 'y1', 'y2', 'control_x', 'control_y'):
                      return True
                  return False
              okp = is_coord(leaf0)
          if mm == 'min':
              okk = okp and k <= 0
              msg = 'rounded down (offset %s)' % k
          else:
              okk = okp and k >= up
              msg = 'rounded up (offset %s, needs >= %d)' % (k, up)
          ctx.check(okk, R, key + '|%s rounding' % f, loc, '%s: %s' % (f, msg),
                    '%s is updated with dot2_to_int(%s): the %s bound must be rounded %s (offset %s) or the coverage mask is one pixel short on that side and the last quarter-pixel column/row of coverage is clamped away' % (f, fmt(b, other[2][0])[:100], f.split('_')[1], 'down (offset <= 0)' if mm == 'min' else 'up (offset >= %d)' % up, k))
          deps = dt.direct_deps(an, other)
          for x in deps:
              if len(x) == 5 and x[0] == 'field' and x[2] in ('x', 'y'):
                  role = point_role(x[1])
                  if role is not None:
                      feeds.setdefault((f, role, x[2]), set()).add(pt[0])
    ctx.floor(R, 'bounds updates in add_edge', n, 6)
    need = [('bounds_left', 2, 'x'), ('bounds_left', 3, 'x'), ('bounds_right', 2, 'x'), ('bounds_right', 3, 'x'), ('bounds_top', 2, 'y'), ('bounds_bottom', 3, 'y')]
    names = {2: 'start', 3: 'end', 5: 'control'}
    for f, l, ax in need:
        blocks = feeds.get((f, l, ax), set())
        okc = bool(blocks) and all(cfg.must_pass_through(0, blocks, exits=[i])[0] for i in inserts)
        ctx.check(okc, R, key + '|%s covers %s.%s' % (f, names[l], ax), b.loc(), '%s takes %s.%s into account on every inserting path' % (f, names[l], ax),
                  '%s does not take %s.%s into account on every path that inserts the edge: the coverage mask can be too small for the edge' % (f, names[l], ax))
    for f in ('bounds_left', 'bounds_right'):
        ctx.check(bool(feeds.get((f, 5, 'x'))), R, key + '|%s covers control.x' % f, b.loc(), '%s takes the control point of a curve into account' % f,
                  '%s ignores the control point of a curve edge: a curve that bulges beyond its end points is clamped to a mask that is too narrow' % f)


def r01_12(ctx):
    """an edge that starts above the surface is brought to row 0 by stepping it once per skipped sample row with
    ActiveEdge::step (which also advances the forward differences of a curve): the insertion row is only ever changed
    by `row += 1` inside a loop whose every iteration calls step(row)"""
    R = 'R01.12'
    b = ctx.body(RAS + 'add_edge', R)
    an = ctx.an(b)
    cfg = an.cfg
    key = 'rasterizer::Rasterizer::add_edge'
    rows = set()
    for a, v, pt, kind in an.stores:
        if kind == 'assign' and field_path(a)[1][:1] == ['edge_starts']:
            for x in subterms(a):
                if x[0] == 'index':
                    i = strip_casts(x[2], ('IntToInt',))
                    if i[0] in ('phi', 'rec'):
                        rows.add(i[1] if i[0] == 'phi' else an.defs[i[1]].local)
    if not ctx.check(len(rows) == 1, R, key + '|insertion row', b.loc(), 'insertion row variable found', 'cannot identify the variable indexing edge_starts at the insertion (found %d): fail closed' % len(rows)):
        return
    row = list(rows)[0]
    loops = cfg.loops()
    steps = set(bi for bi, d, ct in calls_in(ctx, b) if d == 'raqote::rasterizer::ActiveEdge::step' and strip_casts(ct[2][1], ('IntToInt',))[0] in ('phi', 'rec') and (strip_casts(ct[2][1], ('IntToInt',))[1] == row or (strip_casts(ct[2][1], ('IntToInt',))[0] == 'rec' and an.defs[strip_casts(ct[2][1], ('IntToInt',))[1]].local == row)))
    ds = [d for d in an.defs_of.get(row, []) if d.bb in cfg.reach]
    inits = [d for d in ds if d.kind == 'assign' and not any(d.bb in bl for bl in loops.values())]
    incs = [d for d in ds if d not in inits]
    ctx.check(len(inits) == 1, R, key + '|row initialised once', b.loc(), 'row := y1 once', 'the insertion row is assigned %d times outside the stepping loop (e.g. reset to 0 after a closed-form jump): a curve edge must be stepped row by row so that its forward differences stay in phase' % len(inits))
    bad = []
    for d in incs:
        t = an.def_term(d) if d.kind == 'assign' else None
        p = poly(t) if t is not None else None
        is_inc = p is not None and p.d.get((), 0) == 1 and len([m for m in p.d if m != ()]) == 1 and list(p.leaves())[0][0] in ('phi', 'rec')
        in_loop = [h for h, bl in loops.items() if d.bb in bl]
        stepped = bool(in_loop) and all(not cfg.cycle_through(h, loops[h], steps) for h in in_loop) and bool(steps)
        if not (is_inc and stepped):
            bad.append(fmt(b, t) if t is not None else d.kind)
    ctx.check(not bad and bool(incs), R, key + '|row advanced only by stepping', b.loc(), 'row += 1 only in a loop that calls e.step(row) on every iteration',
              'the insertion row is changed without stepping the edge (%s): an edge (in particular a curve edge, whose step() also advances its segment state) entering from above the surface arrives at row 0 with the wrong x and stale stepping state' % (bad or 'no stepping loop found'))


def r08_8(ctx):
    """a curve is never judged by its end points alone: where the fill path receives a curve (DrawTarget::quad_to,
    cubic_to, add_quad; Rasterizer::add_edge for the x axis — edges are monotonic in y only), no branch is decided by a
    comparison that reads the curve's end points but none of its control points.  The curve leaves the chord by as much
    as its control points say, so such a test cannot tell whether the curve is empty, off the surface or flat."""
    R = 'R08.8'
    def pts_param(ks):
        # a parameter, read directly or (when the function reassigns it, e.g. to order the end points) as its local
        return lambda x: x[0] in ('param', 'mem', 'phi') and len(x) >= 2 and x[1] in ks
    def idx_of(ks):
        def f(x):
            if x[0] in ('index', 'cidx') and strip_all(x[1]) == ('param', 2):
                i = const_val(strip_all(x[2])) if x[0] == 'index' and isinstance(x[2], tuple) else (x[2] if x[0] == 'cidx' else None)
                return i in ks
            return False
        return f
    cur = lambda x: x[0] == 'field' and x[2] == 'current_point' and x[3] == 'raqote::draw_target::DrawTarget'
    def axis_x(pred):
        return lambda x: x[0] == 'field' and x[2] == 'x' and pred(strip_all(x[1]))
    table = [
        (DT + 'quad_to', [pts_param({3}), cur], [pts_param({2})], 'the quadratic'),
        (DT + 'cubic_to', [pts_param({4}), cur], [pts_param({2, 3})], 'the cubic'),
        (DT + 'add_quad', [idx_of({0, 2})], [idx_of({1})], 'the quadratic'),
        (RAS + 'add_edge', [axis_x(pts_param({2, 3}))], [axis_x(pts_param({5}))], 'a curve edge (x axis)'),
    ]
    n = 0
    for q, ends, ctrls, what in table:
        b = ctx.body(q, R)
        an = ctx.an(b)
        bad = None
        nsw = 0
        for si, t in b.terminators('switch'):
            if si not in an.cfg.reach or t.get('ty') != 'bool':
                continue
            c = an.term_at(si, len(b.blocks[si]['st']), t['o'])
            nsw += 1
            reads_end = reads_ctrl = False
            for x in subterms(c):
                if any(p(x) for p in ends):
                    reads_end = True
                if any(p(x) for p in ctrls):
                    reads_ctrl = True
            # only comparisons of coordinates count (not e.g. a flag)
            cmpish = any((x[0] == 'bin' and x[1] in ('Eq', 'Ne', 'Lt', 'Le', 'Gt', 'Ge')) or (x[0] == 'call' and isinstance(x[1], str) and x[1].split('::')[-1] in ('eq', 'ne', 'lt', 'le', 'gt', 'ge', 'approx_eq')) for x in subterms(c))
            if reads_end and not reads_ctrl and cmpish and bad is None:
                bad = (si, c)
        n += 1
        ctx.check(bad is None, R, short(q) + '|no decision on the end points alone', call_line(b, bad[0]) if bad else b.loc(), '%d branches, none decided by the end points without the control points' % nsw,
                  '%s branches on %s, which reads the end points of %s but not its control points: the curve bulges away from its chord by what the control points say (a cubic from a point back to itself encloses area; a curve whose ends are off the surface can reach into it)' % (short(q), fmt(b, bad[1]) if bad else '', what))
    ctx.floor(R, 'curve receivers', n, 4)


def r08_6(ctx):
    """subpath protocol of the fill path (DrawTarget::move_to/line_to/quad_to/cubic_to/close): starting from "no current
    point", no sequence of ops leaves a current point without a recorded first point (close() needs it to add the
    closing edge and to return the cursor there); decided by abstract interpretation of the two Option fields over
    {None, Some} to a fixpoint over the five operations; nothing else writes the two fields"""
    import typestate
    R = 'R08.6'
    ops = ['move_to', 'line_to', 'quad_to', 'cubic_to', 'close']
    places = ['current_point', 'first_point']
    S = {('N', 'N')}
    trans = {}
    for _ in range(6):
        grew = False
        for o in ops:
            if o == 'move_to' and ctx.F.body(DT + o) is None:
                # written out in apply_path's MoveTo arm: both fields are set to Some there (R08.1 finds the pair)
                ab, am = apply_path_match(ctx, R)
                if am is not None and 'MoveTo' in am.arms and move_to_sites(ctx, ab, arm_region(ctx.an(ab).cfg, am.bb, am.arms['MoveTo'])):
                    trans[o] = [('S', 'S')]
                    if ('S', 'S') not in S:
                        S.add(('S', 'S'))
                        grew = True
                    continue
            b = ctx.body(DT + o, R)
            at, ex = typestate.run(ctx, b, places, entry=S, want_exits=True)
            trans[o] = sorted(ex)
            if not ex <= S:
                S |= ex
                grew = True
        if not grew:
            break
    ctx.check(('S', 'S') in S, R, 'draw_target::DrawTarget|protocol states (positive control)', '-', 'reachable (current, first) states: %s' % sorted(S), 'the typestate interpreter does not reach (Some, Some): fail closed')
    ctx.check(('S', 'N') not in S, R, 'draw_target::DrawTarget|current point implies first point', ctx.body(DT + 'close', R).loc(), 'no op sequence leaves a current point without a first point',
              'some sequence of path ops leaves current_point = Some with first_point = None (exit states per op: %s), e.g. a path whose first op is a curve: close() then adds no closing edge and drops the cursor, so the contour stays open and what follows Close starts in the wrong place' % trans)
    writers = set()
    for q, b in ctx.F.bodies.items():
        an = ctx.an(b)
        for a, v, pt, kind in an.stores:
            if kind == 'assign' and any(is_self_field(strip_all(a), f) for f in places) and any(x[0] == 'field' and x[3] == 'raqote::draw_target::DrawTarget' for x in subterms(a) if len(x) == 5):
                writers.add(q)
    allowed = set(DT + o for o in ops) | {DT + 'apply_path'}
    extra = sorted(short(w) for w in writers - allowed)
    ctx.check(not extra and len(writers & allowed) >= (5 if ctx.F.body(DT + 'move_to') is not None else 4), R, 'draw_target::DrawTarget|writers of the cursor fields', '-', 'only the path ops and apply_path write current_point / first_point',
              'current_point / first_point are also written by %s (or the path ops no longer write them): the protocol analysis does not cover those writers' % extra)


def fixed_eval(ctx, b, t, SS, shift_leaves):
    """a fixed-point integer term as a polynomial over its inputs, reading shifts as exact scalings (rounding is not
    modelled): `a << k` = a*2^k, `a >> k` = a*2^-k, and for the subdivision exponent S (any term in `shift_leaves`, or
    S +/- c) `a >> S` = a*H with H = 2^-S one opaque leaf ('H',), `1 << S` = 1/H written as the leaf ('N',).  The unit
    conversions are expanded by their definitions (whose forms R01.6 checks)."""
    from fractions import Fraction
    H, N = Poly.leaf(('H',)), Poly.leaf(('N',))

    def amount(k):
        """(is_S, c): the shift amount is S + c or the constant c"""
        pk = poly(k)
        cv = pk.const_value()
        if cv is not None:
            return False, int(cv)
        for sl in shift_leaves:
            d = pk - poly(sl)
            if d.const_value() is not None:
                return True, int(d.const_value())
        return None, None

    def ev(t):
        t = strip_casts(t, ('IntToInt',))
        t = strip_all(t) if t[0] in ('ref', 'copy') else t
        if t[0] == 'bin' and t[1] in ('Add', 'Sub', 'Mul'):
            a, c = ev(t[2]), ev(t[3])
            return a + c if t[1] == 'Add' else (a - c if t[1] == 'Sub' else a * c)
        if t[0] == 'ovf' and t[1] in ('Add', 'Sub', 'Mul'):
            a, c = ev(t[2]), ev(t[3])
            return a + c if t[1] == 'Add' else (a - c if t[1] == 'Sub' else a * c)
        if t[0] == 'field' and t[1][0] == 'ovf':
            return ev(t[1])
        if t[0] == 'bin' and t[1] in ('Shl', 'Shr'):
            isS, c = amount(t[3])
            if isS is None:
                return Poly.leaf(nosite(t))
            a = ev(t[2])
            if t[1] == 'Shl':
                f = Poly.const(Fraction(2) ** c)
                return a * f * (N if isS else Poly.const(1))
            f = Poly.const(Fraction(1, 2) ** c) if c >= 0 else Poly.const(Fraction(2) ** (-c))
            return a * f * (H if isS else Poly.const(1))
        if is_call(t, 'rasterizer::dot2_to_dot16') and len(t[2]) == 1:
            return ev(t[2][0]) * Poly.const(1 << (16 - SS))
        if is_call(t, 'rasterizer::dot16_to_dot2') and len(t[2]) == 1:
            return ev(t[2][0]) * Poly.const(Fraction(1, 1 << (16 - SS)))
        cv = poly(t).const_value()
        if cv is not None:
            return Poly.const(cv)
        return Poly.leaf(nosite(t))
    return ev(t)


def r08_7(ctx):
    """forward differencing of a quadratic edge is set up for the curve it was given.  With n = 2^S steps of h = 1/n,
    B(t) = p1 + 2t(c - p1) + t^2 (p1 - 2c + p2) has first difference B(h) - B(0) = h(2(c - p1) + h(p1 - 2c + p2)) and
    constant second difference 2h^2 (p1 - 2c + p2).  add_edge keeps both multiplied by n, in 16.16:
        dx  = K (2(c - p1) + h (p1 - 2c + p2)),   ddx = K 2h (p1 - 2c + p2),   K = 2^(16 - SAMPLE_SHIFT),
    takes count = 2^S steps, and the first point after the start is fullx + h dx.  These are polynomial identities in
    p1, c, p2 and h (shifts read as exact scalings: rounding is not decided); the y half is the x half by R08.5."""
    R = 'R08.7'
    SS = const_of(ctx, 'raqote::rasterizer::SAMPLE_SHIFT')
    b = ctx.body(RAS + 'add_edge', R)
    an = ctx.an(b)
    key = 'rasterizer::Rasterizer::add_edge'
    if not ctx.check(SS is not None, R, key + '|SAMPLE_SHIFT', '-', 'SAMPLE_SHIFT read', 'cannot read SAMPLE_SHIFT (fail closed)'):
        return
    # the shift store on the straight-edge path (constant 0) is not the curve's
    first = first_stores(an, ('dx', 'ddx', 'count', 'next_x', 'shift', 'fullx'), skip=lambda n, v: n == 'shift' and const_val(v) is not None)
    if not ctx.check(all(k2 in first for k2 in ('dx', 'ddx', 'count', 'next_x', 'shift', 'fullx')), R, key + '|stores (positive control)', b.loc(), 'first stores of dx, ddx, count, next_x, shift, fullx found',
                     'cannot find the first stores of e.dx, e.ddx, e.count, e.next_x, e.shift and e.fullx in add_edge (found %s): fail closed' % sorted(first)):
        return
    S = strip_all(first['shift'][1])
    base = strip_all(first['dx'][0])
    while base[0] == 'field':
        base = base[1]
    def efield(n):
        return [x for x in (nosite(strip_all(first[n][0])),)]
    shift_leaves = [S] + [nosite(x) for x in subterms(first['next_x'][1]) if x[0] == 'field' and x[2] == 'shift']
    ev = lambda t: fixed_eval(ctx, b, t, SS, shift_leaves)
    H, N = Poly.leaf(('H',)), Poly.leaf(('N',))
    K = Poly.const(1 << (16 - SS))
    pdx, pddx = ev(first['dx'][1]), ev(first['ddx'][1])
    coords = [l for l in pdx.leaves() if l not in (('H',), ('N',))]
    # p1 is the coordinate the edge starts at: fullx = dot2_to_dot16(p1)
    pfull = ev(first['fullx'][1])
    p1s = [l for l in coords if pfull == Poly.leaf(l) * K]
    ok = len(coords) == 3 and len(p1s) == 1
    detail = ''
    if ok:
        p1 = p1s[0]
        rest = [l for l in coords if l != p1]
        found = None
        for c, p2 in (rest, rest[::-1]):
            P1, C, P2 = Poly.leaf(p1), Poly.leaf(c), Poly.leaf(p2)
            A2 = P1 - C - C + P2
            if pdx == K * (Poly.const(2) * (C - P1) + H * A2):
                found = (c, p2, A2)
        ok = found is not None
        if ok:
            c, p2, A2 = found
            # the control coordinate is the one that is neither end of the edge: it comes from the `control` parameter
            r0, nm0 = field_path(strip_all(c[2][0])) if is_call(c, 'rasterizer::f32_to_dot2') else (None, None)
            ctx.check(r0 == ('param', 5), R, key + '|control point role', b.loc(), 'the doubled coordinate is the control point',
                      'the coordinate that enters the differences with weight -2 is %s, not the control point' % fmt(b, c))
            ctx.check(pddx == K * Poly.const(2) * H * A2, R, key + '|second difference', b.loc(), 'ddx = K*2h*(p1 - 2c + p2)',
                      'the second forward difference e.ddx is %s, expected 2^%d * 2h * (p1 - 2c + p2) with h = 2^-shift: the curve\'s later segments bend by the wrong amount (the outline leaves the true curve although it starts and ends on it)' % (pddx.show(b)[:200], 16 - SS))
    ctx.check(ok, R, key + '|first difference', b.loc(), 'dx = K*(2(c - p1) + h*(p1 - 2c + p2))',
              'the first forward difference e.dx is %s, expected 2^%d * (2(c - p1) + h(p1 - 2c + p2)) with h = 2^-shift over the edge\'s start p1, control c and end p2' % (pdx.show(b)[:240], 16 - SS))
    # count = 2^S
    cv = strip_casts(first['count'][1], ('IntToInt',))
    okc = cv[0] == 'bin' and cv[1] == 'Shl' and const_val(cv[2]) == 1 and nosite(strip_all(cv[3])) in [nosite(x) for x in shift_leaves]
    ctx.check(okc, R, key + '|step count', b.loc(), 'count = 1 << shift', 'the number of forward-difference steps is %s, expected 1 << shift (h = 2^-shift)' % fmt(b, cv))
    # first next_x = fullx + h*dx  (read back from the edge)
    pn = ev(first['next_x'][1])
    fl = [l for l in pn.leaves() if l[0] == 'field' and l[2] == 'fullx']
    dl = [l for l in pn.leaves() if l[0] == 'field' and l[2] == 'dx']
    okn = len(fl) == 1 and len(dl) == 1 and pn == Poly.leaf(fl[0]) + Poly.leaf(dl[0]) * H
    ctx.check(okn, R, key + '|first step', b.loc(), 'next_x = fullx + h*dx', 'the first interpolated point is %s, expected e.fullx + (e.dx >> shift)' % pn.show(b)[:200])
    # the advance uses the first difference before it is updated: in add_edge's first step, in its catch-up loop and in
    # ActiveEdge::step: next_x += dx >> S precedes dx += ddx (same for y)
    def order_ok(bb, an2, where):
        res = []
        st = [(a, v, pt) for a, v, pt, kind in an2.stores if kind == 'assign' and pt[0] in an2.cfg.reach]
        for ax in ('x', 'y'):
            adv = [(a, v, pt) for a, v, pt in st if field_path(a)[1][-1:] == ['next_' + ax] and any(x[0] == 'field' and x[2] == 'd' + ax for x in subterms(v))]
            upd = [(a, v, pt) for a, v, pt in st if field_path(a)[1][-1:] == ['d' + ax] and any(x[0] == 'field' and x[2] == 'dd' + ax for x in subterms(v)) and any(x[0] == 'field' and x[2] == 'd' + ax for x in subterms(v))]
            for a, v, pt in adv:
                # the nearest update in the same block chain: one that this advance dominates, with no other advance between
                after = [u for u in upd if (u[2][0] == pt[0] and u[2][1] > pt[1]) or (u[2][0] != pt[0] and an2.cfg.dominates(pt[0], u[2][0]))]
                before_same_iter = [u for u in upd if u[2][0] == pt[0] and u[2][1] < pt[1]]
                res.append((ax, bool(after) and not before_same_iter, pt))
                # exact forms
                pv = fixed_eval(ctx, bb, v, SS, [nosite(x) for x in subterms(v) if x[0] == 'field' and x[2] == 'shift'] + shift_leaves)
                nl = [l for l in pv.leaves() if l[0] == 'field' and l[2] == 'next_' + ax]
                dl2 = [l for l in pv.leaves() if l[0] == 'field' and l[2] == 'd' + ax]
                if nl:
                    res.append((ax, len(nl) == 1 and len(dl2) == 1 and pv == Poly.leaf(nl[0]) + Poly.leaf(dl2[0]) * H, pt))
            for a, v, pt in upd:
                pv = poly(v)
                dl2 = [l for l in pv.leaves() if l[0] == 'field' and l[2] == 'd' + ax]
                ddl = [l for l in pv.leaves() if l[0] == 'field' and l[2] == 'dd' + ax]
                res.append((ax, len(dl2) == 1 and len(ddl) == 1 and pv == Poly.leaf(dl2[0]) + Poly.leaf(ddl[0]), pt))
        return res
    # a sample row may pass several short segments at once (a far control point): segments are advanced *while* the current
    # row is at or below the end of the segment and steps remain, both where the edge is set up and where it is stepped
    def advance_loop_ok(bb, an2):
        loops = an2.cfg.loops()
        adv = [pt for a, v, pt, kind in an2.stores if kind == 'assign' and pt[0] in an2.cfg.reach and field_path(a)[1][-1:] == ['next_y']
               and any(x[0] == 'field' and x[2] == 'dy' for x in subterms(v))]
        inloop = [pt for pt in adv if any(pt[0] in bl for bl in loops.values())]
        if not inloop:
            return False, 'no segment advance inside a loop'
        for pt in inloop:
            gs = normalized_guards(ctx, bb, pt[0])
            row = any(op in ('Ge', '!Lt', 'Le', '!Gt') and any(is_call(x, 'rasterizer::dot16_to_dot2') and any(y[0] == 'field' and y[2] == 'next_y' for y in subterms(x)) for x in list(subterms(a0)) + list(subterms(b0))) for op, a0, b0, si in gs if b0 is not None)
            cnt = any(op in ('Gt', '!Le', 'Ne', '!Eq', 'Lt', '!Ge') and any(y[0] == 'field' and y[2] == 'count' for y in list(subterms(a0)) + list(subterms(b0))) for op, a0, b0, si in gs if b0 is not None)
            if not (row and cnt):
                return False, 'the advance is not guarded by `count > 0 && cury >= dot16_to_dot2(next_y)`'
        return True, ''
    for q, bb in ((RAS + 'add_edge', b), ('raqote::rasterizer::ActiveEdge::step', ctx.body('raqote::rasterizer::ActiveEdge::step', R))):
        an2 = ctx.an(bb)
        okl, whyl = advance_loop_ok(bb, an2)
        ctx.check(okl, R, short(q) + '|advance while behind', bb.loc(), 'segments are advanced in a loop while count > 0 and the row has reached next_y',
                  'in %s the curve is not advanced in a loop `while count > 0 && cury >= dot16_to_dot2(next_y)` (%s): when one sample row passes several short segments (a control point far away) the edge lags behind the curve and the fill boundary moves by many pixels' % (short(q), whyl))
        res = order_ok(bb, an2, q)
        n_adv = len(res)
        ctx.check(n_adv >= 4 and all(r[1] for r in res), R, short(q) + '|advance then update', bb.loc(), '%d advance/update sites: next += d >> shift, then d += dd' % n_adv,
                  'in %s the forward-difference stepping is not `next_a += da >> shift` followed by `da += dda` at every site (%s): the polyline no longer follows the quadratic' % (short(q), [(r[0], r[1]) for r in res]))
