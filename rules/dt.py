"""Rules about the compositor: DrawTarget::composite, the shader blitters, the row
procs, the blend dispatch, clips and layers (shared by C02, C03, C05, C06, C14, C18)."""
from util import *
from terms import fmt, subterms, Deps, mem_path, leaves_summary
import shared
from shared import AnchorMissing

DT = 'raqote::draw_target::DrawTarget::'
BLITTER_TRAIT = 'raqote::blitter::Blitter'
ROW_PROCS = ['raqote::draw_target::blend_row', 'raqote::draw_target::blend_row_mask', 'raqote::draw_target::blend_row_mask_clip']
SRC_OVER_BLITTERS = ['ShaderMaskBlitter', 'ShaderClipMaskBlitter']
BLEND_BLITTERS = ['ShaderBlendBlitter', 'ShaderBlendMaskBlitter', 'ShaderClipBlendMaskBlitter']

# composite(self, src, mask, mask_rect, rect, blend, alpha): MIR parameter numbers
P_SELF, P_SRC, P_MASK, P_MASK_RECT, P_RECT, P_BLEND, P_ALPHA = 1, 2, 3, 4, 5, 6, 7


def k(body_q):
    return short(body_q)


def blitter_impls(ctx, R):
    """{type short name: body of blit_span} for every impl of Blitter"""
    out = {}
    for im in ctx.F.impls_of('blitter::Blitter'):
        if not im.get('trait', '').endswith('blitter::Blitter'):
            continue
        for it in im['items']:
            if it['name'] == 'blit_span':
                b = ctx.body(it['q'], R)
                out[im['self'].split('::')[-1]] = b
    return out


def blit_span_sites(ctx, b):
    """calls of <dyn Blitter>::blit_span in composite: [(bb, call term)]"""
    out = []
    an = ctx.an(b)
    for bi, d, ct in calls_in(ctx, b):
        if d == BLITTER_TRAIT + '::blit_span':
            vs = shared.call_variants(an, bi, ct, args=[4])
            # a variant is judged where its alternative is chosen (its guards are those of that block)
            out.extend(vs)
    return out


def rect_fields(t):
    """(root term, ['min'|'max', 'x'|'y']) for a corner-coordinate read"""
    t = strip_all(t)
    if t[0] == 'field' and t[2] in ('x', 'y') and t[1][0] == 'field' and t[1][2] in ('min', 'max'):
        return strip_all(t[1][1]), [t[1][2], t[2]]
    return None, None


# ====================================================================== C02
def r02_1(ctx):
    """span provenance in composite"""
    R = 'R02.1'
    b = ctx.body(DT + 'composite', R)
    an = ctx.an(b)
    key = 'draw_target::DrawTarget::composite'
    sites = blit_span_sites(ctx, b)
    ctx.floor(R, 'blit_span call sites in composite', len(sites), 2)
    for bi, ct in sites:
        y, x1, x2 = ct[2][1], ct[2][2], ct[2][3]
        r1, f1 = rect_fields(x1)
        r2, f2 = rect_fields(x2)
        sk = key + '|blit_span@%s' % ('mask' if any(v == 'Some' for _, _, v, _ in variant_guards(ctx, b, bi)) else 'no-mask')
        ok = r1 is not None and r1 == r2 and f1 == ['min', 'x'] and f2 == ['max', 'x']
        ctx.check(ok, R, sk + '|x-span', call_line(b, bi), 'x1, x2 = R.min.x, R.max.x of one rectangle R',
                  'the span passed to blit_span is (%s, %s): not the min.x/max.x of one clipped rectangle' % (fmt(b, x1), fmt(b, x2)))
        if not ok:
            continue
        # y comes from iterating R.min.y .. R.max.y
        D = Deps(an)
        D.closure(y)
        ranges = [x for x in D.visited if x[0] == 'agg' and x[2] and x[2].endswith('ops::Range')]
        oky = False
        for rg in ranges:
            f = dict(rg[4])
            ra, fa = rect_fields(f.get('start', ('unknown',)))
            rb, fb = rect_fields(f.get('end', ('unknown',)))
            if ra == r1 and rb == r1 and fa == ['min', 'y'] and fb == ['max', 'y']:
                oky = True
        ctx.check(oky, R, sk + '|y-range', call_line(b, bi), 'y iterates R.min.y..R.max.y of the same rectangle', 'the rows passed to blit_span do not iterate min.y..max.y of the rectangle that bounds x')
        # structural form when the rectangle is a chain of intersections: its operands must be exactly the four bounds
        def is_layer_rect(t):
            t = strip_all(t)
            return t[0] == 'field' and t[2] == 'rect' and (t[3] or '').endswith('draw_target::Layer')
        def is_surface(t):
            t = strip_all(t)
            return is_call(t, 'geom::intrect') and len(t[2]) == 4 and const_val(t[2][0]) == 0 and const_val(t[2][1]) == 0 and is_self_field(strip_all(t[2][2]), 'width') and is_self_field(strip_all(t[2][3]), 'height')
        def is_dest_selection(t):
            # the destination bounds chosen with the destination: a join of exactly {open layer's rect, surface rect}
            if t[0] != 'phi':
                return False
            alts = [strip_all(x) for x in an.phi_terms(t)]
            return len(alts) == 2 and any(is_layer_rect(x) for x in alts) and any(is_surface(x) for x in alts)
        def chain_alts(t, depth=0):
            """the rectangle as alternatives of intersection chains: [[operand, ..], ..]; a join of rectangles contributes
            one alternative per joined value; None when the form cannot be read"""
            t = strip_all(t)
            if t[0] == 'rec' or depth > 4:
                return None
            if t[0] == 'phi':
                if is_dest_selection(t):
                    return [[t]]
                out = []
                for x in an.phi_terms(t):
                    a = chain_alts(x, depth + 1)
                    if a is None:
                        return None
                    # inside a join, the layer rect / the surface rect stand for "the destination chosen on this path"
                    out += [[('chosen-dest', y) if (is_layer_rect(y) or is_surface(y)) else y for y in alt] for alt in a]
                return out if len(out) <= 8 else None
            if is_call(t, 'Box2D::<T, U>::intersection_unchecked') and len(t[2]) == 2:
                a, b2 = chain_alts(t[2][0], depth + 1), chain_alts(t[2][1], depth + 1)
                if a is None or b2 is None or len(a) * len(b2) > 8:
                    return None
                return [x + y for x in a for y in b2]
            return [[t]]
        alts = chain_alts(r1)
        if alts is not None and all(len(ops) >= 2 for ops in alts):
            def kind_of(t):
                if t == ('param', P_RECT):
                    return 'rect'
                if t == ('param', P_MASK_RECT):
                    return 'mask_rect'
                if is_call(t, DT + 'clip_bounds'):
                    return 'clip'
                if t[0] == 'field' and t[3] == '(tuple)' and t[2] == '1' and t[1][0] == 'phi':
                    return 'dest'
                if t[0] == 'phi' and is_dest_selection(t):
                    return 'dest'
                if t[0] == 'chosen-dest':
                    return 'dest'       # one arm of the destination selection, on a path that has chosen it
                return 'other:' + fmt(b, t)[:30]
            worst = None
            for ops in alts:
                kinds = sorted(set(kind_of(t) for t in ops))
                if kinds != ['clip', 'dest', 'mask_rect', 'rect']:
                    worst = kinds
            ctx.check(worst is None, R, sk + '|intersection chain', call_line(b, bi), 'span rectangle = rect ∩ clip_bounds ∩ dest_bounds ∩ mask_rect (on each of %d alternatives)' % len(alts),
                      'the rectangle that bounds the blitted spans is, on one of its alternatives, the intersection of %s; it must intersect exactly the rect argument, clip_bounds(), the destination bounds (open layer or surface) and mask_rect — a missing operand means drawing is not limited by it' % worst)
        # R depends on all four bounds
        D = Deps(an)
        leaves = D.closure(r1)
        has_rect = ('param', P_RECT) in leaves
        has_maskrect = ('param', P_MASK_RECT) in leaves
        has_clip = any(l[0] == 'call' and l[1] == DT + 'clip_bounds' for l in leaves)
        has_layer = any(l[0] == 'path' and ('f', 'rect') in l[2] and l[1][0] == 'call' and ('last_mut' in str(l[1][1]) or str(l[1][1]).endswith('::last')) and 'layer_stack' in str(l[1][2]) for l in leaves)
        has_surface = any(l[0] == 'call' and isinstance(l[1], str) and l[1].endswith('geom::intrect') and
                          any(is_self_field(a, 'width') for a in l[2]) and any(is_self_field(a, 'height') for a in l[2]) for l in leaves)
        for name, ok in (('the rect argument', has_rect), ('mask_rect', has_maskrect), ('clip_bounds()', has_clip),
                         ('the open layer\'s rect', has_layer), ('the surface rect (0,0,width,height)', has_surface)):
            ctx.check(ok, R, sk + '|bounded by ' + name, call_line(b, bi), 'span rectangle depends on ' + name,
                      'the rectangle that bounds the blitted spans does not depend on %s: drawing is not limited by it' % name)
        # mask present iff guard
    return sites


def r02_2(ctx):
    """empty-rect guard"""
    R = 'R02.2'
    b = ctx.body(DT + 'composite', R)
    key = 'draw_target::DrawTarget::composite'
    for bi, ct in blit_span_sites(ctx, b):
        r1, f1 = rect_fields(ct[2][2])
        gs = normalized_guards(ctx, b, bi)
        ok = False
        for op, a, b2, si in gs:
            if op == '!true' and is_call(a, 'Box2D::<T, U>::is_empty') and strip_all(a[2][0]) == r1:
                ok = True
        ctx.check(ok, R, key + '|blit_span@bb-guard-%s' % ('mask' if len(ct[2][4]) and ct[2][4][0] == 'ref' and 'Range' in str(ct[2][4]) and 'RangeFull' not in str(ct[2][4]) else 'no-mask'),
                  call_line(b, bi), 'blit loop dominated by !rect.is_empty()',
                  'the blit loop is not guarded by an is_empty() test of the clipped rectangle: an empty (inverted) intersection reaches the row loop and the mask slicing')


def r02_3(ctx):
    """mask-slice contract: mask[s..e], e-s == x2-x1, s == (y-mask_rect.min.y)*mask_rect.width + x1 - mask_rect.min.x"""
    R = 'R02.3'
    b = ctx.body(DT + 'composite', R)
    an = ctx.an(b)
    key = 'draw_target::DrawTarget::composite|mask slice'
    n = 0
    for bi, ct in blit_span_sites(ctx, b):
        m = strip_all(ct[2][4])
        if not (is_call(m, 'Index::index') and m[2][1][0] == 'agg' and m[2][1][2].endswith('ops::Range')):
            continue
        n += 1
        base = strip_all(m[2][0])
        okb = base[0] == 'field' and base[4] == 'Some' and base[1] == ('param', P_MASK)
        ctx.check(okb, R, key + '|base', call_line(b, bi), 'slice of the mask argument', 'the slice handed to blit_span is not a slice of the mask argument')
        f = dict(m[2][1][4])
        s, e = poly(f['start']), poly(f['end'])
        y, x1, x2 = poly(ct[2][1]), poly(ct[2][2]), poly(ct[2][3])
        ctx.check(e - s == x2 - x1, R, key + '|length', call_line(b, bi), 'slice length == x2 - x1',
                  'mask slice length is %s but the span is %s' % ((e - s).show(b), (x2 - x1).show(b)))
        # s = (y - a) * w + x1 - c
        rest = s - x1
        leaves = rest.leaves()
        mr = ('param', P_MASK_RECT)
        def is_mr(t, names):
            r, n2 = field_path(t)
            return r == mr and n2 == names
        a = [l for l in leaves if is_mr(l, ['min', 'y'])]
        c = [l for l in leaves if is_mr(l, ['min', 'x'])]
        w = [l for l in leaves if l[0] == 'field' and l[2] == 'width' and is_call(l[1], 'Box2D::<T, U>::size') and strip_all(l[1][2][0]) == mr]
        ok = len(a) == 1 and len(c) == 1 and len(w) == 1
        if ok:
            A, C, W = Poly.leaf(a[0]), Poly.leaf(c[0]), Poly.leaf(w[0])
            ok = s == (y - A) * W + x1 - C
        ctx.check(ok, R, key + '|start', call_line(b, bi), 'slice start == (y - mask_rect.min.y)*mask_rect.width + x1 - mask_rect.min.x',
                  'mask slice start is %s, expected (y - mask_rect.min.y) * mask_rect.size().width + x1 - mask_rect.min.x' % s.show(b))
    ctx.floor(R, 'mask-sliced blit_span sites', n, 1)


def slice_kind(an, b, t, count_poly):
    """abstract length of a slice argument: ('param', i) | 'full' | 'from' | ('to', ok) | ('range', ok) | 'other'"""
    t = strip_all(t)
    if t[0] == 'param':
        return ('param', t[1])
    if is_call(t, 'Index::index', 'IndexMut::index_mut') and len(t[2]) == 2 and t[2][1][0] == 'agg':
        rg = t[2][1]
        name = (rg[2] or '').split('::')[-1]
        f = dict(rg[4])
        if name == 'RangeFull':
            return 'full'
        if name == 'RangeFrom':
            return 'from'
        if name == 'RangeTo':
            return ('to', poly(f['end']) == count_poly)
        if name == 'Range':
            return ('range', poly(f['end']) - poly(f['start']) == count_poly)
        if name == 'RangeToInclusive' or name == 'RangeInclusive':
            return 'other'
    return 'other'


def span_count(ctx, b):
    """the polynomial x2 - x1 of a blit_span body (params: self, y, x1, x2, mask)"""
    return Poly.leaf(('param', 4)) - Poly.leaf(('param', 3))


def r02_4(ctx):
    """span-bounded destination writes in every Blitter impl"""
    R = 'R02.4'
    impls = blitter_impls(ctx, R)
    ctx.floor(R, 'impl Blitter', len(impls), 5)
    for name, b in sorted(impls.items()):
        an = ctx.an(b)
        key = 'blitter::%s::blit_span' % name
        count = span_count(ctx, b)
        n_w = 0
        # (a) direct element stores into self.dest
        for addr, val, pt, kind in an.stores:
            if kind != 'assign':
                continue
            root, names = field_path(addr)
            if root == ('param', 1) and names[:1] == ['dest'] and addr[0] == 'index':
                n_w += 1
                idx = addr[2]
                # idx = F + i with i from 0..count
                D = Deps(an)
                D.closure(idx)
                okr = False
                for x in D.visited:
                    if x[0] == 'agg' and x[2] and x[2].endswith('ops::Range'):
                        f = dict(x[4])
                        if const_val(f['start']) == 0 and poly(f['end']) == count:
                            okr = True
                # or an explicit counter i = 0; while i < count { ..; i += 1 }
                lvs = loop_vars(an, b, count)
                if not okr and any(nosite(x) in lvs for x in D.visited if isinstance(x, tuple) and x and x[0] == 'phi'):
                    okr = True
                ctx.check(okr, R, key + '|dest[i] loop bound', b.loc(), 'element writes run over i in 0..(x2-x1)',
                          'dest is written element-wise but the loop is not bounded by x2 - x1')
        # (b) row procs called through the blend_fn pointer
        for bi, d, ct in calls_in(ctx, b):
            if d is not None or ct[1][0] != 'ind':
                continue
            fnp = strip_all(ct[1][1])
            if not is_self_field(fnp, 'blend_fn'):
                ctx.fail(R, key + '|indirect call', call_line(b, bi), 'indirect call through %s: unknown row proc (fail closed)' % fmt(b, fnp))
                continue
            n_w += 1
            kinds = [slice_kind(an, b, a, count) for a in ct[2]]
            bounded = any(kk == ('param', 5) or kk == ('to', True) or kk == ('range', True) for kk in kinds)
            if name == 'ShaderBlendBlitter':
                # its mask parameter is the empty slice on the mask-less route: it bounds nothing
                bounded = any(kk == ('to', True) or kk == ('range', True) for kk in kinds)
            desc = ', '.join(str(kk) for kk in kinds)
            ctx.check(bounded, R, key + '|row proc bounded by span', call_line(b, bi), 'row proc receives a slice of length x2-x1 (%s)' % desc,
                      'the row proc is called with slices [%s]: none has length x2 - x1, so the zip writes past the span (up to the length of tmp / the rest of dest)' % desc)
        ctx.check(n_w >= 1, R, key + '|writes found', b.loc(), '%d destination write site(s)' % n_w, 'no destination write recognised in this blitter (fail closed)')


def zip_operands(t):
    t = strip_all(t)
    if is_call(t, 'IntoIterator::into_iter') and len(t[2]) == 1:
        return zip_operands(t[2][0])
    if is_call(t, 'Iterator::zip') and len(t[2]) == 2:
        return zip_operands(t[2][0]) + zip_operands(t[2][1])
    return [t]


def elem_canon(ctx, b, an, keyfn, allow_take=False):
    """One view of element-wise loops over several slices for both spellings: a function that rewrites a term so that
    the current element of the slice whose container term has key k (keyfn(container) -> k or None) reads ('elem', k) --
      zip form:   *<path of the Some payload of next(zip(..))>, the path decoded against the zip tree; a leaf of the tree
                  is iter()/iter_mut()/into_iter() of the container or of a sub-slice container[a..b] of it;
      index form: c[i] with i exactly the variable of a range/counter loop.
    canon.positions: the distinct index terms met (index form); canon.ranges: {k: [range aggregates sliced with]}."""
    zips = {}
    ranges = {}

    def container(t):
        t = strip_all(t)
        while t[0] in ('deref', 'ref'):
            t = strip_all(t[1])
        rng = None
        if is_call(t, 'Index::index', 'IndexMut::index_mut') and len(t[2]) == 2 and t[2][1][0] == 'agg' and 'ops::Range' in (t[2][1][2] or ''):
            rng = t[2][1]
            t = strip_all(t[2][0])
            while t[0] in ('deref', 'ref'):
                t = strip_all(t[1])
        return t, rng

    def zip_tree(t):
        t = strip_all(t)
        while t[0] in ('deref', 'ref'):
            t = strip_all(t[1])
        if is_call(t, 'IntoIterator::into_iter') and len(t[2]) == 1:
            return zip_tree(t[2][0])
        if is_call(t, 'Iterator::zip') and len(t[2]) == 2:
            return ('zip', zip_tree(t[2][0]), zip_tree(t[2][1]))
        if allow_take and is_call(t, 'Iterator::take') and len(t[2]) == 2:
            # the first n elements of the inner iterator are elements of the inner iterator (how many is the caller's clause)
            return zip_tree(t[2][0])
        if is_call(t, 'Iterator::filter') and len(t[2]) == 2:
            # the elements that get through are elements of the inner iterator; the predicate holds for each of them
            filters.append(t[2][1])
            return zip_tree(t[2][0])
        if is_call(t, 'iter_mut', '::iter') and len(t[2]) == 1:
            t = strip_all(t[2][0])
        c, rng = container(t)
        k = keyfn(c)
        if k is not None and rng is not None:
            ranges.setdefault(k, []).append(rng)
        return ('leaf', k)

    def tree_of(nxt):
        k0 = nosite(nxt)
        if k0 not in zips:
            it = strip_all(nxt[2][0])
            while it[0] in ('deref', 'ref'):
                it = strip_all(it[1])
            src = None
            if it[0] in ('mem', 'phi'):
                ds = [d for d in an.defs_of.get(it[1], []) if not d.partial and d.kind in ('assign', 'call') and not is_call(an.def_term(d) if d.kind == 'assign' else an.call_term(d.bb), 'Iterator::next')]
                vals = [an.def_term(d) if d.kind == 'assign' else an.call_term(d.bb) for d in ds]
                if len(vals) == 1:
                    src = vals[0]
            if src is None:
                D = Deps(an)
                D.closure(nxt[2][0])
                zs = [x for x in D.visited if is_call(x, 'IntoIterator::into_iter')]
                src = zs[-1] if zs else None
            zips[k0] = zip_tree(src) if src is not None else None
        return zips[k0]

    def f(t):
        if t[0] == 'deref':
            path = []
            x = t[1]
            while x[0] == 'field' and x[3] == '(tuple)':
                path.append(x[2])
                x = x[1]
            if x[0] == 'field' and x[4] == 'Some' and is_call(x[1], 'Iterator::next'):
                tr = tree_of(x[1])
                for step in reversed(path):
                    if tr is None or tr[0] != 'zip':
                        tr = None
                        break
                    tr = tr[1] if step == '0' else tr[2]
                if tr is not None and tr[0] == 'leaf' and tr[1] is not None:
                    return ('elem', tr[1])
        if t[0] == 'index':
            c, rng = container(t[1])
            k2 = keyfn(c)
            if k2 is not None and rng is None and shared.index_loop_bounds(ctx, b, an, t[2]):
                positions.add(nosite(strip_casts(t[2], ('IntToInt',))))
                return ('elem', k2)
        return None
    positions = set()
    filters = []
    canon = lambda t: trewrite(t, f)
    canon.positions = positions
    canon.ranges = ranges

    def filter_facts(nxt):
        """comparison facts (op, A, B) that hold for every element yielded by next() because of .filter(pred) adaptors:
        pred(&item) beta-reduced, for predicates that are a single comparison"""
        tree_of(nxt)
        item = ('field', nxt, '0', 'std::option::Option', 'Some')
        out = []
        for clo in filters:
            c = strip_all(clo)
            if c[0] == 'mem':
                c = shared.resolve_mem(an, c)
            red = an._beta(('call', 'std::ops::FnMut::call_mut', (c, ('agg', 'tuple', None, None, (('0', ('ref', item)),))), 0))
            if red is None:
                continue
            neg = False
            while red[0] == 'un' and red[1] == 'Not':
                red, neg = red[2], not neg
            if red[0] == 'bin' and red[1] in CMP_NEG:
                out.append((CMP_NEG[red[1]] if neg else red[1], red[2], red[3]))
        return out
    canon.filter_facts = filter_facts

    def leaves(nxt):
        """keys of the zipped containers of the iterator next() is called on, left to right (None for an unrecognised leaf)"""
        out = []
        def walk(tr):
            if tr is None:
                out.append(None)
            elif tr[0] == 'zip':
                walk(tr[1])
                walk(tr[2])
            else:
                out.append(tr[1])
        walk(tree_of(nxt))
        return out
    canon.leaves = leaves
    return canon


def row_elem_canon(ctx, b, an):
    """elem_canon for a row proc: the containers are the slice parameters, keyed by their MIR parameter number"""
    return elem_canon(ctx, b, an, lambda c: c[1] if c[0] == 'param' else None)


def r02_5(ctx):
    """row procs write dst only through dst.iter_mut() zipped with all other slices"""
    R = 'R02.5'
    n = 0
    for q in ROW_PROCS:
        b = ctx.body(q, R)
        an = ctx.an(b)
        key = short(q)
        nparams = b.argc
        dst_p = nparams       # dst is the last parameter
        # stores
        st = [(a, v, pt) for a, v, pt, kind in an.stores if kind == 'assign']
        ok = len(st) >= 1
        canon = row_elem_canon(ctx, b, an)
        zipped = None
        indexed = 0
        for addr, val, pt in st:
            # alternative spelling: dst[i] for i in 0..min(len of every slice)
            if addr[0] == 'index' and strip_all(addr[1]) in (('param', dst_p), ('deref', ('param', dst_p))):
                bounds = shared.index_loop_bounds(ctx, b, an, addr[2])
                min_leaves = lambda t: shared.min_leaves(ctx, b, an, t)
                good = False
                for st0, en in bounds:
                    ls = min_leaves(en)
                    ps = set()
                    for l in ls:
                        l = strip_casts(l)
                        base = strip_all(l[2]) if (l[0] == 'un' and l[1] == 'PtrMetadata') else (strip_all(l[2][0]) if is_call(l, '::len') and len(l[2]) == 1 else None)
                        while base is not None and base[0] == 'deref':
                            base = strip_all(base[1])
                        ps.add(base[1] if base is not None and base[0] == 'param' else None)
                    if const_val(st0) == 0 and ps == set(range(1, nparams + 1)):
                        good = True
                if good:
                    indexed += 1
                    continue
            # addr = deref(field chain of Some payload of next(iter))
            root = addr
            while root[0] in ('deref', 'field', 'ref'):
                root = root[1]
            if not is_call(root, 'Iterator::next') or canon(strip_all(addr)) != ('elem', dst_p):
                ok = False
                continue
            zipped = canon.leaves(root)
        if ok and zipped is None and indexed == len(st) and indexed:
            ctx.ok(R, key + '|store via zip', b.loc(), 'dst[i] written for i in 0..min(len of every slice)')
            n += 1
            continue
        if not ctx.check(ok and zipped is not None, R, key + '|store via zip', b.loc(), 'dst written only through the zipped iterator', 'dst is written other than through the zipped iterator (e.g. by index): the write is not bounded by the shortest slice'):
            continue
        want = set(range(1, nparams + 1))
        ctx.check(None not in zipped and set(zipped) == want and len(zipped) == len(want), R, key + '|zip of all slices', b.loc(), 'zip of dst.iter_mut() and all %d other slices' % (len(want) - 1),
                  'the write loop zips the slices of parameters %s; every slice parameter must take part, once, so that the shortest one bounds the write' % zipped)
        n += 1
    ctx.floor(R, 'row procs', n, 3)


def dest_index_form(b):
    """(y - self.y) * self.dest_stride + x1 - self.x   as a Poly over the blit_span parameters"""
    sf = lambda n: Poly.leaf(('field', ('deref', ('param', 1)), n, None, None))
    return None


def self_field_leaf(l, name):
    return l[0] == 'field' and l[2] == name and strip_all(l[1]) in (('deref', ('param', 1)), ('param', 1))


def classify_index(b, p, loopvars):
    """decompose an index polynomial over blit_span parameters into a readable signature:
    returns dict(form=str, ok_dest=bool, ok_clip=bool, ok_i=bool)"""
    y, x1 = ('param', 2), ('param', 3)
    leaves = p.leaves()
    sy = [l for l in leaves if self_field_leaf(l, 'y')]
    sx = [l for l in leaves if self_field_leaf(l, 'x')]
    ds = [l for l in leaves if self_field_leaf(l, 'dest_stride')]
    cs = [l for l in leaves if self_field_leaf(l, 'clip_stride')]
    iv = [l for l in leaves if l in loopvars]
    P = Poly.leaf
    res = {'dest': False, 'clip': False, 'i': False}
    if len(iv) <= 1:
        I = P(iv[0]) if iv else Poly.const(0)
        if p == I and iv:
            res['i'] = True
        if len(sy) == 1 and len(sx) == 1 and len(ds) == 1 and not cs:
            if p == (P(y) - P(sy[0])) * P(ds[0]) + P(x1) - P(sx[0]) + I:
                res['dest'] = True
        if len(cs) == 1 and not sy and not sx and not ds:
            if p == P(y) * P(cs[0]) + P(x1) + I:
                res['clip'] = True
    return res


counter_loops = shared.counter_loops


def loop_vars(an, b, count):
    """terms that are the payload of next() over a 0..count range"""
    out = set()
    for bi, t, c in b.calls():
        if bi not in an.cfg.reach or c is None or not c['def'].endswith('Iterator::next'):
            continue
        ct = an.call_term(bi)
        D = Deps(an)
        D.closure(ct[2][0])
        for x in D.visited:
            if x[0] == 'agg' and x[2] and x[2].endswith('ops::Range'):
                f = dict(x[4])
                if const_val(f['start']) == 0 and poly(f['end']) == count:
                    out.add(nosite(('field', ct, '0', 'std::option::Option', 'Some')))
                    out.add(nosite(('field', ct, '0', 'core::option::Option', 'Some')))
    for cl in counter_loops(an, b):
        if const_val(cl['init']) == 0 and poly(cl['bound']) == count:
            out.add(cl['var'])
            out.add(nosite(('cast', 'IntToInt', 'usize', cl['var'])))
    return out


def elem_reads(t):
    """all element reads inside a term: [(kind, base term, index term)] for place indexing and Index::index(usize) calls"""
    out = []
    for x in subterms(t):
        if x[0] == 'index':
            out.append((strip_all(x[1]), x[2]))
        elif is_call(x, 'Index::index', 'IndexMut::index_mut') and len(x[2]) == 2 and x[2][1][0] != 'agg':
            out.append((strip_all(x[2][0]), x[2][1]))
    return out


def r02_6(ctx):
    """index agreement in every shader blitter"""
    R = 'R02.6'
    impls = blitter_impls(ctx, R)
    for name, b in sorted(impls.items()):
        an = ctx.an(b)
        key = 'blitter::%s::blit_span' % name
        count = span_count(ctx, b)
        lv = loop_vars(an, b, count)
        n = 0
        if name in SRC_OVER_BLITTERS:
            for addr, val, pt, kind in an.stores:
                root, names = field_path(addr)
                if kind != 'assign' or not (root == ('param', 1) and names[:1] == ['dest'] and addr[0] == 'index'):
                    continue
                n += 1
                wi = poly(addr[2])
                c = classify_index(b, wi, lv)
                ctx.check(c['dest'], R, key + '|dest write index', b.loc(), 'dest[(y-self.y)*dest_stride + x1 - self.x + i]',
                          'destination write index is %s, expected (y - self.y)*dest_stride + x1 - self.x + i' % wi.show(b))
                for base, idx in elem_reads(val):
                    r, nm = field_path(base)
                    pi = poly(idx)
                    if r == ('param', 1) and nm[:1] == ['dest']:
                        ctx.check(pi == wi, R, key + '|dest read index', b.loc(), 'dest is read at the index it is written at', 'the old destination value is read at %s but written at %s' % (pi.show(b), wi.show(b)))
                    elif r == ('param', 1) and nm[:1] == ['tmp']:
                        ctx.check(classify_index(b, pi, lv)['i'], R, key + '|tmp index', b.loc(), 'tmp[i]', 'the shaded colour is read at tmp[%s], expected tmp[i]' % pi.show(b))
                    elif r == ('param', 5) or (r[0] == 'param' and r[1] == 5):
                        ctx.check(classify_index(b, pi, lv)['i'], R, key + '|mask index', b.loc(), 'mask[i]', 'coverage is read at mask[%s], expected mask[i]' % pi.show(b))
                    elif r == ('param', 1) and nm[:1] == ['clip']:
                        ctx.check(classify_index(b, pi, lv)['clip'], R, key + '|clip index', b.loc(), 'clip[y*clip_stride + x1 + i] (absolute surface coordinates)',
                                  'the clip mask is read at %s, expected y*clip_stride + x1 + i with no layer/blitter origin term (clip masks are full-surface)' % pi.show(b))
            ctx.check(n >= 1, R, key + '|dest store found', b.loc(), 'element store into dest found', 'no element store into self.dest found (fail closed)')
        else:
            for bi, d, ct in calls_in(ctx, b):
                if d is not None or ct[1][0] != 'ind':
                    continue
                for a in ct[2]:
                    a = strip_all(a)
                    if is_call(a, 'Index::index', 'IndexMut::index_mut') and a[2][1][0] == 'agg':
                        base = strip_all(a[2][0])
                        r, nm = field_path(base)
                        f = dict(a[2][1][4])
                        if 'start' not in f:
                            continue
                        ps = poly(f['start'])
                        c = classify_index(b, ps, set())
                        if nm[:1] == ['dest']:
                            n += 1
                            ctx.check(c['dest'], R, key + '|dest slice start', call_line(b, bi), 'dest[(y-self.y)*dest_stride + x1 - self.x ..]', 'destination slice starts at %s, expected (y - self.y)*dest_stride + x1 - self.x' % ps.show(b))
                        elif nm[:1] == ['clip']:
                            ctx.check(c['clip'], R, key + '|clip slice start', call_line(b, bi), 'clip[y*clip_stride + x1 ..] (absolute)', 'clip slice starts at %s, expected y*clip_stride + x1 (clip masks are full-surface, absolute)' % ps.show(b))
                        elif nm[:1] == ['tmp']:
                            ctx.check(ps == Poly.const(0), R, key + '|tmp slice start', call_line(b, bi), 'tmp[0..]', 'tmp slice starts at %s, expected 0' % ps.show(b))
            ctx.check(n >= 1, R, key + '|dest slice found', b.loc(), 'dest slice passed to the row proc', 'no dest slice passed to a row proc (fail closed)')
        # shade_span(shader, x1, y, tmp, count)
        ss = [(bi, ct) for bi, d, ct in calls_in(ctx, b) if d and d.endswith('blitter::Shader::shade_span')]
        ok = len(ss) == 1
        if ok:
            a = ss[0][1][2]
            ok = a[1] == ('param', 3) and a[2] == ('param', 2) and poly(a[4]) == count and is_self_field(strip_all(a[0]), 'shader')
            tb = strip_all(a[3])
            ok = ok and is_call(tb, 'index_mut') and is_self_field(strip_all(tb[2][0]), 'tmp')
        ctx.check(ok, R, key + '|shade_span', b.loc(), 'shade_span(x1, y, tmp, x2-x1)', 'the source row is not shaded as shade_span(x1, y, tmp, x2 - x1)')


# combinators whose result is argument 0 (the old destination role given) when a coverage weight is zero:
#   lerp(a, b, 0) = a                              (drb*0>>8 = 0)
#   alpha_lerp(a, b, m, c) = lerp(a, b, ((m+1)*c)>>8): m=0 -> (1*c)>>8 = 0 for c<=255; c=0 -> 0
ZERO_ID = {'sw_composite::lerp': (0, [2]), 'sw_composite::alpha_lerp': (0, [2, 3])}
ZERO_PRESERVING_CALLS = {'sw_composite::alpha_mul_256', 'sw_composite::muldiv255'}


def zero_preserving(t, covs):
    """is the weight term 0 whenever one of the coverage reads is 0?  casts and the coverage reads themselves are;
    alpha_to_alpha256 (x+1) is not."""
    t = strip_casts(t, ('IntToInt',))
    if t in covs:
        return True
    if t[0] == 'deref' and t in covs:
        return True
    if t[0] == 'call' and isinstance(t[1], str) and t[1] in ZERO_PRESERVING_CALLS:
        return any(zero_preserving(a, covs) for a in t[2])
    if t[0] == 'bin' and t[1] == 'Mul':
        return zero_preserving(t[2], covs) or zero_preserving(t[3], covs)
    return False


def guarded_alternatives(ctx, b, an, val, pt=None):
    """a stored value that is a join of values chosen by a test (`if cov == 255 { a } else { b }`): [(alternative term,
    comparison facts holding where it is defined)]; for anything else the value with the facts holding where it is
    stored (pt), so that a store made on one branch of such a test is read the same way"""
    v = strip_all(val)
    if v[0] != 'phi' or not (2 <= len(v[2]) <= 4):
        return [(val, list(normalized_guards(ctx, b, pt[0])) if pt is not None else [])]
    out = []
    for i in v[2]:
        d = an.defs[i]
        if d.kind not in ('assign', 'call') or d.partial:
            return [(val, [])]
        out.append((an.def_term(d) if d.kind == 'assign' else an.call_term(d.bb), list(normalized_guards(ctx, b, d.bb))))
    return out


def r02_7(ctx):
    """zero coverage leaves the destination untouched"""
    R = 'R02.7'
    n = 0
    # SrcOver blitters: the store is control-dependent on cov != 0 for every coverage read used
    impls = blitter_impls(ctx, R)
    for name in SRC_OVER_BLITTERS:
        b = impls.get(name)
        if b is None:
            ctx.fail(R, 'blitter::%s|anchor' % name, '-', 'impl Blitter for %s not found (fail closed)' % name)
            continue
        an = ctx.an(b)
        key = 'blitter::%s::blit_span' % name
        for addr, val, pt, kind in an.stores:
            root, names = field_path(addr)
            if kind != 'assign' or not (root == ('param', 1) and names[:1] == ['dest'] and addr[0] == 'index'):
                continue
            n += 1
            covs = []
            for base, idx in elem_reads(val):
                r, nm = field_path(base)
                if (r[0] == 'param' and r[1] == 5) or (r == ('param', 1) and nm[:1] == ['clip']):
                    covs.append((base, idx))
            gs = normalized_guards(ctx, b, pt[0])
            for base, idx in covs:
                nm = 'clip' if field_path(base)[1][:1] == ['clip'] else 'mask'
                ok = False
                for op, a, b2, si in gs:
                    if op in ('Ne', 'Gt') and const_val(b2) == 0:
                        er = elem_reads(a)
                        if any(field_path(x[0]) == field_path(base) for x in er):
                            ok = True
                ctx.check(ok, R, key + '|%s != 0 guard' % nm, b.loc(), 'write only when %s != 0' % nm,
                          'the destination is written even when the %s coverage byte is 0 (no `%s != 0` guard dominates the store)' % (nm, nm))
    # row procs
    for q in ROW_PROCS[1:]:
        b = ctx.body(q, R)
        an = ctx.an(b)
        key = short(q)
        canon = row_elem_canon(ctx, b, an)
        dst_e, src_e = ('elem', b.argc), ('elem', 1)
        for addr, val, pt, kind in an.stores:
            if kind != 'assign':
                continue
            n += 1
            # coverage reads: the current elements of the u8 slices (every parameter but src and dst)
            cval = canon(val)
            covs = set(x for x in subterms(cval) if x[0] == 'elem' and x not in (dst_e, src_e))
            for alt, _g in guarded_alternatives(ctx, b, an, val, pt):
                covs |= set(x for x in subterms(canon(alt)) if x[0] == 'elem' and x not in (dst_e, src_e))
            gs = list(normalized_guards(ctx, b, pt[0]))
            # elements that an .filter(pred) adaptor lets through satisfy pred
            root = addr
            while root[0] in ('deref', 'field', 'ref'):
                root = root[1]
            if is_call(root, 'Iterator::next'):
                gs += [(op, a, b2, None) for op, a, b2 in canon.filter_facts(root)]
            guarded = set()
            for op, a, b2, si in gs:
                if op in ('Ne', 'Gt') and const_val(b2) == 0:
                    for x in subterms(canon(a)):
                        if x in covs:
                            guarded.add(x)
            ok = True
            for alt, alt_gs in guarded_alternatives(ctx, b, an, val, pt):
                v = strip_all(canon(alt))
                acovs = set(x for x in subterms(v) if x[0] == 'elem' and x not in (dst_e, src_e)) or covs
                aguarded = set(guarded)
                for op, a, b2, si in alt_gs:
                    # `cov != 0`, `cov > 0`, and `cov == c` for a non-zero constant all exclude zero coverage
                    if (op in ('Ne', 'Gt') and const_val(b2) == 0) or (op == 'Eq' and const_val(b2) not in (None, 0)):
                        for x in subterms(canon(a)):
                            if x[0] == 'elem' and x not in (dst_e, src_e):
                                aguarded.add(x)
                        # a product of coverages that is non-zero has non-zero factors
                        ca = strip_all(canon(a))
                        if ca in subterms(strip_all(cval)) or True:
                            for x in subterms(ca):
                                if x[0] == 'elem' and x not in (dst_e, src_e):
                                    aguarded.add(x)
                okv = False
                if v[0] == 'call' and isinstance(v[1], str) and v[1] in ZERO_ID and canon(strip_all(addr)) == dst_e:
                    idpos, wpos = ZERO_ID[v[1]]
                    first_is_old = strip_all(v[2][idpos]) == dst_e
                    weights = [v[2][i] for i in wpos]
                    # every coverage byte that feeds a weight must either be guarded or flow zero-preservingly
                    cov_in_w = set()
                    for w in weights:
                        for x in subterms(w):
                            if x in covs:
                                cov_in_w.add(x)
                    zp = all(zero_preserving(w, cov_in_w) for w in weights)
                    okv = first_is_old and (zp or cov_in_w <= aguarded) and bool(cov_in_w)
                elif (covs or True) and (covs | set(('elem', k5) for k5 in range(2, b.argc))) <= aguarded:
                    okv = True      # this alternative is only taken when every coverage byte is non-zero
                ok = ok and okv
            ctx.check(ok, R, key + '|zero coverage is identity', b.loc(), 'zero coverage keeps the old pixel',
                      'with a coverage byte of 0 the new pixel is %s, which is not the old pixel: the weight is not zero at zero coverage (alpha_to_alpha256(0) = 1) and no `!= 0` guard skips the write' % fmt(b, strip_all(val)))
    ctx.floor(R, 'coverage-weighted destination writes', n, 4)


def r02_8(ctx):
    """who obtains a mutable view of the pixel buffers"""
    R = 'R02.8'
    allowed = {
        DT + 'composite': 'the compositor',
        DT + 'composite_surface': 'surface copy/blend (C15), ignores clip and layers by contract',
        DT + 'clear': 'unclipped clear',
        DT + 'get_data_mut': 'raw accessor',
        DT + 'get_data_u8_mut': 'raw accessor',
        DT + 'from_vec': 'constructor (resizes its argument)',
    }
    found = set()
    for q, b in ctx.F.bodies.items():
        an = ctx.an(b)
        for bi, k2, s in b.statements():
            if s['k'] != 'assign' or s['rv']['k'] not in ('ref', 'rawptr') or not s['rv']['mut']:
                continue
            t = an.place_term(bi, k2, s['rv']['p'])
            root, names = field_path(t)
            adts = [x[3] for x in subterms(t) if x[0] == 'field' and x[2] == 'buf']
            if any(a in ('raqote::draw_target::DrawTarget', 'raqote::draw_target::Layer') for a in adts):
                found.add(q)
    for q in sorted(found):
        ctx.check(q in allowed, R, short(q) + '|mutable pixel access', ctx.F.body(q).loc(), allowed.get(q, ''),
                  '%s takes a mutable view of a pixel buffer but is not one of the audited pixel writers %s' % (short(q), sorted(short(a) for a in allowed)))
    ctx.floor(R, 'functions taking &mut of a pixel buffer (positive control)', len(found & set(allowed)), 4)


# ====================================================================== C03
def r03_1(ctx):
    """blend dispatch law"""
    R = 'R03.1'
    b = ctx.body('raqote::draw_target::build_blend_proc', R)
    an = ctx.an(b)
    key = 'draw_target::build_blend_proc'
    ms = [m for m in matches(ctx, b, 'BlendMode') if m.scrut == ('param', 1)]
    adt0 = ctx.F.adt('raqote::draw_target::BlendMode')
    if not ms and adt0:
        # the same dispatch as a table: [T::build::<X0>, T::build::<X1>, ..][mode as usize](), one entry per variant in
        # discriminant order
        tbl_ok = False
        n_t = 0
        for rt in shared.ret_terms(ctx, b):
            rt = strip_all(rt)
            if not (rt[0] == 'call' and not isinstance(rt[1], str) and rt[1][0] == 'ind' and not rt[2]):
                continue
            ind = strip_all(rt[1][1])
            if ind[0] != 'index':
                continue
            ix = strip_casts(ind[2], ('IntToInt',))
            arr = ind[1]
            while arr[0] in ('deref', 'ref'):
                arr = arr[1]
            if arr[0] == 'mem':
                arr = shared.resolve_mem(an, arr)
            if not (ix[0] == 'discr' and strip_all(ix[1]) == ('param', 1) and arr[0] == 'agg' and arr[1] == 'array' and len(arr[4]) == len(adt0['variants'])):
                continue
            tbl_ok = True
            byidx = {v.get('idx'): v['name'] for v in adt0['variants']}
            for i3, (_nm, e) in enumerate(arr[4]):
                while e[0] == 'cast':
                    e = e[3]
                want_v = byidx.get(i3)
                got = e[3][1] if e[0] == 'fn' and len(e[3]) > 1 else None
                okv = e[0] == 'fn' and e[1].endswith('Blender::build') and got == 'sw_composite::blend::' + str(want_v)
                ctx.check(okv, R, key + '|arm ' + str(want_v), b.loc(), '%s -> build::<blend::%s>' % (want_v, want_v), 'BlendMode::%s (table entry %d) is wired to %s, expected sw_composite::blend::%s' % (want_v, i3, got, want_v))
                n_t += 1
        if tbl_ok:
            ctx.check(n_t == len(adt0['variants']), R, key + '|all variants', b.loc(), '%d table entries for %d variants' % (n_t, len(adt0['variants'])), '%d table entries for %d BlendMode variants' % (n_t, len(adt0['variants'])))
            ctx.floor(R, 'BlendMode arms', n_t, 28)
    if not ms and adt0 and 'tbl_ok' in dir() and tbl_ok:
        pass
    elif not ctx.check(len(ms) == 1, R, key + '|match', b.loc(), 'one match on mode', 'expected one match on the mode parameter, found %d (fail closed)' % len(ms)):
        return
    m = ms[0] if ms else None
    if m is not None:
        ctx.check(m.otherwise is None, R, key + '|no wildcard', b.loc(), 'no live wildcard arm', 'the blend dispatch has a live wildcard arm')
    adt = ctx.F.adt('raqote::draw_target::BlendMode')
    nvar = len(adt['variants']) if adt else 0
    n = 0
    for v, tgt in sorted(m.arms.items()) if m is not None else []:
        region = arm_region(an.cfg, m.bb, tgt)
        cs = [(bi, an.callee_info(bi)) for bi, d, ct in calls_in(ctx, b, region) if d and d.endswith('Blender::build')]
        ok = len(cs) == 1
        got = None
        if ok:
            heads = cs[0][1].get('subst_heads') or []
            got = heads[1] if len(heads) > 1 else None
            ok = got == 'sw_composite::blend::' + v
        ctx.check(ok, R, key + '|arm ' + v, b.loc(), '%s -> build::<blend::%s>' % (v, v), 'BlendMode::%s is wired to %s, expected sw_composite::blend::%s' % (v, got, v))
        n += 1
    if m is not None:
        ctx.check(n == nvar and nvar > 0, R, key + '|all variants', b.loc(), '%d arms for %d variants' % (n, nvar), '%d arms for %d BlendMode variants' % (n, nvar))
        ctx.floor(R, 'BlendMode arms', n, 28)
    # Blender impls: build::<T>() returns the matching row proc instantiated at T
    want = {'BlendRow': 'blend_row', 'BlendRowMask': 'blend_row_mask', 'BlendRowMaskClip': 'blend_row_mask_clip'}
    cnt = 0
    for im in ctx.F.impls_of('draw_target::Blender'):
        sname = im['self'].split('::')[-1]
        for it in im['items']:
            if it['name'] != 'build' or it['kind'] != 'AssocFn':
                continue
            bb = ctx.body(it['q'], R)
            rts = shared.ret_terms(ctx, bb)
            ok = False
            got = [fmt(bb, t) for t in rts]
            for t in rts:
                t2 = t
                while t2[0] == 'cast':
                    t2 = t2[3]
                if t2[0] == 'fn' and t2[1] == 'raqote::draw_target::' + want.get(sname, '?') and t2[3] == ('param:T',):
                    ok = True
            ctx.check(ok, R, 'draw_target::%s::build' % sname, bb.loc(), '%s::build::<T> = %s::<T>' % (sname, want.get(sname)), '%s::build returns %s, expected %s::<T>' % (sname, got, want.get(sname)))
            cnt += 1
    ctx.floor(R, 'Blender impls', cnt, 3)


def top_clip_mask_term(t):
    """t denotes the (optional) mask of the top clip entry: clip_stack.last()'s `.mask`, possibly re-borrowed with
    as_ref()/as_deref() and possibly reached through and_then (beta-reduced)"""
    t = strip_all(t)
    for _ in range(6):
        if t[0] in ('ref', 'deref'):
            t = strip_all(t[1])
        elif t[0] == 'call' and isinstance(t[1], str) and t[1].split('::')[-1] in ('as_ref', 'as_deref', 'as_mut', 'as_deref_mut') and len(t[2]) == 1:
            t = strip_all(t[2][0])
        else:
            break
    r, nm = field_path(t)
    return t[0] == 'field' and nm[-1:] == ['mask'] and (t[3] or '').endswith('Clip') and is_call(r, '::last')


def r03_2(ctx):
    """blitter selection table in choose_blitter"""
    R = 'R03.2'
    b = ctx.body(DT + 'choose_blitter', R)
    an = ctx.an(b)
    key = 'draw_target::DrawTarget::choose_blitter'
    # parameters: mask=1, clip_stack=2, blitter_storage=3, shader=4, blend=5, dest=6, dest_bounds=7, width=8
    P_M, P_CS, P_ST, P_SH, P_BL, P_DEST, P_DB, P_W = 1, 2, 3, 4, 5, 6, 7, 8
    expect = {
        # (mask present, clip mask present, blend == SrcOver) -> (blitter, Blender)
        (True, True, True): ('ShaderClipMaskBlitter', None),
        (True, True, False): ('ShaderClipBlendMaskBlitter', 'BlendRowMaskClip'),
        (True, False, True): ('ShaderMaskBlitter', None),
        (True, False, False): ('ShaderBlendMaskBlitter', 'BlendRowMask'),
        (False, None, None): ('ShaderBlendBlitter', 'BlendRow'),
    }
    seen = {}
    n = 0
    # choose_blitter(mask, clip_mask: Option<&[u8]>, ..): every caller must pass the mask of the top clip entry
    clip_mask_param = False
    top_clip_param = False
    if (b.locals[P_CS].get('ty') or '').startswith('std::option::Option<&') and (b.locals[P_CS].get('ty') or '').rstrip('>').endswith('Clip'):
        # choose_blitter(mask, top_clip: Option<&Clip>, ..): every caller must pass clip_stack.last()
        sites = []
        for q2, b2 in ctx.F.bodies.items():
            for bi2, d2, ct2 in calls_in(ctx, b2):
                if d2 == DT + 'choose_blitter':
                    sites.append((b2, bi2, ct2))
        def is_top(t):
            t = strip_all(t)
            return is_call(t, '::last') and any(x[0] == 'field' and x[2] == 'clip_stack' for x in subterms(t))
        top_clip_param = bool(sites) and all(is_top(ct2[2][P_CS - 1]) for b2, bi2, ct2 in sites)
        ctx.check(top_clip_param, R, key + '|top clip argument', b.loc(), 'every caller passes clip_stack.last()', 'choose_blitter takes the top clip entry as a parameter but a caller does not pass clip_stack.last()')
    elif (b.locals[P_CS].get('ty') or '').startswith('std::option::Option<&'):
        sites = []
        for q2, b2 in ctx.F.bodies.items():
            for bi2, d2, ct2 in calls_in(ctx, b2):
                if d2 == DT + 'choose_blitter':
                    sites.append((b2, bi2, ct2))
        clip_mask_param = bool(sites) and all(top_clip_mask_term(ct2[2][P_CS - 1]) for b2, bi2, ct2 in sites)
        ctx.check(clip_mask_param, R, key + '|clip mask argument', b.loc(), 'every caller passes clip_stack.last().mask', 'choose_blitter takes the clip mask as a parameter but a caller does not pass the mask of the top clip entry')
    for bi, k2, s in b.statements():
        if s['k'] != 'assign' or s['rv']['k'] != 'agg' or not s['rv'].get('adt', '').startswith('raqote::blitter::Shader') or s['rv']['adt'].endswith('Storage'):
            continue
        if bi not in an.cfg.reach:
            continue
        t = an.rvalue_term(bi, k2, s['rv'])
        name = t[2].split('::')[-1]
        n += 1
        f = dict(t[4])
        # conditions under which this aggregate is built
        vg = variant_guards(ctx, b, bi)
        has_mask = None
        has_clipmask = None
        for scr, adt, v, sb in vg:
            r, nm = field_path(scr)
            if scr == ('param', P_M) and v in ('Some', 'None'):
                has_mask = (v == 'Some')
            if nm[-1:] == ['mask'] and v == 'Some' and is_call(r, '::last'):
                has_clipmask = True
            if v == 'Some' and top_clip_mask_term(scr):
                has_clipmask = True
            # the top clip's mask handed in by the caller instead of the whole stack (the call site is checked below)
            if v == 'Some' and strip_all(scr) == ('param', P_CS) and clip_mask_param:
                has_clipmask = True
            # the top clip entry handed in: its `.mask` is the clip mask
            if v == 'Some' and top_clip_param and nm[-1:] == ['mask'] and (strip_all(scr)[3] or '').endswith('Clip') and any(x == ('param', P_CS) for x in subterms(scr)):
                has_clipmask = True
        # the mask presence test reads the tuple built from the mask parameter
        srcover = None
        for op, a, b2, si in normalized_guards(ctx, b, bi):
            if op in ('true', '!true') and is_call(a, 'PartialEq::eq'):
                x, y2 = strip_all(a[2][0]), strip_all(a[2][1])
                if x == ('param', P_BL) and y2[0] == 'agg' and y2[3] == 'SrcOver':
                    srcover = (op == 'true')
        if has_mask and not has_clipmask:
            has_clipmask = False
        cond = (has_mask, has_clipmask if has_mask else None, srcover if has_mask else None)
        sk = key + '|' + name
        exp = expect.get(cond)
        ok = exp is not None and exp[0] == name
        ctx.check(ok, R, sk + '|selected when', b.loc(s['sp']), '%s built under (mask,clip-mask,SrcOver)=%s' % (name, cond),
                  '%s is built under (mask present, clip mask present, blend==SrcOver) = %s; the table expects %s there' % (name, cond, exp[0] if exp else 'nothing'))
        seen[name] = cond
        # field plumbing
        okx = strip_all(f['x']) == ('field', ('field', ('param', P_DB), 'min', 'euclid::Box2D', None), 'x', 'euclid::Point2D', None)
        oky = strip_all(f['y']) == ('field', ('field', ('param', P_DB), 'min', 'euclid::Box2D', None), 'y', 'euclid::Point2D', None)
        ctx.check(okx and oky, R, sk + '|origin', b.loc(s['sp']), 'x,y = dest_bounds.min', 'blitter origin (x, y) is (%s, %s), expected dest_bounds.min.(x, y)' % (fmt(b, f['x']), fmt(b, f['y'])))
        ds = strip_all(f['dest_stride'])
        okd = ds[0] == 'field' and ds[2] == 'width' and is_call(ds[1], 'Box2D::<T, U>::size') and strip_all(ds[1][2][0]) == ('param', P_DB)
        ctx.check(okd, R, sk + '|dest_stride', b.loc(s['sp']), 'dest_stride = dest_bounds.size().width', 'dest_stride is %s, expected dest_bounds.size().width (the destination may be a layer narrower than the surface)' % fmt(b, f['dest_stride']))
        ctx.check(strip_all(f['dest']) in (('param', P_DEST), ('deref', ('param', P_DEST))), R, sk + '|dest', b.loc(s['sp']), 'dest = dest', 'dest field is %s' % fmt(b, f['dest']))
        ctx.check(strip_all(f['shader']) in (('param', P_SH), ('deref', ('param', P_SH))), R, sk + '|shader', b.loc(s['sp']), 'shader = shader', 'shader field is %s' % fmt(b, f['shader']))
        if 'clip' in f:
            c = strip_all(f['clip'])
            D = Deps(an)
            D.closure(c)
            okc = (any(x[0] == 'field' and x[2] == 'mask' and (x[3] or '').endswith('Clip') for x in D.visited) and any(is_call(x, '::last') for x in D.visited)) \
                or (clip_mask_param and any(x == ('param', P_CS) for x in D.visited)) \
                or (top_clip_param and any(x[0] == 'field' and x[2] == 'mask' and (x[3] or '').endswith('Clip') for x in D.visited) and any(x == ('param', P_CS) for x in D.visited))
            ctx.check(okc, R, sk + '|clip', b.loc(s['sp']), 'clip = mask of clip_stack.last()', 'the clip field does not come from the mask of the top clip')
            ctx.check(strip_all(f['clip_stride']) == ('param', P_W), R, sk + '|clip_stride', b.loc(s['sp']), 'clip_stride = surface width', 'clip_stride is %s, expected the surface width (clip masks are full-surface)' % fmt(b, f['clip_stride']))
        if 'blend_fn' in f:
            bf = strip_all(f['blend_fn'])
            okb = is_call(bf, 'build_blend_proc') and bf[2][0] == ('param', P_BL)
            heads = (an.callee_info(bf[3]).get('subst_heads') or [None]) if okb else [None]
            okb = okb and exp is not None and heads[0] == 'raqote::draw_target::' + str(exp[1])
            ctx.check(okb, R, sk + '|blend_fn', b.loc(s['sp']), 'blend_fn = build_blend_proc::<%s>(blend)' % (exp[1] if exp else '?'), 'blend_fn is %s (Blender %s), expected build_blend_proc::<%s>(blend)' % (fmt(b, bf), heads[0], exp[1] if exp else '?'))
    ctx.floor(R, 'blitter aggregates in choose_blitter', n, 5)
    ctx.check(set(seen) == set(v[0] for v in expect.values()), R, key + '|all five routes', b.loc(), 'all five blitters are selectable', 'blitters built: %s, expected all of %s' % (sorted(seen), sorted(v[0] for v in expect.values())))


def composite_callers(ctx, R):
    """[(caller body, bb, call term)] for every call of DrawTarget::composite"""
    out = []
    for q, b in ctx.F.bodies.items():
        for bi, d, ct in calls_in(ctx, b):
            if d == DT + 'composite':
                out.append((b, bi, ct))
    return out


def is_none_agg(t):
    t = strip_all(t)
    return t[0] == 'agg' and t[3] == 'None' and (t[2] or '').endswith('Option')


def clip_stack_empty_guard(ctx, b, bi):
    # (facts_at also looks through a boolean variable that holds the `&&` of the conditions)
    for op, a, b2, si in shared.facts_at(ctx, b, bi):
        if op == 'true' and is_call(a, 'Vec::<T, A>::is_empty') and is_self_field(strip_all(a[2][0]), 'clip_stack'):
            return True
        if op in ('Eq', '!Ne') and b2 is not None and const_val(b2) == 0 and is_call(strip_all(a), '::len') and is_self_field(strip_all(strip_all(a)[2][0]), 'clip_stack'):
            return True
    return False


def r03_3(ctx):
    """mask-less compositing only with an empty clip stack"""
    R = 'R03.3'
    callers = composite_callers(ctx, R)
    ctx.floor(R, 'callers of composite', len(callers), 4)
    n = 0
    for b, bi, ct in callers:
        if not is_none_agg(ct[2][2]):
            continue
        n += 1
        ok = clip_stack_empty_guard(ctx, b, bi)
        ctx.check(ok, R, short(b.q) + '|mask-less composite', call_line(b, bi), 'dominated by clip_stack.is_empty()',
                  '%s composites without a coverage mask while a clip may be pushed: the mask-less blitter cannot honour a clip mask' % short(b.q))
    ctx.floor(R, 'mask-less composite calls (positive control)', n, 1)


def r03_4(ctx):
    """operand roles of the row procs and the SrcOver blitters"""
    R = 'R03.4'
    # row procs: *dst = W(*dst, T::blend(*src, *dst), weights...) ; blend_row: *dst = T::blend(*src, *dst)
    n = 0
    for q in ROW_PROCS:
        b = ctx.body(q, R)
        an = ctx.an(b)
        key = short(q)
        canon = row_elem_canon(ctx, b, an)
        dst_e, src_e = ('elem', b.argc), ('elem', 1)
        for addr, val, pt, kind in an.stores:
            if kind != 'assign':
                continue
            n += 1
            old = canon(strip_all(addr))
            v = strip_all(canon(val))
            def is_blend(t):
                # T::blend(source element, old destination element) of the same pixel
                t = strip_all(t)
                return is_call(t, 'blend::Blend::blend') and strip_all(t[2][1]) == dst_e and strip_all(t[2][0]) == src_e
            if q.endswith('blend_row'):
                ok = old == dst_e and is_blend(v) and len(canon.positions) <= 1
                ctx.check(ok, R, key + '|roles', b.loc(), '*dst = T::blend(*src, *dst)', 'blend_row stores %s, expected T::blend(*src, *dst)' % fmt(b, strip_all(val)))
                continue
            def is_interp(v):
                return v[0] == 'call' and isinstance(v[1], str) and v[1] in ZERO_ID and strip_all(v[2][0]) == dst_e and is_blend(v[2][1])
            alts = guarded_alternatives(ctx, b, an, val, pt)
            if len(alts) >= 1 and not is_interp(v):
                # a value chosen by a test of the coverage: every alternative is the interpolation, or — where the
                # coverage is known to be full — the blend result itself (R03.8 decides that this is exact)
                vs = [(strip_all(canon(a)), g) for a, g in alts]
                okalts = all(is_interp(x) or (is_blend(x) and any(op == 'Eq' and const_val(b2) == 255 for op, a2, b2, si in g)) for x, g in vs)
                interp = [x for x, g in vs if is_interp(x)]
                if okalts and len(interp) >= 1:
                    v = interp[0]
                elif okalts and old == dst_e and len(canon.positions) <= 1:
                    # this store is the full-coverage branch on its own (the interpolating store is another statement)
                    ctx.ok(R, key + '|roles (full-coverage store)', b.loc(), '*dst = T::blend(*src, *dst) under coverage == 255')
                    continue
            ok = old == dst_e and is_interp(v) and len(canon.positions) <= 1
            ctx.check(ok, R, key + '|roles', b.loc(), '*dst = interp(*dst, T::blend(*src, *dst), coverage...)',
                      'the row proc stores %s: expected the interpolation from the old pixel (first) to T::blend(source, old pixel) (second), all read from the same pixel position' % fmt(b, strip_all(val)))
            if ok:
                # which slice feeds which weight: the coverage bytes of this pixel only
                ws = [strip_casts(w, ('IntToInt',)) for w in v[2][2:]]
                flat = []
                for w in ws:
                    for x in subterms(w):
                        if x[0] == 'elem':
                            flat.append(x)
                ctx.check(len(set(flat)) >= len(ws) and dst_e not in flat and src_e not in flat, R, key + '|weights', b.loc(), 'weights are functions of the coverage bytes of this pixel only', 'weights are %s' % [fmt(b, w) for w in ws])
    ctx.floor(R, 'row proc stores', n, 3)
    impls = blitter_impls(ctx, R)
    for name in SRC_OVER_BLITTERS:
        b = impls.get(name)
        if b is None:
            continue
        an = ctx.an(b)
        key = 'blitter::%s::blit_span' % name
        for addr, val, pt, kind in an.stores:
            root, names = field_path(addr)
            if kind != 'assign' or not (root == ('param', 1) and names[:1] == ['dest'] and addr[0] == 'index'):
                continue
            v = strip_all(val)
            want = 'over_in' if name == 'ShaderMaskBlitter' else 'over_in_in'
            # an opaque source at full coverage replaces the destination: over_in(s, d, 255) = s when s >> 24 == 255
            # (sw-composite: the source is scaled by 256/256, the destination by 1/256 into bits that are shifted out);
            # a store of the source itself is that case when it is made under exactly these two tests
            srd = elem_reads(v)
            if v[0] == 'index' and len(srd) == 1 and field_path(srd[0][0])[1][:1] == ['tmp'] and want == 'over_in':
                gs0 = normalized_guards(ctx, b, pt[0])
                full = any(op == 'Eq' and const_val(strip_all(b2)) == 255 and len(elem_reads(a)) == 1 and field_path(elem_reads(a)[0][0])[0] == ('param', 5) for op, a, b2, si in gs0 if b2 is not None)
                def alpha_of_src(t):
                    t = strip_all(t)
                    return t[0] == 'bin' and t[1] == 'Shr' and const_val(strip_all(t[3])) == 24 and nosite(strip_all(t[2])) == nosite(v)
                opaque = any(op == 'Eq' and const_val(strip_all(b2)) == 255 and alpha_of_src(a) for op, a, b2, si in gs0 if b2 is not None)
                ctx.check(full and opaque, R, key + '|roles (opaque fast path)', b.loc(), 'dest = tmp[i] only when mask[i] == 255 and tmp[i] >> 24 == 255',
                          'the SrcOver blitter stores the source pixel itself without having tested mask == 255 and source alpha == 255: that equals over_in(source, dest, mask) only for an opaque source at full coverage')
                continue
            ok = is_call(v, 'sw_composite::' + want)
            if ok:
                a = v[2]
                src_r = elem_reads(a[0])
                dst_r = strip_all(a[1])
                ok = (len(src_r) == 1 and field_path(src_r[0][0])[1][:1] == ['tmp'] and dst_r[0] == 'index' and field_path(dst_r)[1][:1] == ['dest'])
                covs = [elem_reads(x) for x in a[2:]]
                okc = all(len(c) == 1 for c in covs)
                if okc:
                    first = field_path(covs[0][0][0])
                    okc = first[0] == ('param', 5)
                    if want == 'over_in_in':
                        okc = okc and field_path(covs[1][0][0])[1][:1] == ['clip']
                ok = ok and okc
            ctx.check(ok, R, key + '|roles', b.loc(), 'dest = %s(tmp[i], dest[j], mask[i]%s)' % (want, ', clip[k]' if want == 'over_in_in' else ''),
                      'the SrcOver blitter stores %s, expected %s(source tmp[i], old dest[j], mask[i]%s)' % (fmt(b, v), want, ', clip[k]' if want == 'over_in_in' else ''))


def alpha_conversions(ctx):
    """the float->byte alpha conversions: [(body, statement span, cast term)] for casts FloatToInt of (x*255 + 0.5)-like terms"""
    out = []
    for q in ('raqote::blitter::choose_shader', DT + 'pop_layer', DT + 'blend_surface_with_alpha'):
        b = ctx.F.body(q)
        if b is None:
            continue
        an = ctx.an(b)
        for bi, k2, s in b.statements():
            if s['k'] == 'assign' and s['rv']['k'] == 'cast' and s['rv']['ck'] == 'FloatToInt':
                out.append((b, s, an.rvalue_term(bi, k2, s['rv']), bi))
    return out


def unclamp_byte(inner):
    """E for a float `E` limited to [0, 255] (or one side of it) before a cast that saturates there anyway:
    max(E, 0.), min(E, 255.), clamp(E, 0., 255.) in any nesting"""
    t = inner
    for _ in range(4):
        tt = strip_all(t)
        if tt[0] == 'call' and isinstance(tt[1], str):
            last = tt[1].split('::')[-1]
            if last == 'max' and len(tt[2]) == 2 and const_val(strip_all(tt[2][1])) == 0:
                t = tt[2][0]
                continue
            if last == 'min' and len(tt[2]) == 2 and const_val(strip_all(tt[2][1])) == 255:
                t = tt[2][0]
                continue
            if last == 'clamp' and len(tt[2]) == 3 and const_val(strip_all(tt[2][1])) == 0 and const_val(strip_all(tt[2][2])) == 255:
                t = tt[2][0]
                continue
        break
    return strip_all(t)


def r03_6(ctx):
    """alpha byte conversion siblings: x*255 + 0.5, saturating at 255"""
    R = 'R03.6'
    convs = alpha_conversions(ctx)
    ctx.floor(R, 'float->byte alpha conversions', len(convs), 3)
    for b, s, t, bi in convs:
        key = short(b.q) + '|alpha byte'
        inner = t[3]
        if t[2] == 'u8':
            inner = unclamp_byte(inner)      # `as u8` saturates to [0, 255] and sends NaN to 0, exactly like the clamp
        form = (inner[0] == 'bin' and inner[1] == 'Add' and const_val(inner[3]) == 0.5 and inner[2][0] == 'bin' and inner[2][1] == 'Mul' and const_val(inner[2][3]) == 255.0)
        ctx.check(form, R, key + '|form', b.loc(s['sp']), 'x*255 + 0.5', 'the alpha conversion computes %s, expected x*255 + 0.5 (round to nearest)' % fmt(b, inner))
        ty = t[2]
        sat = ty == 'u8'
        if not sat:
            # a wider cast is fine when the float operand is clamped to <= 1 (or the result to <= 255) first
            sat = any(is_call(x, 'f32::min', 'f32::clamp', '::min', '::clamp') for x in subterms(inner))
            if not sat:
                # or the integer result goes through .min(255) before use: look for a min call on the result
                an = ctx.an(b)
                for bi2, d, ct in calls_in(ctx, b):
                    if d and (d.endswith('::min') or d.endswith('::clamp')) and any(strip_casts(a) == t for a in ct[2]):
                        sat = True
        ctx.check(sat, R, key + '|saturates', b.loc(s['sp']), 'conversion saturates at 255 (cast to %s)' % ty,
                  'the alpha conversion casts to %s without a clamp: an alpha above 1.0 yields a byte value above 255 and the per-channel multiply overflows into the neighbouring channel (or panics in debug builds)' % ty)


def r03_7(ctx):
    """mask placement: a max corner must not be a bare extent unless the min corner is the literal 0"""
    R = 'R03.7'
    n = 0
    def is_extent(t):
        t = strip_casts(t)
        r, nm = field_path(t)
        return t[0] == 'field' and nm and nm[-1] in ('width', 'height')
    for q, b in ctx.F.bodies.items():
        if '::draw_text' in q or '::draw_glyphs' in q:
            continue
        for bi, d, ct in calls_in(ctx, b):
            if d == 'raqote::geom::intrect':
                x1, y1, x2, y2 = ct[2]
            elif d and d.endswith('Box2D::<T, U>::new') and len(ct[2]) == 2:
                # the same rectangle spelled Box2D::new(point(x1, y1), point(x2, y2)): (min, max), not (origin, size)
                p1, p2 = strip_all(ct[2][0]), strip_all(ct[2][1])
                if not (is_call(p1, 'Point2D::<T, U>::new', 'euclid::point2') and is_call(p2, 'Point2D::<T, U>::new', 'euclid::point2') and len(p1[2]) == 2 and len(p2[2]) == 2):
                    continue
                (x1, y1), (x2, y2) = p1[2], p2[2]
            else:
                continue
            n += 1
            for (lo, hi, ax) in ((x1, x2, 'x'), (y1, y2, 'y')):
                if is_extent(hi):
                    ok = const_val(lo) == 0
                    ctx.check(ok, R, short(q) + '|intrect %s' % ax, call_line(b, bi), 'extent as max corner only with min 0',
                              'intrect(.., %s, .., %s ..): the max %s corner is the bare extent %s while the min corner is %s — the rectangle is only right when it sits at the origin; expected %s + %s' % (fmt(b, lo), fmt(b, hi), ax, fmt(b, hi), fmt(b, lo), fmt(b, lo), fmt(b, hi)))
                else:
                    ctx.ok(R, short(q) + '|intrect %s@%s' % (ax, bi), call_line(b, bi), None)
    ctx.floor(R, 'intrect construction sites', n, 8)


def r03_5(ctx):
    """global alpha reaches every shader"""
    R = 'R03.5'
    b = ctx.body('raqote::blitter::choose_shader', R)
    an = ctx.an(b)
    key = 'blitter::choose_shader'
    convs = [c for c in alpha_conversions(ctx) if c[0].q == b.q]
    if not ctx.check(len(convs) == 1, R, key + '|alpha byte', b.loc(), 'one alpha conversion', 'expected one alpha conversion in choose_shader, found %d' % len(convs)):
        return
    abyte = convs[0][2]

    def is_abyte(x):
        x = strip_casts(x, ('IntToInt',))
        return x == abyte or (is_call(x, '::min') and strip_casts(x[2][0], ('IntToInt',)) == abyte)
    ainner = unclamp_byte(abyte[3]) if abyte[2] == 'u8' else abyte[3]
    ok_src = strip_casts(ainner[2][2]) == ('param', 3) if ainner[0] == 'bin' and ainner[2][0] == 'bin' else False
    ctx.check(ok_src, R, key + '|alpha param', b.loc(), 'alpha byte derives from the alpha parameter', 'the alpha byte is not computed from the alpha parameter')
    n = 0
    for bi, k2, s in b.statements():
        if s['k'] != 'assign' or s['rv']['k'] != 'agg' or s['rv'].get('adt') != 'raqote::blitter::ShaderStorage' or bi not in an.cfg.reach:
            continue
        t = an.rvalue_term(bi, k2, s['rv'])
        v = t[3]
        if v == 'None':
            continue
        n += 1
        payload = strip_all(t[4][0][1])
        sk = key + '|' + v
        uses_alpha = any(x == abyte for x in subterms(payload))
        if uses_alpha:
            ctx.ok(R, sk, b.loc(s['sp']), '%s receives the alpha byte' % v)
            if v == 'Solid':
                col = dict(payload[4]).get('color') if payload[0] == 'agg' else None
                okc = col is not None and is_call(col, 'sw_composite::alpha_mul') and is_call(col[2][0], 'SolidSource::to_u32') and is_call(col[2][1], 'alpha_to_alpha256') and is_abyte(col[2][1][2][0])
                ctx.check(okc, R, sk + '|whole-word scale', b.loc(s['sp']), 'color = alpha_mul(c.to_u32(), alpha_to_alpha256(alpha))', 'the solid colour is %s, expected alpha_mul(c.to_u32(), alpha_to_alpha256(alpha))' % (fmt(b, col) if col else '?'))
                if okc:
                    # ... of the source's own colour: the payload of Source::Solid, not a colour rebuilt from it (alpha_mul
                    # scales all four lanes once; a lane scaled beforehand is scaled twice and the pixel is no longer premultiplied)
                    rc = strip_all(col[2][0][2][0])
                    while rc[0] in ('deref', 'ref'):
                        rc = strip_all(rc[1])
                    own = rc[0] == 'field' and not any(x[0] in ('agg', 'call') for x in subterms(rc))
                    ctx.check(own, R, sk + '|the source colour itself', b.loc(s['sp']), 'the scaled word is the Solid payload', 'the colour handed to alpha_mul is %s, not the Source::Solid payload itself: a channel that was already scaled is scaled again by the whole-word multiply' % fmt(b, rc)[:120])
            continue
        # otherwise the arm must be taken only when alpha == 255
        gs = normalized_guards(ctx, b, bi)
        ok = any((op == '!Ne' or op == 'Eq') and is_abyte(a) and const_val(b2) == 255 for op, a, b2, si in gs)
        ctx.check(ok, R, sk, b.loc(s['sp']), '%s ignores alpha only under alpha == 255' % v,
                  'the %s shader is built without the global alpha and not under an alpha == 255 test: global alpha is dropped for this source kind' % v)
    ctx.floor(R, 'ShaderStorage arms', n, 15)


# ====================================================================== C05
def top_clip_field(leaves_or_terms, fld):
    """some term reads field `fld` of the Clip obtained from clip_stack.last()"""
    for x in leaves_or_terms:
        if x[0] == 'field' and x[2] == fld and (x[3] or '').endswith('draw_target::Clip'):
            r, nm = field_path(x)
            if is_call(r, '::last'):
                return True
    return False


def pushes_on(ctx, b, field):
    """[(bb, call term)] of Vec::push / Vec::pop whose receiver is self.<field>"""
    out = []
    for bi, d, ct in calls_in(ctx, b):
        if d and (d.endswith('Vec::<T, A>::push') or d.endswith('Vec::<T, A>::pop')) and is_self_field(strip_all(ct[2][0]), field):
            out.append((bi, d.split('::')[-1], ct))
    return out


def r05_1(ctx):
    """push_clip_rect carries both components of the previous top"""
    R = 'R05.1'
    b = ctx.body(DT + 'push_clip_rect', R)
    an = ctx.an(b)
    key = 'draw_target::DrawTarget::push_clip_rect'
    ps = [p for p in pushes_on(ctx, b, 'clip_stack') if p[1] == 'push']
    if not ctx.check(len(ps) == 1, R, key + '|one push', b.loc(), 'one push onto clip_stack', 'expected one push onto clip_stack, found %d' % len(ps)):
        return
    bi, _, ct = ps[0]
    clip = ct[2][1]
    D = Deps(an)
    lv = D.closure(('field', clip, 'rect', 'raqote::draw_target::Clip', None))
    ctx.check(('param', 2) in lv, R, key + '|rect uses argument', call_line(b, bi), 'new rect depends on the argument', 'the pushed clip rectangle does not depend on the rect argument')
    ctx.check(top_clip_field(D.visited, 'rect'), R, key + '|rect uses previous rect', call_line(b, bi), 'new rect depends on the previous top\'s rect',
              'the pushed clip rectangle does not depend on the rectangle of the clip underneath: nested clip rectangles are not intersected')
    D = Deps(an)
    D.closure(('field', clip, 'mask', 'raqote::draw_target::Clip', None))
    ctx.check(top_clip_field(D.visited, 'mask'), R, key + '|mask carried', call_line(b, bi), 'new entry carries the previous top\'s mask',
              'the pushed clip entry\'s mask never derives from the mask of the clip underneath (it is always None): a rectangle pushed over a path clip discards the path clip')


def r05_2(ctx):
    """push_clip carries both components"""
    R = 'R05.2'
    b = ctx.body(DT + 'push_clip', R)
    an = ctx.an(b)
    key = 'draw_target::DrawTarget::push_clip'
    ps = [p for p in pushes_on(ctx, b, 'clip_stack') if p[1] == 'push']
    if not ctx.check(len(ps) == 1, R, key + '|one push', b.loc(), 'one push onto clip_stack', 'expected one push onto clip_stack, found %d' % len(ps)):
        return
    bi, _, ct = ps[0]
    clip = strip_all(ct[2][1])
    f = dict(clip[4]) if clip[0] == 'agg' else {}
    rect = f.get('rect')
    ctx.check(rect is not None and is_call(rect, DT + 'clip_bounds'), R, key + '|rect', call_line(b, bi), 'rect = clip_bounds()', 'the pushed clip rect is %s, expected the current clip bounds' % (fmt(b, rect) if rect else '?'))
    mask = f.get('mask')
    D = Deps(an)
    lv = D.closure(mask) if mask else set()
    has_raster = any(is_call(x, 'Rasterizer::rasterize') for x in D.visited) if mask else False
    ctx.check(has_raster, R, key + '|mask from path', call_line(b, bi), 'mask derives from rasterising the path', 'the pushed mask does not derive from Rasterizer::rasterize')
    # the same combination written element-wise over zipped (sub)slices: new[k] = muldiv255(new[k], prev[k])
    def keyfn(c):
        r0, nm0 = field_path(c)
        if nm0[-1:] == ['buf'] and r0[0] in ('mem', 'phi') and 'MaskSuperBlitter' in (b.locals[r0[1]].get('ty') or ''):
            return 'new'
        if top_clip_field([x for x in subterms(c)], 'mask'):
            return 'prev'
        return None
    canon = elem_canon(ctx, b, an, keyfn, allow_take=True)     # the number of elements is the bound clause below
    zipped_combine = False
    for a0, v0, pt0, kind0 in an.stores:
        if kind0 != 'assign' or canon(strip_all(a0)) != ('elem', 'new'):
            continue
        cv = canon(v0)
        for x in subterms(cv):
            if is_call(x, 'sw_composite::muldiv255') and {('elem', 'new'), ('elem', 'prev')} <= set(y for a1 in x[2] for y in subterms(a1)):
                zipped_combine = True
    ctx.check(zipped_combine or (top_clip_field(D.visited, 'mask') and any(is_call(x, 'sw_composite::muldiv255') for x in D.visited)), R, key + '|mask combined', call_line(b, bi),
              'mask is multiplied with the previous top\'s mask', 'the pushed mask is not combined (muldiv255) with the mask of the clip underneath: nested path clips are not intersected')
    # the combining loop covers width*height entries
    W, H = Poly.leaf(('field', ('deref', ('param', 1)), 'width', 'raqote::draw_target::DrawTarget', None)), Poly.leaf(('field', ('deref', ('param', 1)), 'height', 'raqote::draw_target::DrawTarget', None))
    okl = False
    for x in D.visited:
        if x[0] == 'agg' and x[2] and x[2].endswith('ops::Range'):
            f2 = dict(x[4])
            if const_val(f2['start']) == 0 and poly(f2['end']) == W * H:
                okl = True
    if not okl and zipped_combine and canon.ranges.get('new') and canon.ranges.get('prev'):
        # both operands are sliced to [..width*height] (or [0..width*height]) before being zipped
        def full(rg):
            f3 = dict(rg[4])
            return 'end' in f3 and poly(f3['end']) == W * H and ('start' not in f3 or const_val(f3['start']) == 0)
        okl = all(full(rg) for k3 in ('new', 'prev') for rg in canon.ranges[k3])
    if not okl:
        # ... or the zipped walk is cut with .take(width*height)
        for bi2, d2, ct2 in calls_in(ctx, b):
            if d2 and d2.endswith('Iterator::take') and len(ct2[2]) == 2 and poly(ct2[2][1]) == W * H and any(is_call(y, 'Iterator::zip') for y in subterms(ct2[2][0])):
                okl = True
    ctx.check(okl, R, key + '|combine loop bound', b.loc(), 'combine loop runs over 0..width*height', 'the mask-combining loop does not run over 0..width*height')
    # R05.5 writer side: full-surface, origin 0 blitter
    news = [ct2 for bi2, d, ct2 in calls_in(ctx, b) if d == 'raqote::blitter::MaskSuperBlitter::new']
    ok = len(news) == 1 and const_val(news[0][2][0]) == 0 and const_val(news[0][2][1]) == 0 and is_self_field(news[0][2][2], 'width') and is_self_field(news[0][2][3], 'height')
    ctx.check(ok, 'R05.5', key + '|full-surface mask', b.loc(), 'clip mask = MaskSuperBlitter::new(0, 0, width, height)', 'the clip mask is not rasterised into a full-surface, origin-0 buffer of stride width (readers index it absolutely)')


def r05_3(ctx):
    """stack discipline: who mutates clip_stack / layer_stack"""
    R = 'R05.3'
    expect = {
        'clip_stack': {DT + 'push_clip_rect': ['push'], DT + 'push_clip': ['push'], DT + 'pop_clip': ['pop']},
        'layer_stack': {DT + 'push_layer_with_blend': ['push'], DT + 'pop_layer': ['pop'], DT + 'composite': ['last_mut']},
    }
    for fld, table in expect.items():
        found = {}
        for q, b in ctx.F.bodies.items():
            an = ctx.an(b)
            uses = []
            def in_field(t):
                r, nm = field_path(t)
                return r == ('param', 1) and nm[:1] == [fld] and any(x[0] == 'field' and x[2] == fld and x[3] == 'raqote::draw_target::DrawTarget' for x in subterms(t))
            for bi, k2, s in b.statements():
                if s['k'] == 'assign' and s['rv']['k'] in ('ref', 'rawptr') and s['rv']['mut']:
                    t = an.place_term(bi, k2, s['rv']['p'])
                    if in_field(t):
                        uses.append((bi, k2))
            for addr, val, pt, kind in an.stores:
                if kind == 'assign' and in_field(addr):
                    uses.append(pt)
            if not uses:
                continue
            ops = []
            for bi, d, ct in calls_in(ctx, b):
                if d and ct[2] and (b.blocks[bi]['t'].get('arg_tys') or [''])[0].startswith('&mut'):
                    a0 = strip_all(ct[2][0])
                    # the receiver is the stack itself, or its slice view (deref_mut is seen through)
                    if in_field(a0) and field_path(a0)[1] == [fld]:
                        name = d.split('::')[-1]
                        if name not in ('deref_mut',):
                            ops.append(name)
            found[q] = sorted(set(ops))
        for q, ops in sorted(found.items()):
            want = table.get(q)
            ctx.check(want is not None and ops == sorted(want), R, '%s|mutates %s' % (short(q), fld), ctx.F.body(q).loc(), '%s: %s' % (fld, ops),
                      '%s mutates %s (%s) but the stack discipline allows only %s' % (short(q), fld, ops or 'direct store / &mut', {short(a): o for a, o in table.items()}))
        ctx.floor(R, 'legitimate mutators of %s (positive control)' % fld, len(set(found) & set(table)), len(table))
        for q, want in table.items():
            if want in (['push'], ['pop']):
                b = ctx.F.body(q)
                if b is None:
                    continue
                sites = [p for p in pushes_on(ctx, b, fld) if p[1] == want[0]]
                n = len(sites)
                ctx.check(n == 1, R, '%s|one %s on %s' % (short(q), want[0], fld), b.loc(), 'exactly one %s' % want[0], '%s performs %d %s on %s, expected exactly one' % (short(q), n, want[0], fld))
                if n == 1:
                    # ... on every path to a normal return: an early-out that skips it unbalances every later pop/push pair
                    okp, pth = ctx.an(b).cfg.must_pass_through(0, set([sites[0][0]]))
                    ctx.check(okp, R, '%s|%s on every path' % (short(q), want[0]), b.loc(), 'every returning path performs the %s' % want[0],
                              '%s can return without its %s on %s (blocks %s): the matching %s then removes/adds an entry that belongs to an enclosing scope, so pushes and pops no longer pair up' % (short(q), want[0], fld, pth, 'pop' if want[0] == 'push' else 'push'))


def top_root(t):
    """the `x.mask` projection inside a top-clip-mask term (see top_clip_mask_term)"""
    t = strip_all(t)
    for _ in range(6):
        if t[0] in ('ref', 'deref'):
            t = strip_all(t[1])
        elif t[0] == 'call' and isinstance(t[1], str) and t[1].split('::')[-1] in ('as_ref', 'as_deref', 'as_mut', 'as_deref_mut') and len(t[2]) == 1:
            t = strip_all(t[2][0])
        else:
            break
    return t


def r05_4(ctx):
    """composite hands the clip stack to choose_blitter"""
    R = 'R05.4'
    b = ctx.body(DT + 'composite', R)
    cs = [(bi, ct) for bi, d, ct in calls_in(ctx, b) if d == DT + 'choose_blitter']
    ok = len(cs) == 1
    if ok:
        a = cs[0][1][2]
        def is_top_entry(t):
            t = strip_all(t)
            return is_call(t, '::last') and any(is_self_field(strip_all(x), 'clip_stack') for x in subterms(t))
        ok = (is_self_field(strip_all(a[1]), 'clip_stack') or is_top_entry(a[1]) or (top_clip_mask_term(a[1]) and is_self_field(strip_all(field_path(top_root(a[1]))[0][2][0]), 'clip_stack'))) and a[0] == ('param', P_MASK) and a[4] == ('param', P_BLEND) and is_self_field(a[7], 'width')
    ctx.check(ok, R, 'draw_target::DrawTarget::composite|choose_blitter args', b.loc(), 'choose_blitter(mask, &self.clip_stack, .., blend, .., self.width)',
              'composite does not pass (mask, &self.clip_stack, blend, self.width) to choose_blitter: the top clip mask / its stride would not be honoured')


def rect_size_sites(ctx):
    """allocation / buffer-size computations fed by the size of a rectangle that may be inverted:
    [(body, bb, call term, rect term)]"""
    out = []
    for q, b in ctx.F.bodies.items():
        if '::draw_text' in q or '::draw_glyphs' in q:
            continue
        an = ctx.an(b)
        for bi, d, ct in calls_in(ctx, b):
            if not d or not (d.endswith('vec::from_elem') or d.endswith('with_capacity') or d.endswith('MaskSuperBlitter::new') or d.endswith('MaskBlitter::new')):
                continue
            sizes = [x for a in ct[2] for x in subterms(a) if is_call(x, 'Box2D::<T, U>::size')]
            for sz in sizes:
                rect = strip_all(sz[2][0])
                D = Deps(an)
                D.closure(rect)
                risky = any(is_call(x, DT + 'clip_bounds', 'intersection_unchecked', 'Rasterizer::get_bounds') for x in D.visited)
                if risky:
                    out.append((b, bi, ct, rect, sz))
    return out


def r05_6(ctx):
    """a possibly inverted rectangle is never used as a size without an emptiness test or clamp"""
    R = 'R05.6'
    sites = rect_size_sites(ctx)
    seen = set()
    n = 0
    for b, bi, ct, rect, sz in sites:
        key = '%s|size of %s' % (short(b.q), fmt(b, rect)[:40])
        if (b.q, bi) in seen:
            continue
        seen.add((b.q, bi))
        n += 1
        gs = normalized_guards(ctx, b, bi)
        ok = False
        for op, a, b2, si in gs:
            if op == '!true' and is_call(a, 'is_empty') and strip_all(a[2][0]) == rect:
                ok = True
        # or: both extents tested > 0
        pos = set()
        for op, a, b2, si in gs:
            if op == 'Gt' and const_val(b2) == 0:
                a2 = strip_casts(a)
                if a2[0] == 'field' and a2[2] in ('width', 'height') and is_call(a2[1], 'size') and strip_all(a2[1][2][0]) == rect:
                    pos.add(a2[2])
        if pos == {'width', 'height'}:
            ok = True
        # or: every use of the size in this call is clamped with max(0)
        if not ok:
            uses = [x for a in ct[2] for x in subterms(a) if x[0] == 'field' and x[2] in ('width', 'height') and is_call(x[1], 'size') and strip_all(x[1][2][0]) == rect]
            clamped = [x for a in ct[2] for x in subterms(a) if is_call(x, '::max') and const_val(x[2][1]) == 0 and strip_casts(x[2][0]) in uses]
            if uses and len(set(strip_casts(c[2][0]) for c in clamped)) == len(set(uses)):
                # each distinct extent read appears under a max(0); make sure it does not also appear bare
                bare = False
                for a in ct[2]:
                    cnt_all = sum(1 for x in subterms(a) if x in uses)
                    cnt_clamped = sum(1 for x in subterms(a) if is_call(x, '::max') and const_val(x[2][1]) == 0 and strip_casts(x[2][0]) in uses)
                    if cnt_all > cnt_clamped:
                        bare = True
                ok = not bare
        ctx.check(ok, R, key, call_line(b, bi), 'size use guarded by emptiness test / clamp',
                  '%s sizes a buffer from %s.size(), a rectangle that can be inverted (clip_bounds()/intersection_unchecked give max < min for an empty intersection), without an is_empty()/`> 0` guard or max(0) clamp: a negative extent becomes a huge usize' % (short(b.q), fmt(b, rect)))
    ctx.floor(R, 'buffer sizes computed from clip/bounds rectangles', n, 3)


# ====================================================================== C06
def layer_empty_guard(ctx, b, bi):
    for op, a, b2, si in normalized_guards(ctx, b, bi):
        if op == 'true' and is_call(a, 'Vec::<T, A>::is_empty') and is_self_field(strip_all(a[2][0]), 'layer_stack'):
            return True
    for scr, adt, v, sb in variant_guards(ctx, b, bi):
        if v == 'None' and (is_call(scr, '::last_mut') or is_call(scr, '::last')):
            D = [x for x in subterms(scr) if x[0] == 'field' and x[2] == 'layer_stack']
            if D:
                return True
    return False


def r06_1(ctx):
    """every mutable access to the base surface is layer-aware"""
    R = 'R06.1'
    exempt = {
        DT + 'composite_surface': 'copy/blend_surface ignore layers by contract (C15)',
        DT + 'get_data_mut': 'raw accessor',
        DT + 'get_data_u8_mut': 'raw accessor',
    }
    n = 0
    for q, b in sorted(ctx.F.bodies.items()):
        an = ctx.an(b)
        for bi, k2, s in b.statements():
            if s['k'] != 'assign' or s['rv']['k'] not in ('ref', 'rawptr') or not s['rv']['mut']:
                continue
            t = an.place_term(bi, k2, s['rv']['p'])
            if not any(x[0] == 'field' and x[2] == 'buf' and x[3] == 'raqote::draw_target::DrawTarget' for x in subterms(t)):
                continue
            if an.cfg.reach and bi not in an.cfg.reach:
                continue
            n += 1
            key = '%s|&mut self.buf' % short(q)
            if q in exempt:
                ctx.ok(R, key, b.loc(s['sp']), exempt[q])
                continue
            ok = layer_empty_guard(ctx, b, bi)
            ctx.check(ok, R, key, b.loc(s['sp']), 'base surface written only when no layer is open',
                      '%s writes the base surface without testing layer_stack: while a layer is open the drawing must go to the innermost layer' % short(q))
    ctx.floor(R, 'sites taking &mut self.buf', n, 4)


def r06_2(ctx):
    """push_layer stores what it was given"""
    R = 'R06.2'
    b = ctx.body(DT + 'push_layer_with_blend', R)
    an = ctx.an(b)
    key = 'draw_target::DrawTarget::push_layer_with_blend'
    ps = [p for p in pushes_on(ctx, b, 'layer_stack') if p[1] == 'push']
    if not ctx.check(len(ps) == 1, R, key + '|one push', b.loc(), 'one push onto layer_stack', 'expected one push, found %d' % len(ps)):
        return
    lay = strip_all(ps[0][2][2][1])
    f = dict(lay[4]) if lay[0] == 'agg' else {}
    ctx.check(f.get('opacity') == ('param', 2), R, key + '|opacity', b.loc(), 'opacity stored', 'Layer.opacity is %s, not the opacity argument' % fmt(b, f.get('opacity', ('unknown', '?'))))
    ctx.check(f.get('blend') == ('param', 3), R, key + '|blend', b.loc(), 'blend stored', 'Layer.blend is %s, not the blend argument' % fmt(b, f.get('blend', ('unknown', '?'))))
    rect = f.get('rect')
    ctx.check(rect is not None and is_call(rect, DT + 'clip_bounds'), R, key + '|rect', b.loc(), 'rect = clip_bounds()', 'Layer.rect is not the current clip bounds')
    buf = f.get('buf')
    ok = buf is not None and is_call(buf, 'vec::from_elem') and const_val(buf[2][0]) == 0
    if ok:
        szs = [x for x in subterms(buf[2][1]) if is_call(x, 'Box2D::<T, U>::size')]
        ok = bool(szs) and all(strip_all(x[2][0]) == rect for x in szs)
        dims = set(x[2] for x in subterms(buf[2][1]) if x[0] == 'field' and x[2] in ('width', 'height'))
        ok = ok and dims == {'width', 'height'}
    ctx.check(ok, R, key + '|buf', b.loc(), 'buf = zero-filled, sized from rect', 'Layer.buf is not a zero-filled vector sized from width and height of the layer rect')
    b2 = ctx.body(DT + 'push_layer', R)
    cs = [ct for bi, d, ct in calls_in(ctx, b2) if d == DT + 'push_layer_with_blend']
    ok = len(cs) == 1 and cs[0][2][1] == ('param', 2) and cs[0][2][2][0] == 'agg' and cs[0][2][2][3] == 'SrcOver'
    ctx.check(ok, R, 'draw_target::DrawTarget::push_layer|delegates', b2.loc(), 'push_layer(o) = push_layer_with_blend(o, SrcOver)', 'push_layer does not delegate as push_layer_with_blend(opacity, SrcOver)')


def uniform_memo(ctx, b, an, mask_arg, cblock):
    """The coverage mask handed to composite is a *memoised* `vec![v; n]`: a Vec<u8> field F is taken out, re-filled with
    `clear(); resize(n, v)` unless it already has length n and carries v, lent to composite, and put back.  Returns
    (v, n) when the memo lemma holds, else None:
      * the only stores to F anywhere are `Vec::new()` in constructors, the take, and the put-back of the same vector;
        the vector is only mutated by that clear/resize pair and otherwise only read — so F is always empty or uniformly
        the value it was last filled with (the tag: its first element, or a tag field written with the fill);
      * every path from the take to composite passes the fill, or both equality edges `len == n` and `tag == v`:
        a uniform vector of length n whose tag is v is vec![v; n]."""
    cfg = an.cfg
    locs = set(x[1] for x in subterms(mask_arg) if x[0] == 'mem')
    locs = [l for l in locs if b.local_ty(l).startswith('std::vec::Vec<u8')]
    if len(locs) != 1:
        return None
    L = locs[0]
    ML = ('mem', L)
    def on_L(ct):
        return bool(ct[2]) and strip_all(ct[2][0]) in (ML, ('ref', ML), ('deref', ML))
    take = [(bi, ct) for bi, d, ct in calls_in(ctx, b) if d and (d.endswith('mem::take') or d.endswith('mem::replace')) and b.blocks[bi]['t'].get('dest', {}).get('l') == L and not b.blocks[bi]['t']['dest']['pr']]
    if len(take) != 1:
        return None
    tb, tct = take[0]
    fa = strip_all(tct[2][0])
    if not (fa[0] == 'field' and fa[3] == 'raqote::draw_target::DrawTarget' and strip_all(fa[1]) in (('param', 1), ('deref', ('param', 1)))):
        return None
    F = fa[2]
    clears, resizes = [], []
    for bi, d, ct in calls_in(ctx, b):
        if not d or not any(x == ML for a in ct[2] for x in subterms(a)):
            continue
        last = d.split('::')[-1]
        if last == 'clear' and on_L(ct):
            clears.append(bi)
        elif last == 'resize' and on_L(ct) and len(ct[2]) == 3:
            resizes.append((bi, ct))
        elif last in ('len', 'deref', 'first', 'is_empty', 'as_slice', 'index', 'get', 'eq', 'ne', 'composite', 'as_ref', 'borrow', 'last'):
            tys = b.blocks[bi]['t'].get('arg_tys') or []
            if any(t.startswith('&mut std::vec::Vec') for t in tys):
                return None
        else:
            return None
    if len(clears) != 1 or len(resizes) != 1:
        return None
    cb, (rb, rct) = clears[0], resizes[0]
    if not (cfg.dominates(cb, rb) and b.blocks[cb]['t'].get('t') == rb):
        return None
    n_t, v_t = rct[2][1], rct[2][2]
    def same_v(t):
        t = strip_all(t)
        while t[0] in ('ref', 'deref'):
            t = strip_all(t[1])
        return nosite(t) == nosite(strip_all(v_t))
    tests = {'len': [], 'tag': []}
    tag_field = None
    for si, t in b.terminators('switch'):
        if si not in cfg.reach or t.get('ty') != 'bool':
            continue
        c = strip_all(an.term_at(si, len(b.blocks[si]['st']), t['o']))
        false_t = [tt for v, tt in t['targets'] if v == '0']
        if not false_t:
            continue
        tt, ft = t['otherwise'], false_t[0]
        kind = eq_when_true = None
        if c[0] == 'bin' and c[1] in ('Ne', 'Eq'):
            x, y = strip_all(c[2]), strip_all(c[3])
            for p, q in ((x, y), (y, x)):
                if is_call(p, '::len') and on_L(p) and poly(q) == poly(n_t):
                    kind = 'len'
                pf = strip_casts(p, ('IntToInt',))
                if pf[0] == 'field' and pf[3] == 'raqote::draw_target::DrawTarget' and b_is_u8(ctx, pf[2]) and same_v(q):
                    kind = 'tag'
                    tag_field = pf[2]
            eq_when_true = c[1] == 'Eq'
        elif c[0] == 'call' and isinstance(c[1], str) and c[1].split('::')[-1] in ('ne', 'eq') and len(c[2]) == 2:
            x, y = strip_all(c[2][0]), strip_all(c[2][1])
            for p, q in ((x, y), (y, x)):
                while p[0] in ('ref', 'deref'):
                    p = strip_all(p[1])
                while q[0] in ('ref', 'deref'):
                    q = strip_all(q[1])
                if is_call(p, '::first') and any(z == ML for z in subterms(p)) and q[0] == 'agg' and q[3] == 'Some' and same_v(q[4][0][1]):
                    kind = 'tag'
            eq_when_true = c[1].split('::')[-1] == 'eq'
        if kind:
            tests[kind].append((si, tt if eq_when_true else ft, ft if eq_when_true else tt))
    if len(tests['len']) != 1 or len(tests['tag']) != 1:
        return None
    for si, eq_t, neq_t in tests['len'] + tests['tag']:
        if cfg.can_reach(neq_t, [cblock], removed=[rb]) or cfg.can_reach(tb, [cblock], removed=[rb, si]):
            return None
    # who else touches F (and the tag field)?
    tag_stores = set()
    for q2, b2 in ctx.F.bodies.items():
        for bi, k2, st in b2.statements():
            if st['k'] != 'assign':
                continue
            for fld in (F, tag_field):
                if fld is None:
                    continue
                hit = [e for e in (st['p'].get('pr') or []) if e.get('k') == 'field' and e.get('n') == fld and (e.get('adt') or '').endswith('draw_target::DrawTarget')]
                rv = st['rv']
                refd = rv.get('k') in ('ref', 'rawptr') and rv.get('mut') and any(e.get('k') == 'field' and e.get('n') == fld and (e.get('adt') or '').endswith('draw_target::DrawTarget') for e in (rv['p'].get('pr') or []))
                if not hit and not refd:
                    continue
                if q2 == b.q:
                    a2 = ctx.an(b)
                    if fld == F and hit and nosite(strip_all(a2.rvalue_term(bi, k2, rv))) == nosite(ML):
                        continue        # the put-back
                    if fld == F and refd and bi == tb:
                        continue        # the borrow handed to mem::take
                    if fld == tag_field and hit and cfg.dominates(rb, bi) and same_v(a2.rvalue_term(bi, k2, rv)):
                        tag_stores.add(bi)
                        continue        # the tag written with the fill
                return None
    if tag_field is not None:
        # every fill records its value in the tag before the vector is used
        if not tag_stores or cfg.can_reach(rb, [cblock], removed=list(tag_stores - {rb})) and not (rb in tag_stores):
            return None
    return v_t, n_t


def b_is_u8(ctx, field):
    a = ctx.F.adts.get('raqote::draw_target::DrawTarget')
    for f in (a or {}).get('variants', [{}])[0].get('fields', []):
        if f.get('name') == field:
            return f.get('ty') == 'u8'
    return False


def r06_3(ctx):
    """pop_layer composites the popped layer once"""
    R = 'R06.3'
    b = ctx.body(DT + 'pop_layer', R)
    an = ctx.an(b)
    key = 'draw_target::DrawTarget::pop_layer'
    pops = [p for p in pushes_on(ctx, b, 'layer_stack') if p[1] == 'pop']
    comps = [(bi, ct) for bi, d, ct in calls_in(ctx, b) if d == DT + 'composite']
    if not ctx.check(len(pops) == 1 and len(comps) == 1, R, key + '|one pop, one composite', b.loc(), 'one pop and one composite', 'pop_layer performs %d pops and %d composites, expected one each' % (len(pops), len(comps))):
        return
    pbi = pops[0][0]
    cbi, ct = comps[0]
    ctx.check(an.cfg.dominates(pbi, cbi) and pbi != cbi, R, key + '|pop before composite', call_line(b, cbi), 'the layer is popped before it is composited (destination = parent)', 'the layer is composited before it is popped: it would be drawn onto itself')
    layer = None
    for x in subterms(ct):
        if is_call(x, 'Option::<T>::unwrap') and is_call(x[2][0], 'Vec::<T, A>::pop'):
            layer = x
    if not ctx.check(layer is not None, R, key + '|layer value', b.loc(), 'popped layer reaches composite', 'the composite arguments do not use the popped layer'):
        return
    def lf(t, *names):
        t = strip_all(t)
        r, nm = field_path(t)
        return r == layer and nm == list(names)
    a = ct[2]
    src = shared.resolve_mem(an, a[1])
    ok_img = src[0] == 'agg' and src[3] == 'Image'
    if ok_img:
        f = dict(src[4])
        img = strip_all(f['0'])
        fi = dict(img[4]) if img[0] == 'agg' else {}
        def size_of_layer(t, dim):
            t = strip_all(t)
            return t[0] == 'field' and t[2] == dim and is_call(t[1], 'Box2D::<T, U>::size') and lf(t[1][2][0], 'rect')
        ctx.check(size_of_layer(fi.get('width', ('unknown',)), 'width') and size_of_layer(fi.get('height', ('unknown',)), 'height'), R, key + '|image size', call_line(b, cbi), 'image size = layer.rect.size()', 'the layer image is not sized (layer.rect.size().width, .height)')
        ctx.check(lf(fi.get('data', ('unknown',)), 'buf'), R, key + '|image data', call_line(b, cbi), 'image data = layer.buf', 'the layer image does not read layer.buf')
        ctx.check(f['1'][0] == 'agg' and f['1'][3] == 'Pad' and f['2'][0] == 'agg' and f['2'][3] == 'Nearest', R, key + '|image mode', call_line(b, cbi), 'Pad / Nearest', 'the layer image is not sampled Pad/Nearest')
        tr = strip_all(f['3'])
        okt = is_call(tr, 'Transform2D::<T, Src, Dst>::translation') and len(tr[2]) == 2
        if okt:
            def negmin(t, ax):
                t = strip_casts(t, ('IntToFloat', 'IntToInt', 'FloatToFloat'))
                return t[0] == 'un' and t[1] == 'Neg' and lf(t[2], 'rect', 'min', ax)
            okt = negmin(tr[2][0], 'x') and negmin(tr[2][1], 'y')
        ctx.check(okt, R, key + '|image transform', call_line(b, cbi), 'source transform = translation(-rect.min.x, -rect.min.y)', 'the layer image is placed with %s, expected translation(-layer.rect.min.x, -layer.rect.min.y)' % fmt(b, tr))
    else:
        ctx.fail(R, key + '|image source', call_line(b, cbi), 'the composite source is %s, expected Source::Image of the layer' % fmt(b, src))
    # mask = Some(opacity bytes), opacity from layer.opacity
    m = strip_all(a[2])
    okm = m[0] == 'agg' and m[3] == 'Some'
    if okm:
        mv = shared.resolve_mem(an, m[4][0][1])
        okm = is_call(mv, 'vec::from_elem')
        if not okm:
            memo = uniform_memo(ctx, b, an, m[4][0][1], cbi)
            if memo is not None:
                # a memoised vec![v; n]: judged as the vector it stands for
                mv = ('call', 'alloc::vec::from_elem', (memo[0], memo[1]), cbi)
                okm = True
                ctx.note('R06.3: the opacity mask is a memoised vec![v; n] held in a DrawTarget field (memo lemma verified)')
        if okm:
            byte = strip_casts(mv[2][0], ('IntToInt',))
            okm = byte[0] == 'cast' and byte[1] == 'FloatToInt' and any(lf(x, 'opacity') for x in subterms(byte))
            W, H = Poly.leaf(('field', ('deref', ('param', 1)), 'width', 'raqote::draw_target::DrawTarget', None)), Poly.leaf(('field', ('deref', ('param', 1)), 'height', 'raqote::draw_target::DrawTarget', None))
            mr = strip_all(a[3])
            okr = poly(mv[2][1]) == W * H and is_call(mr, 'geom::intrect') and const_val(mr[2][0]) == 0 and const_val(mr[2][1]) == 0 and is_self_field(mr[2][2], 'width') and is_self_field(mr[2][3], 'height')
            ctx.check(okr, R, key + '|mask rect matches mask', call_line(b, cbi), 'opacity mask is width*height bytes with mask_rect (0,0,width,height)', 'the opacity mask\'s size and the mask_rect passed to composite do not agree (width*height bytes, rect (0,0,width,height))')
    ctx.check(okm, R, key + '|opacity mask', call_line(b, cbi), 'mask = layer.opacity as byte', 'the coverage mask of the layer composite does not carry layer.opacity')
    ctx.check(lf(a[4], 'rect'), R, key + '|rect', call_line(b, cbi), 'rect = layer.rect', 'the layer is composited into %s, expected layer.rect' % fmt(b, a[4]))
    ctx.check(lf(a[5], 'blend'), R, key + '|blend', call_line(b, cbi), 'blend = layer.blend', 'the layer is composited with blend %s, expected layer.blend' % fmt(b, a[5]))
    ctx.check(const_val(a[6]) == 1.0, R, key + '|alpha', call_line(b, cbi), 'alpha = 1', 'the layer is composited with alpha %s, expected 1.0 (opacity is in the mask)' % fmt(b, a[6]))


def r06_4(ctx):
    """destination slice and bounds come from the same arm"""
    R = 'R06.4'
    b = ctx.body(DT + 'composite', R)
    an = ctx.an(b)
    key = 'draw_target::DrawTarget::composite'
    cs = [(bi, ct) for bi, d, ct in calls_in(ctx, b) if d == DT + 'choose_blitter']
    if not ctx.check(len(cs) == 1, R, key + '|choose_blitter', b.loc(), 'one choose_blitter call', 'expected one choose_blitter call'):
        return
    bi, ct = cs[0]
    dest, db = strip_all(ct[2][5]), strip_all(ct[2][6])
    # both are fields 0/1 of one phi of tuples
    def tuple_src(t):
        t = strip_all(t)
        while t[0] == 'deref':
            t = strip_all(t[1])
        if t[0] == 'field' and t[3] == '(tuple)':
            return t[1], t[2]
        return None, None
    s0, i0 = tuple_src(dest)
    s1, i1 = tuple_src(db)
    ok = s0 is not None and s0 == s1 and i0 == '0' and i1 == '1' and s0[0] == 'phi'
    if not ok:
        # the same selection made twice: `match layer_stack.last() {Some(l) => l.rect, None => surface}` for the bounds and
        # `match layer_stack.last_mut() {Some(l) => &mut l.buf[..], None => self.buf.as_mut()}` for the slice — each a join
        # of two values decided by whether the layer stack has a top, with nothing in between that changes the stack
        def selection(t):
            t = strip_all(t)
            while t[0] == 'deref':
                t = strip_all(t[1])
            if t[0] != 'phi' or len(t[2]) != 2:
                return None
            out = {}
            for i in t[2]:
                d = an.defs[i]
                if d.kind not in ('assign', 'call') or d.partial:
                    return None
                v = strip_all(an.def_term(d) if d.kind == 'assign' else an.call_term(d.bb))
                vg = [(scr, vv) for scr, adt, vv, sb in variant_guards(ctx, b, d.bb)
                      if is_call(strip_all(scr), '::last', '::last_mut') and any(is_self_field(strip_all(x), 'layer_stack') for x in subterms(strip_all(scr)[2][0]))]
                if len(set(vv for scr, vv in vg)) != 1:
                    return None
                out[vg[0][1]] = v
            return out if set(out) == {'Some', 'None'} else None
        sd, sb = selection(dest), selection(db)
        mut_between = [d for bi2, d, ct2 in calls_in(ctx, b) if d and any(is_self_field(strip_all(x), 'layer_stack') for a in ct2[2] for x in subterms(a)) and d.split('::')[-1] in ('push', 'pop', 'clear', 'truncate', 'insert', 'remove', 'swap_remove', 'drain', 'retain', 'append', 'extend', 'resize', 'split_off', 'replace', 'take', 'swap')]
        if sd is not None and sb is not None and not mut_between:
            l0 = any(x[0] == 'field' and x[2] == 'buf' and (x[3] or '').endswith('Layer') for x in subterms(sd['Some']))
            l1 = sb['Some'][0] == 'field' and sb['Some'][2] == 'rect' and (sb['Some'][3] or '').endswith('Layer')
            s0_ = any(x[0] == 'field' and x[2] == 'buf' and (x[3] or '').endswith('DrawTarget') for x in subterms(sd['None'])) and not any(x[0] == 'field' and x[2] == 'buf' and (x[3] or '').endswith('Layer') for x in subterms(sd['None']))
            d1 = sb['None']
            s1_ = is_call(d1, 'geom::intrect') and const_val(d1[2][0]) == 0 and const_val(d1[2][1]) == 0 and is_self_field(d1[2][2], 'width') and is_self_field(d1[2][3], 'height')
            okp = l0 and l1 and s0_ and s1_
            ctx.check(okp, R, key + '|dest,dest_bounds pair', call_line(b, bi), 'slice and bounds selected by the same test of the layer stack: layer buffer with layer rect, surface with (0,0,width,height)',
                      'dest and dest_bounds are selected separately and do not pair the layer buffer with the layer rect and the surface with (0,0,width,height)')
            if okp:
                ctx.floor(R, 'destination arms', 2, 2)
            return
    if not ctx.check(ok, R, key + '|dest,dest_bounds pair', call_line(b, bi), 'dest and dest_bounds are the two halves of one selection', 'dest and dest_bounds passed to choose_blitter are not the two components of one (slice, bounds) selection'):
        return
    arms = an.phi_terms(s0)
    n = 0
    for t in arms:
        if t[0] != 'agg' or t[1] != 'tuple':
            continue
        n += 1
        d0, d1 = strip_all(t[4][0][1]), strip_all(t[4][1][1])
        from_layer0 = any(x[0] == 'field' and x[2] == 'buf' and (x[3] or '').endswith('Layer') for x in subterms(d0))
        from_layer1 = d1[0] == 'field' and d1[2] == 'rect' and (d1[3] or '').endswith('Layer')
        from_self0 = any(x[0] == 'field' and x[2] == 'buf' and (x[3] or '').endswith('DrawTarget') for x in subterms(d0))
        from_self1 = is_call(d1, 'geom::intrect') and const_val(d1[2][0]) == 0 and const_val(d1[2][1]) == 0 and is_self_field(d1[2][2], 'width') and is_self_field(d1[2][3], 'height')
        ok = (from_layer0 and from_layer1 and not from_self0) or (from_self0 and from_self1 and not from_layer0)
        ctx.check(ok, R, key + '|arm %s' % ('layer' if from_layer0 else 'surface'), b.loc(), 'slice and bounds from the same destination',
                  'a destination arm pairs slice %s with bounds %s: the layer buffer must go with the layer rect and the surface with (0,0,width,height)' % (fmt(b, d0), fmt(b, d1)))
        if from_layer0:
            lm = [x for x in subterms(d0) if is_call(x, '::last_mut')]
            ctx.check(bool(lm) and all(is_self_field(strip_all(x[2][0]), 'layer_stack') for x in lm), R, key + '|innermost layer', b.loc(), 'layer = layer_stack.last_mut()', 'the layer drawn into is not layer_stack.last_mut() (the innermost open layer)')
    ctx.floor(R, 'destination arms', n, 2)


def r06_5(ctx):
    """transform saved and restored around the identity overwrite in pop_layer and clear"""
    R = 'R06.5'
    for name in ('pop_layer', 'clear'):
        b = ctx.body(DT + name, R)
        an = ctx.an(b)
        key = 'draw_target::DrawTarget::%s' % name
        st = [(a, v, pt) for a, v, pt, kind in an.stores if kind == 'assign' and field_path(a) == (('param', 1), ['transform'])]
        # `mem::replace(&mut self.transform, identity())` overwrites and hands back the old value in one step
        def is_swap_out(v):
            v = strip_all(v)
            return is_call(v, 'mem::replace') and len(v[2]) == 2 and is_self_field(strip_all(v[2][0]), 'transform') and is_call(strip_all(v[2][1]), 'identity')
        swaps = [(a, v, pt) for a, v, pt, kind in an.stores if kind == 'call' and is_self_field(strip_all(a), 'transform') and is_swap_out(v)]
        over = [(a, v, pt) for a, v, pt in st if is_call(v, 'identity')] + swaps
        rest = [(a, v, pt) for a, v, pt in st if v == ('field', ('deref', ('param', 1)), 'transform', 'raqote::draw_target::DrawTarget', None) or is_swap_out(v)]
        if not ctx.check(len(over) >= 1 and len(st) + len(swaps) == len(over) + len(rest), R, key + '|stores', b.loc(), '%d overwrite(s), %d restore(s)' % (len(over), len(rest)),
                         '%s stores to self.transform something that is neither the identity nor the saved transform' % name):
            continue
        for a, v, pt in over:
            # every path from the overwrite to return passes a restore whose saved value was loaded before the overwrite
            good = set()
            for a2, v2, pt2 in rest:
                if is_swap_out(v2):
                    # restores what this very replace handed back
                    if strip_all(v2)[3] == pt[0]:
                        good.add(pt2[0])
                    continue
                stmt = b.blocks[pt2[0]]['st'][pt2[1]]
                d0 = shared.origin_def(an, stmt['rv'], pt2[0], pt2[1])
                if d0 is not None and (an.cfg.dominates(d0.bb, pt[0]) and (d0.bb != pt[0] or d0.idx < pt[1])):
                    good.add(pt2[0])
            ok, path = an.cfg.must_pass_through(pt[0], good - {pt[0]}) if good else (False, None)
            ctx.check(ok, R, key + '|restore', b.loc(b.blocks[pt[0]]['st'][pt[1]]['sp']) if pt[1] < len(b.blocks[pt[0]]['st']) else call_line(b, pt[0]), 'transform restored on every path',
                      '%s overwrites self.transform with the identity and does not restore the value saved before on every path to return' % name)
    # device-space functions do not touch the stacks they should not
    b = ctx.body(DT + 'pop_layer', R)


# weight conventions of the interpolating combinators at FULL coverage (external facts, sw-composite 0.7.16 source):
#   lerp(a, b, t): t in 0..=256, lerp(a, b, 256) = b exactly; alpha_to_alpha256(255) = 256
#   alpha_lerp(a, b, m, c) = lerp(a, b, ((m+1)*c)>>8): at m = c = 255 the weight is 255, so the result is NOT exactly b
def r03_8(ctx):
    """full coverage yields exactly blend(source, previous): the interpolation weight reaches 256 at coverage 255"""
    R = 'R03.8'
    n = 0
    for q in ROW_PROCS[1:]:
        b = ctx.body(q, R)
        an = ctx.an(b)
        key = short(q)
        canon = row_elem_canon(ctx, b, an)
        for addr, val, pt, kind in an.stores:
            if kind != 'assign':
                continue
            n += 1
            why = fmt(b, strip_all(val))[:160]
            def cov_or_product(t):
                t = strip_casts(t, ('IntToInt',))
                if t[0] == 'elem' and t[1] not in (1, b.argc):
                    return True
                if is_call(t, 'sw_composite::muldiv255'):
                    return all(cov_or_product(a) for a in t[2])
                return False
            ok = True
            for alt, alt_gs in guarded_alternatives(ctx, b, an, val, pt):
                v = strip_all(canon(alt))
                okv = False
                if is_call(v, 'sw_composite::lerp') and len(v[2]) == 3:
                    w = strip_casts(v[2][2], ('IntToInt',))
                    # exact forms: alpha_to_alpha256(c) with c a coverage byte, or a product of coverages normalised by muldiv255
                    if is_call(w, 'sw_composite::alpha_to_alpha256'):
                        okv = cov_or_product(strip_casts(w[2][0], ('IntToInt',)))
                elif v[0] == 'call' and isinstance(v[1], str) and v[1].endswith('Blend::blend') and len(v[2]) == 2 \
                        and strip_all(v[2][0]) == ('elem', 1) and strip_all(v[2][1]) == ('elem', b.argc):
                    # the blend result itself, stored on the branch taken at full coverage only
                    okv = any(op == 'Eq' and const_val(b2) == 255 and cov_or_product(strip_all(canon(a))) for op, a, b2, si in alt_gs)
                ok = ok and okv
            ctx.check(ok, R, key + '|exact at full coverage', b.loc(), 'weight = alpha_to_alpha256(coverage): 256 at full coverage, lerp returns exactly blend(src, dst)',
                      'at full coverage (255, and a fully covering clip) the row proc does not return exactly T::blend(src, dst): it stores %s, whose interpolation weight only reaches 255/256 (alpha_lerp multiplies (mask+1)*clip >> 8 = 255; a raw coverage byte is 255): an opaque Src/any non-SrcOver draw through a fully covering path clip is off by one level' % why)
    ctx.floor(R, 'interpolating row proc stores', n, 2)


def r05_7(ctx):
    """every pushed clip rectangle lies inside the clip bounds in force: it is an intersection with the previous
    clip rectangle, or with the surface when the stack is empty (clip masks and layers are sized by it)"""
    R = 'R05.7'
    b = ctx.body(DT + 'push_clip_rect', R)
    an = ctx.an(b)
    key = 'draw_target::DrawTarget::push_clip_rect'
    ps = [p for p in pushes_on(ctx, b, 'clip_stack') if p[1] == 'push']
    if not ps:
        ctx.fail(R, key + '|push', b.loc(), 'no push onto clip_stack found (fail closed)')
        return
    clip = ps[0][2][2][1]
    alts = an.phi_terms(clip) if clip[0] in ('phi', 'rec') else [clip]
    # one aggregate assembled from a joined tuple counts once per alternative
    alts = [v for t0 in alts for _bb, v in shared.value_variants(an, strip_all(t0))]
    # ... and so does one whose rect field alone is a join (the tuple having been split into scalars)
    alts2 = []
    for t0 in alts:
        t0 = strip_all(t0)
        r0 = strip_all(dict(t0[4]).get('rect')) if t0[0] == 'agg' and isinstance(t0[4], tuple) and dict(t0[4]).get('rect') is not None else None
        if r0 is not None and r0[0] in ('phi', 'rec') and len(an.phi_terms(r0)) >= 2:
            for rv in an.phi_terms(r0):
                alts2.append(t0[:4] + (tuple((k, (rv if k == 'rect' else v)) for k, v in t0[4]),) + t0[5:])
        else:
            alts2.append(t0)
    alts = alts2
    n = 0
    for t in alts:
        t = strip_all(t)
        if t[0] != 'agg':
            ctx.fail(R, key + '|arm form', b.loc(), 'a pushed clip is not built as a Clip aggregate: %s' % fmt(b, t))
            continue
        n += 1
        rect = strip_all(dict(t[4])['rect'])
        ok = False
        what = fmt(b, rect)
        if is_call(rect, 'Box2D::<T, U>::intersection_unchecked', 'Box2D::<T, U>::intersection') and len(rect[2]) == 2:
            ops = [strip_all(x) for x in rect[2]]
            has_arg = any(x == ('param', 2) for x in ops)
            def bound(x):
                if is_call(x, DT + 'clip_bounds'):
                    return True
                if is_call(x, 'geom::intrect') and const_val(x[2][0]) == 0 and const_val(x[2][1]) == 0 and is_self_field(x[2][2], 'width') and is_self_field(x[2][3], 'height'):
                    return True
                if x[0] == 'field' and x[2] == 'rect' and (x[3] or '').endswith('draw_target::Clip') and is_call(field_path(x)[0], '::last'):
                    return True
                return False
            ok = has_arg and any(bound(x) for x in ops)
        ctx.check(ok, R, key + '|arm %d within the clip in force' % n, b.loc(), 'rect = argument ∩ (previous clip rect | surface)',
                  'push_clip_rect pushes %s on one of its arms: a first clip rectangle is taken as given, so it can extend beyond the surface; layers are then sized from it and drawing through a (surface-sized) clip mask indexes it with off-surface coordinates' % what)
    ctx.floor(R, 'clip aggregates pushed by push_clip_rect', n, 2)


def direct_deps(an, t):
    """terms a value is computed from, following phi/rec leaves through their definitions and locals whose address was
    taken through their direct assignments — but not through the flow-insensitive memory model (a call that receives
    `&mut self` is not treated as a store to everything reachable from self)"""
    seen = set()
    seen_defs = set()
    stack = [t]
    while stack:
        x = stack.pop()
        if not isinstance(x, tuple) or x in seen:
            continue
        seen.add(x)
        h = x[0] if x else None
        if h in ('phi', 'rec'):
            ids = x[2] if h == 'phi' else (x[1],)
            for i in ids:
                if i not in seen_defs:
                    seen_defs.add(i)
                    d = an.defs[i]
                    if d.kind in ('assign', 'call', 'local') and not d.partial:
                        stack.append(an.def_term(d) if d.kind != 'call' else an.call_term(d.bb))
            continue
        if h == 'mem':
            for d in an.defs_of.get(x[1], []):
                if d.kind in ('assign', 'local') and not d.partial and id(d) not in seen_defs:
                    seen_defs.add(id(d))
                    stack.append(an.def_term(d))
            continue
        for y in x:
            if isinstance(y, tuple):
                stack.append(y)
    return seen


def r03_9(ctx):
    """drawing entry points route on geometry only: no branch in a DrawTarget method that takes a Source / DrawOptions
    depends on the source, the global alpha or the blend mode.  ("nothing to do for a transparent source / alpha 0" is
    true for SrcOver only: Src, Clear, SrcIn, DstIn, SrcOut, DstAtop change pixels under a transparent source)"""
    R = 'R03.9'
    n = 0
    for q, b in sorted(ctx.F.bodies.items()):
        if not q.startswith(DT) or '::{closure' in q or b.vis != 'pub':
            continue
        src_params = [i for i in range(1, b.argc + 1) if b.local_ty(i).replace(' ', '').endswith('draw_target::Source<\'_>') or 'draw_target::Source' in b.local_ty(i)]
        opt_params = [i for i in range(1, b.argc + 1) if 'draw_target::DrawOptions' in b.local_ty(i)]
        if not src_params and not opt_params:
            continue
        an = ctx.an(b)
        n += 1
        bad = []
        for si, t in b.terminators('switch'):
            if si not in an.cfg.reach:
                continue
            c = an.term_at(si, len(b.blocks[si]['st']), t['o'])
            why = None
            for x in direct_deps(an, c):
                if len(x) == 2 and x[0] == 'param' and x[1] in src_params:
                    why = 'the source'
                if len(x) >= 4 and x[0] == 'field' and x[2] in ('alpha', 'blend_mode') and x[3] == 'raqote::draw_target::DrawOptions':
                    why = 'options.' + x[2]
            if why:
                bad.append((si, why))
        for si, why in bad:
            ctx.fail(R, '%s|branch on %s' % (short(q), why), b.loc(b.blocks[si]['t'].get('sp')),
                     '%s branches on %s before compositing: skipping or re-routing a draw because the source is transparent / alpha is 0 / the mode is X is only right for SrcOver-like modes — under Src, Clear, SrcIn, DstIn, SrcOut or DstAtop a transparent source still changes the destination, and the fast and general routes must not disagree' % (short(q), why))
        if not bad:
            ctx.ok(R, '%s|routes on geometry only' % short(q), b.loc(), 'no branch depends on the source, alpha or blend mode')
    ctx.floor(R, 'drawing entry points taking a Source/DrawOptions', n, 6)


def r03_10(ctx):
    """a pixel write is conditional on coverage only: no guard of a store `dst = f(src, dst, ..)` in a row procedure or a
    blitter depends on the source or destination pixel itself ("a transparent source pixel contributes nothing" holds
    for SrcOver, not for Src/Clear/SrcIn/DstIn/SrcOut/DstAtop, which erase under a transparent source)"""
    R = 'R03.10'
    n = 0
    PIX = ('sw_composite::blend::Blend::blend', 'sw_composite::over_in', 'sw_composite::over_in_in', 'sw_composite::over')
    for q, b in sorted(ctx.F.bodies.items()):
        an = None
        sites = [(bi, d, ct) for bi, d, ct in calls_in(ctx, b) if d in PIX]
        if not sites:
            continue
        an = ctx.an(b)
        for bi, d, ct in sites:
            pix = set(nosite(strip_all(a)) for a in ct[2][:2])
            # the store(s) whose value contains this call
            for addr, val, pt, kind in an.stores:
                vals = [val] + [a for a, g in guarded_alternatives(ctx, b, an, val)]
                if kind != 'assign' or not any(x[0] == 'call' and x[3] == ct[3] for vv in vals for x in subterms(vv) if len(x) == 4):
                    continue
                n += 1
                bad = []
                for op, a, b2, si in normalized_guards(ctx, b, pt[0]):
                    # SrcOver of an all-zero source pixel is the destination (sw-composite: over_in(0, d, m) = d,
                    # over_in_in(0, d, m, c) = d — the source contributes 0 and the destination is scaled by 256/256):
                    # skipping exactly `src == 0` (the whole word, not just its alpha) is the identity for these two
                    if d in ('sw_composite::over_in', 'sw_composite::over_in_in') and b2 is not None and \
                            ((op in ('Ne', '!Eq') and const_val(strip_all(b2)) == 0 and nosite(strip_all(a)) == nosite(strip_all(ct[2][0]))) or
                             (op in ('Ne', '!Eq') and const_val(strip_all(a)) == 0 and nosite(strip_all(b2)) == nosite(strip_all(ct[2][0])))):
                        continue
                    for side in (a, b2):
                        if side is None:
                            continue
                        deps = set(nosite(x) for x in direct_deps(an, side) if isinstance(x, tuple))
                        if deps & pix:
                            bad.append('%s %s' % (op, fmt(b, a)[:60]))
                ctx.check(not bad, R, '%s|write conditional on coverage only' % short(q), b.loc(b.blocks[pt[0]]['st'][pt[1]]['sp']) if pt[1] < len(b.blocks[pt[0]]['st']) else b.loc(),
                          'no guard of the pixel write reads the source or destination pixel',
                          '%s writes the pixel only under a test of the source/destination pixel itself (%s): skipping e.g. transparent source pixels is wrong for every blend mode in which a transparent source changes the destination (Src, Clear, SrcIn, DstIn, SrcOut, DstAtop)' % (short(q), sorted(set(bad))))
    ctx.floor(R, 'pixel writes through blend/over', n, 4)


def r05_8(ctx):
    """clip_bounds() is the rectangle of the *top* clip entry, or the whole surface when the stack is empty (every
    consumer — composite, push_clip, push_layer — relies on "top of stack = intersection of everything pushed")"""
    R = 'R05.8'
    b = ctx.body(DT + 'clip_bounds', R)
    an = ctx.an(b)
    key = 'draw_target::DrawTarget::clip_bounds'
    rts = shared.ret_terms(ctx, b)
    top = rect = False
    wrong = []
    surface = {'w': False, 'h': False, 'zero': 0}
    for t in rts:
        D = Deps(an)
        D.closure(t)
        for x in D.visited | D.touched:
            if not isinstance(x, tuple) or not x:
                continue
            if x[0] == 'call' and isinstance(x[1], str):
                nm = x[1].split('::')[-1]
                recv = strip_all(x[2][0]) if x[2] else None
                on_stack = recv is not None and any(is_self_field(strip_all(y), 'clip_stack') for y in subterms(x[2][0]))
                if nm == 'last' and on_stack:
                    top = True
                if on_stack and nm in ('first', 'get', 'iter', 'index', 'get_unchecked'):
                    wrong.append(nm)
            if len(x) == 5 and x[0] == 'field' and x[2] == 'rect' and x[3] == 'raqote::draw_target::Clip':
                rect = True
            if is_self_field(strip_all(x), 'width'):
                surface['w'] = True
            if is_self_field(strip_all(x), 'height'):
                surface['h'] = True
    # the closure of an Option::map call is a separate body: look into closures of clip_bounds as well
    for q2, cb in ctx.F.bodies.items():
        if q2.startswith(DT + 'clip_bounds::{closure'):
            for t2 in shared.ret_terms(ctx, cb):
                if any(len(x) == 5 and x[0] == 'field' and x[2] == 'rect' and x[3] == 'raqote::draw_target::Clip' for x in subterms(t2)):
                    rect = True
    ctx.check(top and rect and not wrong, R, key + '|top entry', b.loc(), 'clip_bounds = clip_stack.last().rect', 'clip_bounds does not read the rect of the top clip entry (clip_stack.last()%s): nested clips are not intersected' % (', uses %s' % sorted(set(wrong)) if wrong else ''))
    ctx.check(surface['w'] and surface['h'], R, key + '|empty stack', b.loc(), 'the whole surface when no clip is pushed', 'clip_bounds does not fall back to (0, 0, width, height) when the stack is empty')
    # ... and of nothing else: the rectangle is stored by push_clip / push_layer and outlives what is current when it is
    # computed (an open layer, the transform), so it may depend on the clip stack and the surface size only
    others = set()
    bodies2 = [b] + [cb for q2, cb in ctx.F.bodies.items() if q2.startswith(DT + 'clip_bounds::{closure')]
    for bb2 in bodies2:
        an2 = ctx.an(bb2)
        for d2 in an2.defs:
            if d2.kind in ('assign', 'call') and d2.bb in an2.cfg.reach:
                t2 = an2.def_term(d2)
                for x in subterms(t2):
                    if len(x) == 5 and x[0] == 'field' and x[3] == 'raqote::draw_target::DrawTarget' and x[2] not in ('clip_stack', 'width', 'height'):
                        others.add(x[2])
        for bi2, t3 in bb2.terminators('switch'):
            if bi2 in an2.cfg.reach:
                c3 = an2.term_at(bi2, len(bb2.blocks[bi2]['st']), t3['o'])
                for x in subterms(c3):
                    if len(x) == 5 and x[0] == 'field' and x[3] == 'raqote::draw_target::DrawTarget' and x[2] not in ('clip_stack', 'width', 'height'):
                        others.add(x[2])
    ctx.check(not others, R, key + '|clip stack only', b.loc(), 'clip_bounds depends on the clip stack and the surface size only',
              'clip_bounds also depends on self.%s: push_clip and push_layer store its result, so a rectangle narrowed by what happens to be current (an open layer) survives after that is gone and later drawing is clipped by it' % ', self.'.join(sorted(others)))


def r11_6(ctx):
    """set_transform stores its argument, get_transform returns the stored transform"""
    R = 'R11.6'
    b = ctx.body(DT + 'set_transform', R)
    an = ctx.an(b)
    st = [(a, v) for a, v, pt, kind in an.stores if kind == 'assign' and field_path(a) == (('param', 1), ['transform'])]
    ok = len(st) == 1 and strip_all(st[0][1]) in (('deref', ('param', 2)), ('param', 2)) and an.cfg.must_pass_through(0, set(pt[0] for a, v, pt, kind in an.stores if kind == 'assign' and field_path(a) == (('param', 1), ['transform'])))[0]
    ctx.check(ok, R, 'draw_target::DrawTarget::set_transform', b.loc(), 'self.transform = *transform', 'set_transform does not store exactly its argument in self.transform on every path')
    g = ctx.body(DT + 'get_transform', R)
    rts = [strip_all(t) for t in shared.ret_terms(ctx, g)]
    ok = len(rts) == 1 and is_self_field(rts[0][1] if rts[0][0] == 'ref' else rts[0], 'transform')
    ctx.check(ok, R, 'draw_target::DrawTarget::get_transform', g.loc(), 'returns &self.transform', 'get_transform does not return the stored transform')


def r03_11(ctx):
    """the global alpha byte reaches every per-pixel multiplier converted to the 0..=256 scale exactly once: for each
    shader that keeps an `alpha` field, the field (as its constructor computes it) composed with the argument that
    choose_shader passes contains exactly one alpha_to_alpha256, applied to the alpha byte itself; likewise the solid
    colour.  (Zero conversions scale by alpha/256, two by (alpha+2)/256: wrong at alpha = 255 and at alpha = 0.)"""
    from geomalg import tsubst
    R = 'R03.11'
    cs = ctx.body('raqote::blitter::choose_shader', R)
    can = ctx.an(cs)
    # the alpha byte: the u32 made from the f32 parameter (param 3)
    def is_byte(t):
        t = strip_casts(strip_all(t), ('IntToInt',))
        if t[0] == 'phi':
            return all(is_byte(x) for x in can.phi_terms(t))
        return t[0] == 'cast' and t[1] == 'FloatToInt' and any(x == ('param', 3) for x in subterms(t))
    def count_conv(t):
        return sum(1 for x in subterms(t) if is_call(x, 'alpha_to_alpha256'))
    n = 0
    for q, b in sorted(ctx.F.bodies.items()):
        if not (q.startswith('raqote::blitter::') and q.endswith('::new')):
            continue
        rts = shared.ret_terms(ctx, b)
        if len(rts) != 1 or rts[0][0] != 'agg':
            continue
        f = dict(rts[0][4])
        if 'alpha' not in f:
            continue
        fa = f['alpha']
        sites = [ct for bi, d, ct in calls_in(ctx, cs) if d == q]
        key = short(q)
        if not ctx.check(len(sites) >= 1, R, key + '|called', b.loc(), 'constructed by choose_shader', '%s is no longer constructed by choose_shader: cannot follow the alpha (fail closed)' % short(q)):
            continue
        for ct in sites:
            n += 1
            env = {i + 1: a for i, a in enumerate(ct[2])}
            comp = tsubst(fa, env)
            convs = [x for x in subterms(comp) if is_call(x, 'alpha_to_alpha256')]
            ok = len(convs) == 1 and is_byte(convs[0][2][0]) and strip_casts(strip_all(comp), ('IntToInt',)) == convs[0]
            ctx.check(ok, R, key + '|alpha converted once', call_line(cs, ct[3]) if isinstance(ct[3], int) and cs.blocks[ct[3]]['t'].get('k') == 'call' else cs.loc(),
                      'alpha field = alpha_to_alpha256(alpha byte)', 'the alpha that %s multiplies every pixel with is %s: the alpha byte must be converted with alpha_to_alpha256 exactly once on its way (%d conversions here): at alpha = 1.0 the image is no longer reproduced exactly / at alpha = 0 something is still drawn'
                      % (short(q).replace('::new', ''), fmt(cs, comp)[:120], len(convs)))
    ctx.floor(R, 'alpha-scaled image shader constructions', n, 4)
    # the solid colour
    sol = [ct for bi, d, ct in calls_in(ctx, cs) if d == 'sw_composite::alpha_mul']
    for ct in sol:
        w = ct[2][1]
        convs = [x for x in subterms(w) if is_call(x, 'alpha_to_alpha256')]
        ok = len(convs) == 1 and is_byte(convs[0][2][0]) and strip_casts(strip_all(w), ('IntToInt',)) == convs[0]
        ctx.check(ok, R, 'blitter::choose_shader|solid alpha converted once', call_line(cs, ct[3]), 'solid colour scaled by alpha_to_alpha256(alpha byte)',
                  'the solid colour is scaled by %s: the alpha byte must be converted with alpha_to_alpha256 exactly once' % fmt(cs, w)[:120])
    ctx.check(len(sol) >= 1, R, 'blitter::choose_shader|solid alpha', cs.loc(), 'solid colour is scaled by the global alpha', 'choose_shader no longer scales the solid colour by the global alpha with alpha_mul (fail closed)')
