"""C07 — no panic, abort or hang for any in-range input or call sequence (hazard audit, not a proof)."""
from util import *
from facts import callee_of
from terms import fmt, subterms, Deps
import shared
import dt
import sd
import hazard
import depcheck
import shifts
import ras
import engine
import props.c15 as c15

META = {
    'explanation': 'C07 is a universally quantified absence of run-time failure over floats turned into fixed point; no static argument in reach '
                   'proves it. The check is a hazard AUDIT: R07.1 every potentially panicking construct other than arithmetic overflow '
                   '(unwrap/expect, panic!/unreachable!/assert!, integer / and %, indexing, range slicing, copy_from_slice) in the bodies '
                   'reachable from the public DrawTarget/PathBuilder/Path/Source API must be in the audited table (classes: excluded by a '
                   'stated precondition; guarded — the guard is re-verified as an edge cut on every run; argument carried by another rule; '
                   'value-range, NOT decided) or be discharged by a pattern the rule verifies itself (constant index into a fixed array, '
                   'loop variable bounded by len(), length-tested constant index, non-zero constant or tested divisor, is_none-tested unwrap); '
                   'R07.2 every non-iterator loop updates the variable its exit test reads on every cycle; R07.3 the float-conditioned loops of '
                   'dash_path run only under an is_finite test of the period; R07.4 (=R05.6) no buffer is sized from an inverted rectangle; '
                   'R07.5 (=R04.4) width/period guards reject NaN; R07.6 (=R03.6) alpha conversions saturate; R07.7 (=R03.7) no extent is used '
                   'as a position.',
    'decides': ['R07.9 every shift by a variable amount stays inside [0, bits): interval of the amount from constants, comparisons on every path from its definition, callee contracts and all stores to the field it is read from', 'R07.1 hazard census against the audited table with guard re-verification', 'R07.2 loop progress', 'R07.3 float loops need a finite period',
                'R07.4 degenerate rectangles', 'R07.5 NaN polarity of guards', 'R07.6 alpha saturation', 'R07.7 extent used as position',
                'R07.8 (dependency sw-composite, read as MIR in the resolved version) no signed value is converted to unsigned and fed to checked arithmetic while the same function tests the same variables for < 0 (belief contradiction); the four non-separable blend modes are known findings D30'],
    'does_not_decide': ['arithmetic-overflow assertions (fixed-point stepping, *i += max, index products)', 'value-range entries of the table (listed in the evidence)',
                        'negative-to-usize casts not covered by a table guard', 'tmp buffer versus layers wider than the surface', 'running-time bounds', 'anything inside dependencies'],
    'assumptions': ['C07\'s own preconditions (pops match pushes, data matches size, positive radii, geometry within +-4000 px)'],
    'technique': 'static analysis: hazard census over MIR with an audited guard table (edge-cut dominance checks), loop-progress and NaN/finite-guard rules',
}


def r07_2(ctx):
    """loop progress: every cycle of a non-iterator loop updates what its exit test reads"""
    R = 'R07.2'
    c, roots, reach = hazard.census(ctx)
    n = 0
    for q in sorted(reach):
        b = ctx.F.bodies[q]
        an = ctx.an(b)
        cfg = an.cfg
        for h, bl in sorted(cfg.loops().items()):
            # exit switches of the loop
            exits = []
            can_return = set(x for x in cfg.reach if cfg.can_reach(x, cfg.returns))
            for x in bl:
                t = b.blocks[x]['t']
                if t['k'] == 'switch' and any(s not in bl and s in can_return for s in cfg.succ[x]):
                    exits.append(x)
            if not exits:
                # loop without exit test inside (e.g. `loop {}` with break under a flag): handled below via flags
                exits = [x for x in bl if any(s not in bl for s in cfg.succ[x])]
            kinds = []
            for x in exits:
                t = b.blocks[x]['t']
                if t['k'] != 'switch':
                    continue
                cond = an.term_at(x, len(b.blocks[x]['st']), t['o'])
                # iterator loops: the test is the discriminant of Iterator::next
                if cond[0] == 'discr' and is_call(strip_all(cond[1]), 'Iterator::next'):
                    kinds.append(('iter', x, cond))
                else:
                    kinds.append(('test', x, cond))
            if kinds and all(k[0] == 'iter' for k in kinds):
                continue
            n += 1
            key = '%s|loop@%s' % (short(q), loop_sig(b, an, h, bl))
            # progress variables: locals / memory paths read by the exit tests
            ok = False
            why = ''
            for kind, x, cond in kinds:
                if kind != 'test':
                    continue
                phis = [y for y in subterms(cond) if y[0] in ('phi', 'rec')]
                loads = [y for y in subterms(cond) if y[0] == 'field' and field_path(y)[0][0] in ('param', 'call', 'phi')]
                marked = set()
                for y in phis:
                    l = y[1] if y[0] == 'phi' else an.defs[y[1]].local
                    for d in an.defs_of.get(l, []):
                        if d.bb in bl:
                            marked.add(d.bb)
                for a, v, pt, kd in an.stores:
                    if pt[0] in bl and kd in ('assign', 'call'):
                        fa = field_path(a)[1]
                        if any(field_path(y)[1][-1:] == fa[-1:] and fa for y in loads):
                            marked.add(pt[0])
                # an inner `for` over a constant non-empty range runs at least once: if each of its cycles passes a
                # marked block, reaching its header implies progress
                for h2, bl2 in cfg.loops().items():
                    if h2 == h or not bl2 < bl or not (marked & bl2):
                        continue
                    if cfg.cycle_through(h2, bl2, marked):
                        continue
                    nonempty = False
                    for x2 in bl2:
                        t2 = b.blocks[x2]['t']
                        if t2['k'] == 'call' and callee_of(t2) and callee_of(t2)['def'].endswith('Iterator::next'):
                            D2 = Deps(an)
                            D2.closure(an.call_term(x2)[2][0])
                            for z in D2.visited:
                                if z[0] == 'agg' and z[2] and z[2].endswith('ops::Range'):
                                    f2 = dict(z[4])
                                    a0, a1 = const_val(f2['start']), const_val(f2['end'])
                                    if a0 is not None and a1 is not None and a0 < a1:
                                        nonempty = True
                    if nonempty:
                        marked = marked | {h2}
                if marked and not cfg.cycle_through(h, bl, marked):
                    ok = True
            ctx.check(ok, R, key, b.loc(b.blocks[h]['t']['sp']) if not b.blocks[h]['t']['sp']['f'].startswith('/') else b.loc(), 'every cycle updates a variable the exit test reads',
                      'a cycle of this loop in %s does not update anything its exit test reads: it cannot make progress towards termination' % short(q))
    ctx.floor(R, 'non-iterator loops', n, 12)


def loop_sig(b, an, h, bl):
    """line-free signature of a loop: names of user variables assigned in it"""
    names = set()
    for x in bl:
        for s in b.blocks[x]['st']:
            if s['k'] == 'assign':
                nm = b.locals[s['p']['l']].get('name')
                if nm:
                    names.add(nm)
    return ','.join(sorted(names))[:60] or 'bb'


def r07_3(ctx):
    """float-conditioned loops of dash_path only with a finite period"""
    R = 'R07.3'
    b = ctx.body(sd.DASH, R)
    an = ctx.an(b)
    cfg = an.cfg
    key = 'dash::dash_path'
    floops = []
    for h, bl in cfg.loops().items():
        t = b.blocks[h]['t']
        if t['k'] == 'switch' and t.get('ty') == 'bool':
            for st in b.blocks[h]['st']:
                if st['k'] == 'assign' and st['rv']['k'] == 'binop' and st['rv']['op'] in ('Gt', 'Lt', 'Ge', 'Le') and st['rv'].get('ty') in ('f32', 'f64'):
                    floops.append(h)
    ctx.floor(R, 'float-conditioned loops in dash_path', len(floops), 3)
    # the period: the phi compared `> 0`
    period = None
    for op, a, b2, si in [g for h in floops for g in normalized_guards(ctx, b, h)]:
        if op == 'Gt' and b2 is not None and const_val(b2) == 0 and a[0] in ('phi', 'rec'):
            period = a
    if not ctx.check(period is not None, R, key + '|period guard', b.loc(), 'period > 0 guard found', 'cannot find the `period > 0` guard above the dash loops (fail closed)'):
        return
    edges = hazard.bool_edges(ctx, b, lambda op, A, B: B is None and op == 'true' and is_call(A, 'is_finite') and nosite(strip_all(A[2][0])) == nosite(period))
    ok = bool(edges) and all(hazard.cut_by_edges(cfg, h, edges) for h in floops)
    ctx.check(ok, R, key + '|finite period', b.loc(), 'dash loops run only when the period is finite',
              'the float-conditioned loops of dash_path (`while dash_offset > remaining`, `while len > remaining`) are reached without an is_finite() test of the period: a dash array whose sum overflows to +inf passes `total > 0`, makes `dash_offset += total` infinite, and the offset loop never terminates')


def run(ctx):
    engine.run_rules(ctx, [hazard.r07_1, r07_2, r07_3, dt.r05_6, dt.r05_7, dt.r02_1, dt.r02_2, dt.r02_3, dt.r02_6, ras.r01_5, sd.r04_4, dt.r03_6, dt.r03_7, ras.r10_2, sd.r09_4, ras.r01_9, dt.r03_2, dt.r05_3, ras.r10_5, ras.r01_6, dt.r06_3, depcheck.r07_4, sd.r09_10, c15.r15_rows, c15.r15_5, shifts.r07_9])
