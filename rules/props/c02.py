"""C02 — drawing never changes pixels outside shape, clip and surface."""
import dt
import ras
import shared

META = {
    'explanation': 'Static rules over DrawTarget::composite, the five impl Blitter, the three row procs: R02.1 the span rectangle handed to '
                   'blit_span depends on the rect argument, clip_bounds(), the destination bounds (open layer rect or surface rect) and mask_rect; '
                   'R02.2 the blit loops are dominated by !rect.is_empty(); R02.3 the mask slice has length x2-x1 and starts at the affine form '
                   '(y-mask_rect.min.y)*width + x1 - mask_rect.min.x; R02.4 every destination write of every blitter is bounded by the span '
                   '(element loops over 0..x2-x1, row procs receive at least one slice of length x2-x1); R02.5 row procs write dst only '
                   'through dst.iter_mut() zipped with all other slices; R02.6 read/write indices agree with the affine forms, clip masks '
                   'are indexed absolutely; R02.7 a zero coverage byte leaves the old pixel (guard or zero-preserving weight); R02.8 only '
                   'the audited functions take a mutable view of a pixel buffer.',
    'decides': ['R02.1 span provenance', 'R02.2 empty-rect guard', 'R02.3 mask-slice contract', 'R02.4 span-bounded destination writes',
                'R02.5 zip-bounded row procs', 'R02.6 index agreement', 'R02.7 zero coverage is identity', 'R02.8 audited pixel writers'],
    'does_not_decide': ['that coverage is zero where the shape is not (rasteriser arithmetic, C01/C04/C08)', 'the values written inside the span', 'index arithmetic overflow'],
    'assumptions': ['sw-composite 0.7.16: lerp(a,b,0)=a; alpha_lerp(a,b,m,c)=a when m=0 or c=0; alpha_to_alpha256(0)=1 (read from its source)'],
    'trusted_base': ['sw-composite 0.7.16', 'euclid 0.22.14'],
}


def _r14_1(ctx):
    import props.c14 as c14
    c14.r14_1(ctx)


_r14_1.__name__ = 'r14_1'


def _r11_9(ctx):
    import props.c11 as c11
    c11.r11_9(ctx)


_r11_9.__name__ = 'r11_9'


def run(ctx):
    import engine
    engine.run_rules(ctx, [dt.r02_1, dt.r02_2, dt.r02_3, dt.r02_4, dt.r02_5, dt.r02_6, dt.r02_7, dt.r02_8, ras.r10_4, ras.r10_1, dt.r06_3, dt.r03_3, dt.r05_1, dt.r05_2, dt.r05_3, ras.r01_10, ras.r10_5, ras.r01_11, ras.r01_12, dt.r05_8, ras.r01_5, ras.r01_6, _r14_1, _r11_9, dt.r03_2])
