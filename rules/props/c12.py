"""C12 — gradient sources are positioned and coloured as constructed."""
from fractions import Fraction
from util import *
from terms import fmt, subterms, Deps
import shared
import dt
from props.c13 import then_of, storage_aggs, CS

META = {
    'explanation': 'Static rules: R12.1 all four gradient shader constructors compute transform_to_fixed(transform.pre_translate((0.5, 0.5))) '
                   '(pixel centres) and pass it with alpha to the matching Gradient::make_*source (two-circle: (c1.x,c1.y,r1,c2.x,c2.y,r2), '
                   'sweep: (start_angle, end_angle), in that order), store the spread, and each shade_span evaluates consecutive x at fixed y '
                   'with the stored spread and the evaluator of its kind; R12.2 transform_to_fixed maps xx<-m11, xy<-m21, yx<-m12, yy<-m22, '
                   'x0<-m31, y0<-m32; R12.3 the Source constructors use their arguments in the documented slots (two-circle and sweep forward '
                   'centres/radii/angles in order, radial = inverse(scale(r).then(translate(center))), linear depends on both end points and '
                   'the length with a separate zero-length arm, sweep translates by -center); choose_shader forwards every gradient payload '
                   'to its shader constructor slot by slot with the matrix ti.then(source transform) and the global alpha (R03.5).',
    'decides': ['R12.1 half-pixel offset and make_*source argument order', 'R12.2 matrix field mapping', 'R12.3 constructor and dispatch plumbing', 'R03.5 alpha reaches the gradient table', 'R11.2 matrix = inverse CTM then source transform', 'R12.6 (dependency sw-composite) the sweep gradient parameter is 0 at the start angle and 1 at the end angle: rational identities over make_sweep_source and SweepGradientSource::eval (known finding D28: t(start) != 0)'],
    'does_not_decide': ['the value of t for linear/radial/two-circle gradients, LUT interpolation, spread arithmetic, tolerances (inside sw-composite; only the sweep parametrisation is read, R12.6)', 'numeric correctness of the linear-gradient rotation matrix'],
    'assumptions': ['sw_composite Gradient::make_source / make_two_circle_source / make_sweep_source and the *_eval functions implement the documented gradients (external)',
                    'MatrixFixedPoint{xx,xy,yx,yy,x0,y0}.transform(x,y) = (xx*x + xy*y + x0, yx*x + yy*y + y0), matching euclid row-vector convention m11,m21,m31 / m12,m22,m32 (read from sw-composite 0.7.16 source)'],
    'trusted_base': ['sw-composite 0.7.16', 'euclid 0.22.14'],
}

BL = 'raqote::blitter::'
SRC = 'raqote::draw_target::Source'


def half_pixel_matrix(t, transform_param):
    """t == &transform_to_fixed(&transform.pre_translate(vec2(0.5, 0.5)))"""
    t = strip_all(t)
    if not is_call(t, 'blitter::transform_to_fixed'):
        return False
    m = strip_all(t[2][0])
    if not is_call(m, 'pre_translate'):
        return False
    v = strip_all(m[2][1])
    return (strip_all(m[2][0]) in (('param', transform_param), ('deref', ('param', transform_param)))
            and is_call(v, 'euclid::vec2', 'Vector2D::<T, U>::new') and const_val(v[2][0]) == 0.5 and const_val(v[2][1]) == 0.5)


GRAD_TABLE = {
    # Source variant: (shader type, payload index of the source transform, payload indices handed on before spread, payload index of spread, make fn)
    'RadialGradient': ('RadialGradientShader', 2, [], 1, 'make_source'),
    'LinearGradient': ('LinearGradientShader', 2, [], 1, 'make_source'),
    'TwoCircleRadialGradient': ('TwoCircleRadialGradientShader', 6, [2, 3, 4, 5], 1, 'make_two_circle_source'),
    'SweepGradient': ('SweepGradientShader', 4, [2, 3], 1, 'make_sweep_source'),
}


def gradient_composed(ctx):
    """{Source variant: bool}: the gradient shader as choose_shader ends up building it -- the constructor's result with
    the call-site arguments substituted -- is
        {gradient: payload.gradient.make_*source(<payload args in order>, &transform_to_fixed(&ti.then(&payload transform)
                   .pre_translate(vec2(0.5, 0.5))), alpha), spread: payload spread}
    wherever the pieces of that expression are computed (in the constructor, at the call site, or split between them)."""
    from geomalg import tsubst
    cache = ctx.__dict__.setdefault('_grad_composed', None)
    if cache is not None:
        return cache
    out = {}
    b = ctx.F.body(CS)
    if b is None:
        ctx.__dict__['_grad_composed'] = out
        return out
    for bi, s0, t in storage_aggs(ctx, b):
        v = t[3]
        if v not in GRAD_TABLE:
            continue
        ty, tidx, mids, sidx, mk = GRAD_TABLE[v]
        p = strip_all(t[4][0][1])
        okc = False
        cb = ctx.F.body(BL + ty + '::new')
        if p[0] == 'call' and p[1] == BL + ty + '::new' and cb is not None:
            rts = shared.ret_terms(ctx, cb)
            if len(rts) == 1 and rts[0][0] == 'agg':
                comp = tsubst(rts[0], {i + 1: a for i, a in enumerate(p[2])})
                f = dict(comp[4])

                def pay(t2, k, *more):
                    t2 = strip_all(t2)
                    names = []
                    while t2[0] in ('deref', 'ref') or (t2[0] == 'field' and t2[3] in ('euclid::Point2D', 'euclid::Vector2D')):
                        if t2[0] == 'field':
                            names.append(t2[2])
                        t2 = strip_all(t2[1])
                    return t2[0] == 'field' and t2[2] == str(k) and t2[4] == v and (t2[3] or '').endswith('draw_target::Source') and tuple(names) == tuple(more)
                g = strip_all(f.get('gradient', ('unknown',)))
                okc = is_call(g, 'Gradient::' + mk) and pay(g[2][0], 0)
                if okc:
                    a = g[2]
                    if mk == 'make_two_circle_source':
                        okc = len(a) == 9 and pay(a[1], 2, 'x') and pay(a[2], 2, 'y') and pay(a[3], 3) and pay(a[4], 4, 'x') and pay(a[5], 4, 'y') and pay(a[6], 5)
                        rest = a[7:]
                    elif mk == 'make_sweep_source':
                        okc = len(a) == 5 and pay(a[1], 2) and pay(a[2], 3)
                        rest = a[3:]
                    else:
                        okc = len(a) == 3
                        rest = a[1:]
                if okc:
                    mt = strip_all(rest[0])
                    okc = is_call(mt, 'blitter::transform_to_fixed')
                    if okc:
                        m = strip_all(mt[2][0])
                        okc = is_call(m, 'pre_translate')
                        if okc:
                            vv = strip_all(m[2][1])
                            okc = then_of(m[2][0], v, tidx) and is_call(vv, 'euclid::vec2', 'Vector2D::<T, U>::new') and const_val(vv[2][0]) == 0.5 and const_val(vv[2][1]) == 0.5
                    # the alpha argument: the alpha byte of choose_shader (that it is the global alpha is R03.5)
                    okc = okc and any(x == ('param', 3) for x in subterms(rest[1]))
                okc = okc and pay(f.get('spread', ('unknown',)), sidx)
        out[v] = okc
    ctx.__dict__['_grad_composed'] = out
    return out


def r12_1(ctx):
    R = 'R12.1'
    P = lambda i: ('param', i)
    def fld(p, c):
        return ('field', P(p), c, 'euclid::Point2D', None)
    spec = {
        # type: (make fn, expected leading args builder, index of transform param, spread param, alpha param, eval fn)
        'RadialGradientShader': ('make_source', [], 2, 3, 4, 'radial_gradient_eval'),
        'LinearGradientShader': ('make_source', [], 2, 3, 4, 'linear_gradient_eval'),
        'TwoCircleRadialGradientShader': ('make_two_circle_source', [fld(3, 'x'), fld(3, 'y'), P(4), fld(5, 'x'), fld(5, 'y'), P(6)], 2, 7, 8, 'TwoCircleRadialGradientSource::eval'),
        'SweepGradientShader': ('make_sweep_source', [P(3), P(4)], 2, 5, 6, 'SweepGradientSource::eval'),
    }
    n = 0
    for ty, (mk, lead, tp, sp, ap, ev) in spec.items():
        b = ctx.body(BL + ty + '::new', R)
        key = 'blitter::%s' % ty
        rts = shared.ret_terms(ctx, b)
        ok = len(rts) == 1 and rts[0][0] == 'agg'
        detail = ''
        if ok:
            f = dict(rts[0][4])
            g = strip_all(f['gradient'])
            ok = is_call(g, 'Gradient::' + mk)
            if ok:
                a = g[2]
                ok = strip_all(a[0]) in (P(1), ('deref', P(1)))
                lead_got = [strip_all(x) for x in a[1:1 + len(lead)]]
                ok = ok and lead_got == lead
                ok = ok and half_pixel_matrix(a[1 + len(lead)], tp) and a[2 + len(lead)] == P(ap)
            ok = ok and f.get('spread') == P(sp)
        if not ok:
            # the half-pixel conjugation / matrix product may have moved between constructor and call site: what counts is
            # the shader that choose_shader ends up with
            variant = [vv for vv, row in GRAD_TABLE.items() if row[0] == ty]
            ok = bool(variant) and gradient_composed(ctx).get(variant[0]) is True
        ctx.check(ok, R, key + '::new', b.loc(), '%s(%stransform_to_fixed(transform.pre_translate(.5,.5)), alpha), spread stored' % (mk, '…, ' if lead else ''),
                  '%s::new does not build gradient.%s(%s&transform_to_fixed(&transform.pre_translate(vec2(0.5, 0.5))), alpha) with the arguments in order and store the spread: %s' % (ty, mk, 'c1.x, c1.y, r1, c2.x, c2.y, r2, ' if 'two' in mk else ('start_angle, end_angle, ' if 'sweep' in mk else ''), [fmt(b, t) for t in rts]))
        sb = ctx.body('<%s%s as raqote::blitter::Shader>::shade_span' % (BL, ty), R)
        san = ctx.an(sb)
        st = [(a2, v, pt) for a2, v, pt, kind in san.stores if kind == 'assign' and a2[0] == 'index' and strip_all(a2[1]) in (P(4), ('deref', P(4)))]
        # the same walk written with an iterator: for pixel in dest[..count].iter_mut() { *pixel = ..; x += 1 }
        it_form = False
        n_index = len(st)
        if True:
            for a2, v, pt, kind in san.stores:
                if kind != 'assign' or a2[0] != 'deref':
                    continue
                root = a2[1]
                if not (root[0] == 'field' and root[4] == 'Some' and is_call(root[1], 'Iterator::next')):
                    continue
                D = Deps(san)
                D.closure(root[1][2][0])
                matched = len(st)
                for x in D.visited:
                    if is_call(x, 'iter_mut', 'IntoIterator::into_iter') and len(x[2]) == 1:
                        sl = strip_all(x[2][0])
                        while sl[0] in ('deref', 'ref'):
                            sl = strip_all(sl[1])
                        if is_call(sl, 'IndexMut::index_mut') and strip_all(sl[2][0]) in (P(4), ('deref', P(4)), ('ref', ('deref', P(4)))) and sl[2][1][0] == 'agg':
                            f2 = dict(sl[2][1][4])
                            if strip_all(f2.get('end', ('unknown',))) == P(5) and ('start' not in f2 or const_val(f2['start']) == 0):
                                st.append((a2, v, pt))
                                it_form = n_index == 0
                if len(st) == matched and any(x in (P(4), ('deref', P(4))) for x in D.visited):
                    # some other walk over dest: counts as a store into it (and is not the audited form)
                    st.append((a2, ('unknown',), pt))
        ok = len(st) == 1
        if ok:
            a2, v, pt = st[0]
            v = strip_all(v)
            ok = is_call(v, ev) and len(v[2]) == 4
            if ok:
                g = strip_all(v[2][0])
                while g[0] == 'deref':
                    g = strip_all(g[1])
                ok = is_self_field(g, 'gradient')
                xa = strip_casts(v[2][1], ('IntToInt',))
                ya = strip_casts(v[2][2], ('IntToInt',))
                ok = ok and ya == P(3) and xa[0] == 'phi' and is_self_field(strip_all(v[2][3]), 'spread')
                if ok:
                    incs = [san.def_term(san.defs[i]) for i in xa[2]]
                    ok = any(t == P(2) for t in incs) and any(t[0] == 'bin' and t[1] == 'Add' and const_val(t[3]) == 1 for t in incs)
                if not it_form:
                    lv = dt.loop_vars(san, sb, Poly.leaf(P(5)))
                    ok = ok and nosite(a2[2]) in lv
        ctx.check(ok, R, key + '::shade_span', sb.loc(), 'dest[i] = gradient.%s(x+i, y, spread)' % ev.split('::')[-1],
                  '%s::shade_span does not store %s(self.gradient, x, y, self.spread) for consecutive x at row y into dest[0..count]' % (ty, ev))
        n += 1
    ctx.floor(R, 'gradient shaders', n, 4)


def r12_2(ctx):
    R = 'R12.2'
    b = ctx.body(BL + 'transform_to_fixed', R)
    rts = shared.ret_terms(ctx, b)
    want = {'xx': 'm11', 'xy': 'm21', 'yx': 'm12', 'yy': 'm22', 'x0': 'm31', 'y0': 'm32'}
    ok = len(rts) == 1 and rts[0][0] == 'agg' and (rts[0][2] or '').endswith('MatrixFixedPoint')
    got = {}
    if ok:
        for fn, ft in rts[0][4]:
            ft = strip_all(ft)
            if is_call(ft, 'float_to_fixed'):
                r, nm = field_path(strip_all(ft[2][0]))
                if r == ('param', 1) and len(nm) == 1:
                    got[fn] = nm[0]
    ctx.check(ok and got == want, R, 'blitter::transform_to_fixed|mapping', b.loc(), 'xx<-m11 xy<-m21 yx<-m12 yy<-m22 x0<-m31 y0<-m32',
              'transform_to_fixed maps %s, expected %s (the only mapping under which the fixed-point matrix applies the same affine map as euclid\'s transform_point)' % (got, want))


def r12_3(ctx):
    R = 'R12.3'
    P = lambda i: ('param', i)
    S = 'raqote::draw_target::Source::'
    # new_two_circle_radial_gradient(gradient, center1, radius1, center2, radius2, spread)
    b = ctx.body(S + 'new_two_circle_radial_gradient', R)
    rts = shared.ret_terms(ctx, b)
    ok = len(rts) == 1 and rts[0][0] == 'agg' and rts[0][3] == 'TwoCircleRadialGradient'
    if ok:
        f = [x for _, x in rts[0][4]]
        ok = f[0] == P(1) and f[1] == P(6) and f[2] == P(2) and f[3] == P(3) and f[4] == P(4) and f[5] == P(5) and is_call(f[6], 'identity')
    ctx.check(ok, R, 'draw_target::Source::new_two_circle_radial_gradient', b.loc(), '(gradient, spread, c1, r1, c2, r2, identity)', 'new_two_circle_radial_gradient does not forward (center1, radius1, center2, radius2) in order: %s' % [fmt(b, t) for t in rts])
    # new_sweep_gradient(gradient, center, start_angle, end_angle, spread)
    b = ctx.body(S + 'new_sweep_gradient', R)
    rts = shared.ret_terms(ctx, b)
    ok = len(rts) == 1 and rts[0][0] == 'agg' and rts[0][3] == 'SweepGradient'
    if ok:
        f = [x for _, x in rts[0][4]]
        tr = strip_all(f[4])
        def negc(t, c):
            return t[0] == 'un' and t[1] == 'Neg' and t[2] == ('field', P(2), c, 'euclid::Point2D', None)
        ok = f[0] == P(1) and f[1] == P(5) and f[2] == P(3) and f[3] == P(4) and is_call(tr, 'translation') and negc(tr[2][0], 'x') and negc(tr[2][1], 'y')
    ctx.check(ok, R, 'draw_target::Source::new_sweep_gradient', b.loc(), '(gradient, spread, start, end, translation(-center))', 'new_sweep_gradient does not forward (start_angle, end_angle) in order with translation(-center.x, -center.y): %s' % [fmt(b, t) for t in rts])
    # new_radial_gradient(gradient, center, radius, spread)
    b = ctx.body(S + 'new_radial_gradient', R)
    rts = shared.ret_terms(ctx, b)
    ok = len(rts) == 1 and rts[0][0] == 'agg' and rts[0][3] == 'RadialGradient'
    if ok:
        f = [x for _, x in rts[0][4]]
        import geomalg
        va = geomalg.VA(ctx)
        cx, cy = Poly.leaf(('field', P(2), 'x', 'P', None)), Poly.leaf(('field', P(2), 'y', 'P', None))
        r = Poly.leaf(P(3))
        zero = Poly()
        forward = geomalg.Aff(r, zero, zero, r, cx, cy)      # unit circle at the origin -> circle(center, radius)
        ok = f[0] == P(1) and f[1] == P(4) and geomalg.is_inverse_of(va, f[2], forward)
    ctx.check(ok, R, 'draw_target::Source::new_radial_gradient', b.loc(), 'transform = inverse of p -> p*radius + center', 'new_radial_gradient\'s transform is not the inverse of scale(radius, radius).then(translation(center)) (neither written as .inverse() of that map nor as a map M with forward.then(M) == identity, e.g. translation(-center).then_scale(1/radius, 1/radius)): %s' % [fmt(b, t) for t in rts])
    # new_linear_gradient(gradient, start, end, spread)
    b = ctx.body(S + 'new_linear_gradient', R)
    an = ctx.an(b)
    rts = shared.ret_terms(ctx, b)
    aggs = [t for t in rts if t[0] == 'agg' and t[3] == 'LinearGradient']
    okn = len(aggs) == 2 and all(t[4][0][1] == P(1) and t[4][1][1] == P(4) for t in aggs)
    ctx.check(okn, R, 'draw_target::Source::new_linear_gradient|arms', b.loc(), 'two arms (regular, zero length), gradient and spread forwarded', 'new_linear_gradient does not return LinearGradient(gradient, spread, _) on both its regular and its zero-length arm')
    full = 0
    for t in aggs:
        D = Deps(an)
        D.closure(t[4][2][1])
        coords = set()
        for x in D.visited:
            if x[0] == 'field' and x[1] in (P(2), P(3)) and x[2] in ('x', 'y'):
                coords.add((x[1][1], x[2]))
        has_len = any(is_call(x, '::length') for x in D.visited)
        if coords == {(2, 'x'), (2, 'y'), (3, 'x'), (3, 'y')} and has_len:
            full += 1
    ctx.check(full >= 1, R, 'draw_target::Source::new_linear_gradient|matrix', b.loc(), 'matrix depends on start.x, start.y, end.x, end.y and the length', 'no arm of new_linear_gradient builds a matrix that depends on both coordinates of start and end and on the length')
    # what the regular matrix does, as polynomial identities over the coordinates (normalize(v) = v / |v|, 1/|v| kept as
    # one symbol): M(start) = (0, 0) — t is 0 at the start point —, M(end) lies on the t axis (its second coordinate is 0
    # — a rotation by the angle of the gradient vector with the wrong sign sends it elsewhere), and its first coordinate is
    # (dx^2 + dy^2) / |v|^2, which is 1 by the definition of the length
    import geomalg
    va = geomalg.VA(ctx)
    sx, sy = Poly.leaf(('field', P(2), 'x', 'P', None)), Poly.leaf(('field', P(2), 'y', 'P', None))
    ex, ey = Poly.leaf(('field', P(3), 'x', 'P', None)), Poly.leaf(('field', P(3), 'y', 'P', None))
    for t in aggs:
        D = Deps(an)
        D.closure(t[4][2][1])
        if not any(is_call(x, '::length') for x in D.visited):
            continue
        mt = t[4][2][1]
        if strip_all(mt)[0] in ('mem', 'phi'):
            mt = shared.resolve_mem(an, strip_all(mt)) if strip_all(mt)[0] == 'mem' else mt
        M = geomalg.eval_affine(va, mt)
        if M is None or M.inverse_of is not None:
            ctx.fail(R, 'draw_target::Source::new_linear_gradient|matrix maps start to 0 and end to 1', b.loc(), 'the gradient matrix of new_linear_gradient is not built from Transform::new / translation / scale / then / pre_* of polynomial entries (%s): cannot show that t is 0 at `start` and 1 at `end` (fail closed)' % fmt(b, strip_all(mt))[:160])
            continue
        m11, m12, m21, m22, m31, m32 = M.m
        def at(px, py):
            return (geomalg.cancel_inv(px * m11 + py * m21 + m31), geomalg.cancel_inv(px * m12 + py * m22 + m32))
        s0, e0 = at(sx, sy), at(ex, ey)
        zero = Poly()
        dx, dy = ex - sx, ey - sy
        ils = [l for l in e0[0].leaves() if isinstance(l, tuple) and l and l[0] == 'inv']
        ok1 = s0[0] == zero and s0[1] == zero
        ok2 = e0[1] == zero
        ok3 = False
        if len(set(ils)) == 1:
            il = Poly.leaf(ils[0])
            ok3 = e0[0] == (dx * dx + dy * dy) * il * il and any(is_call(x, '::length') for x in subterms(ils[0][1]))
        ctx.check(ok1 and ok2 and ok3, R, 'draw_target::Source::new_linear_gradient|matrix maps start to 0 and end to 1', b.loc(), 'M(start) = (0,0), M(end) = ((dx^2+dy^2)/|v|^2, 0)',
                  'the gradient matrix of new_linear_gradient does not send `start` to t = 0 and `end` to t = 1 on the t axis: M(start) = (%s, %s), M(end) = (%s, %s) — the gradient runs along a different line (e.g. the mirrored vector (dx, -dy) when the rotation has the wrong sign)' % (s0[0].show(b)[:60], s0[1].show(b)[:60], e0[0].show(b)[:80], e0[1].show(b)[:80]))
    # the degenerate matrix is used for a zero-length gradient only: the regular arm is guarded by `length != 0` and by
    # nothing else (a threshold such as `length >= 1` is in user units and swallows short gradients that a scaling
    # transform makes many pixels long)
    okg = False
    seen = []
    for bi, k2, st_ in b.statements():
        if st_['k'] == 'assign' and st_['rv']['k'] == 'agg' and st_['rv'].get('v') == 'LinearGradient' and bi in an.cfg.reach:
            t = an.rvalue_term(bi, k2, st_['rv'])
            D = Deps(an)
            D.closure(t[4][2][1])
            if not any(is_call(x, '::length') for x in D.visited):
                continue      # the degenerate arm
            gs = [(op, a2, b3) for op, a2, b3, si in normalized_guards(ctx, b, bi) if b3 is not None]
            cmp_len = [(op, a2, b3) for op, a2, b3 in gs if is_call(strip_all(a2), '::length') or (strip_all(a2)[0] in ('phi', 'rec') and any(is_call(x, '::length') for x in dt.direct_deps(an, a2)))]
            seen = sorted(set(op for op, a2, b3 in cmp_len))
            okg = bool(cmp_len) and all(op in ('Ne', '!Eq') and const_val(b3) == 0 for op, a2, b3 in cmp_len)
    ctx.check(okg, R, 'draw_target::Source::new_linear_gradient|zero-length guard', b.loc(), 'regular matrix whenever length != 0', 'the regular gradient matrix of new_linear_gradient is not used exactly when length != 0 (comparisons of the length on that path: %s): short gradients fall into the degenerate single-colour arm' % seen)
    # choose_shader gradient arms
    b = ctx.body(CS, R)
    an = ctx.an(b)
    key = 'blitter::choose_shader'
    table = {
        'RadialGradient': ('RadialGradientShader', 2, [], 1),
        'LinearGradient': ('LinearGradientShader', 2, [], 1),
        'TwoCircleRadialGradient': ('TwoCircleRadialGradientShader', 6, [2, 3, 4, 5], 1),
        'SweepGradient': ('SweepGradientShader', 4, [2, 3], 1),
    }
    n = 0
    for bi, s, t in storage_aggs(ctx, b):
        v = t[3]
        if v not in table:
            continue
        n += 1
        ty, tidx, mids, sidx = table[v]
        p = strip_all(t[4][0][1])
        vg = variant_guards(ctx, b, bi)
        src_var = [vv for scr, adt, vv, sb in vg if strip_all(scr) in (('param', 2), ('deref', ('param', 2)))]
        ok = src_var == [v] and p[0] == 'call' and p[1] == BL + ty + '::new'
        if ok:
            a = p[2]
            def pay(t2, k):
                t2 = strip_all(t2)
                while t2[0] == 'deref':
                    t2 = strip_all(t2[1])
                return t2[0] == 'field' and t2[2] == str(k) and t2[4] == v and (t2[3] or '').endswith('draw_target::Source')
            ok = pay(a[0], 0) and then_of(a[1], v, tidx)
            for j, k in enumerate(mids):
                ok = ok and pay(a[2 + j], k)
            ok = ok and pay(a[2 + len(mids)], sidx)
        if not ok:
            ok = gradient_composed(ctx).get(v) is True
        ctx.check(ok, R, key + '|' + v, b.loc(s['sp']), 'Source::%s -> %s::new(gradient, ti.then(transform), payload in order, spread, alpha)' % (v, ty),
                  'the %s arm does not build %s::new(gradient, &ti.then(&transform), %sspread, alpha) from its own payload slot by slot: %s' % (v, ty, ''.join('payload %d, ' % k for k in mids), fmt(b, p)))
    ctx.floor(R, 'gradient arms of choose_shader', n, 4)
    # ... and every gradient source reaches its gradient shader: no path from the dispatch on the source kind to the
    # return bypasses the construction (e.g. a "single stop -> solid colour" shortcut that skips the colour table)
    ms = [m for m in matches(ctx, b, 'draw_target::Source') if strip_all(m.scrut) in (('param', 2), ('deref', ('param', 2)))]
    ms.sort(key=lambda m: -len(m.arms))
    if ctx.check(bool(ms), R, key + '|dispatch', b.loc(), 'dispatch on the source kind found', 'cannot find the match on the source kind in choose_shader (fail closed)'):
        m0 = ms[0]
        by_variant = {}
        for bi, s2, t in storage_aggs(ctx, b):
            by_variant.setdefault(t[3], set()).add(bi)
        for v in table:
            tgt = m0.arms.get(v)
            if tgt is None:
                ctx.fail(R, key + '|%s reaches its shader' % v, b.loc(), 'the dispatch has no arm for Source::%s' % v)
                continue
            okp, pth = an.cfg.must_pass_through(tgt, by_variant.get(v, set()))
            ctx.check(okp and bool(by_variant.get(v)), R, key + '|%s reaches its shader' % v, b.loc(), 'every path for Source::%s builds %s' % (v, table[v][0]),
                      'a Source::%s can leave choose_shader without its %s being built (blocks %s): some inputs (e.g. gradients with a single stop) take a shortcut that bypasses the gradient colour table — its premultiplication, alpha scaling and spread handling' % (v, table[v][0], pth))


def r12_6(ctx):
    """the sweep gradient's parameter is 0 at the start angle and 1 at the end angle.  Read across the crate boundary, in
    the sw-composite version the analysed tree resolves to: Gradient::make_sweep_source stores (t_bias, t_scale) as
    functions of (start_angle, end_angle) and SweepGradientSource::eval computes t from the angle fraction r with them;
    after substitution T(r) must satisfy T(start/360) == 0 and T(end/360) == 1 (rational identities; the denominator
    end - start is a free non-zero quantity)."""
    import geomalg
    from geomalg import VA, psubst, cancel_inv
    R = 'R12.6'
    d = ctx.dep('sw-composite', R)
    mk = d.body('sw_composite::Gradient::make_sweep_source', R)
    ev = d.body('sw_composite::SweepGradientSource::eval', R)
    key = 'sw_composite::SweepGradientSource'
    va = VA(d)
    # constructor: the stored fields as rational functions of the angle parameters (MIR params: self=1, start=2, end=3)
    aggs = [x for t in shared.ret_terms(d, mk) for x in subterms(t) if x[0] == 'agg' and (x[2] or '').endswith('SweepGradientSource')]
    if not ctx.check(len(aggs) == 1, R, key + '|constructor', mk.loc(), 'SweepGradientSource literal found', 'cannot find the SweepGradientSource built by make_sweep_source (fail closed)'):
        return
    f = dict(aggs[0][4])
    if not ctx.check('t_bias' in f and 't_scale' in f, R, key + '|fields', mk.loc(), 't_bias and t_scale stored', 'SweepGradientSource has no t_bias/t_scale fields (fail closed)'):
        return
    # evaluator: the term whose *255 is cast to the table index handed to apply_spread
    an = d.an(ev)
    tt = None
    for bi, dd, ct in calls_in(d, ev):
        if dd and dd.endswith('apply_spread') and ct[2]:
            a = strip_all(ct[2][0])
            while a[0] == 'cast':
                a = strip_all(a[3])
            if a[0] == 'bin' and a[1] == 'Mul':
                k1, k2 = const_val(a[2]), const_val(a[3])
                tt = a[2] if k2 == 255.0 else (a[3] if k1 == 255.0 else None)
    if not ctx.check(tt is not None, R, key + '|eval t', ev.loc(), 't * 255 indexes the colour table', 'cannot find the gradient parameter t in SweepGradientSource::eval (fail closed)'):
        return
    pt = va.sp(tt)
    fld = lambda n: [l for l in pt.leaves() if l[0] == 'field' and l[2] == n]
    rs = [l for l in pt.leaves() if not (l[0] == 'field' and l[2] in ('t_bias', 't_scale'))]
    if not ctx.check(len(fld('t_bias')) == 1 and len(fld('t_scale')) == 1 and len(rs) == 1, R, key + '|eval form', ev.loc(), 't is a function of the angle fraction, t_scale and t_bias',
                     't in eval is %s: not a function of exactly the angle fraction, self.t_scale and self.t_bias (fail closed)' % pt.show(ev)[:200]):
        return
    r = rs[0]
    a0, a1 = ('param', 2), ('param', 3)
    S, B = va.sp(f['t_scale']), va.sp(f['t_bias'])
    # eliminate end_angle: end = start + 360*D with D = (end - start)/360 a fresh non-zero leaf, so that 1/(t1 - t0) = inv(D)
    Dl = ('D',)
    elim = {a1: Poly.leaf(a0) + Poly.const(360) * Poly.leaf(Dl)}
    def norm(p):
        p = psubst(p, elim)
        m = {}
        for l in p.leaves():
            if l[0] == 'inv' and psubst(va.sp(l[1]), elim) == Poly.leaf(Dl):
                m[l] = Poly.leaf(('inv', Dl))
        return cancel_inv(psubst(p, m))
    def T(at):
        return norm(psubst(pt, {fld('t_scale')[0]: S, fld('t_bias')[0]: B, r: at}))
    t0 = Poly.leaf(a0) * Poly.const(Fraction(1, 360))
    t1 = Poly.leaf(a1) * Poly.const(Fraction(1, 360))
    T0, T1 = T(t0), T(t1)
    ctx.check(norm(T1 - T0) == Poly.const(1), R, key + '|span', ev.loc(), 't(end) - t(start) = 1', 't(end angle) - t(start angle) is %s, expected 1: the colour ramp does not span start..end' % norm(T1 - T0).show(ev)[:160])
    ctx.check(T0 == Poly.const(0), R, key + '|t(start) = 0', ev.loc(), 't(start angle) = 0',
              'sweep gradient: at the start angle the parameter is t = %s, expected 0 (eval computes r*t_scale - t_bias with t_bias = %s and t_scale = %s, i.e. r/(t1 - t0) + t0 instead of (r - t0)/(t1 - t0)): every sweep gradient whose start angle is not 0 is rotated/offset against its definition (e.g. start 90, end 270: the ray at 90 degrees shows t = 0.75 instead of the first stop)'
              % (T0.show(ev)[:120], fmt(mk, f['t_bias'])[:60], fmt(mk, f['t_scale'])[:80]))


def _r18_1b(ctx):
    import props.c18 as c18
    c18.r18_1b(ctx)


_r18_1b.__name__ = 'r18_1b'


def run(ctx):
    import engine
    import props.c11 as c11
    engine.run_rules(ctx, [r12_1, r12_2, r12_3, r12_6, dt.r03_5, dt.r02_6, _r18_1b, c11.r11_2, c11.r11_8, dt.r06_5])
