"""C06 — a layer is an isolated group composited once with its opacity and blend mode."""
import dt
import ras
import shared

META = {
    'explanation': 'Static rules: R06.1 every site that takes a mutable view of the base surface is the layer-selecting compositor, an audited '
                   'layer-ignoring API, or dominated by a layer_stack emptiness test; R06.2 push_layer_with_blend stores clip_bounds(), a '
                   'zero-filled buffer sized from it, the opacity and the blend mode, push_layer delegates with SrcOver; R06.3 pop_layer pops '
                   'once, before the single composite, whose source is the layer image (size, data, Pad/Nearest, translation by -rect.min), '
                   'whose mask carries layer.opacity (x*255+0.5 as u8) over the whole surface, with rect=layer.rect, blend=layer.blend, alpha=1; '
                   'R06.4 composite pairs the layer buffer with the layer rect and the surface with its rect and takes the innermost layer; '
                   'R06.5 pop_layer and clear restore the transform they overwrite on every path; stacks are mutated only by their push/pop '
                   '(R05.3); R05.6 empty clips are harmless for the layer buffer size.',
    'decides': ['R02.3 mask rows handed to the blitters end at the rectangle', 'R06.1 layer-aware pixel access', 'R06.2 push_layer data flow', 'R06.3 pop_layer composites the popped layer once with opacity and blend', 'R06.4 destination selection consistent',
                'R06.5 transform saved/restored', 'R05.3 stacks untouched by others', 'R05.6 empty clip harmless', 'R03.2 blitter geometry from dest_bounds', 'R03.6 opacity byte conversion'],
    'does_not_decide': ['equivalence with an isolated surface as pixel values', 'opacity arithmetic', 'nesting effects beyond destination = top of stack'],
    'assumptions': ['composite() is correct for an Image source with a constant mask (C03/C13 clauses)'],
    'trusted_base': ['euclid 0.22.14', 'sw-composite 0.7.16'],
}


def _r14_1(ctx):
    import props.c14 as c14
    c14.r14_1(ctx)


_r14_1.__name__ = 'r14_1'


def run(ctx):
    import engine
    engine.run_rules(ctx, [dt.r06_1, dt.r06_2, dt.r06_3, dt.r06_4, dt.r06_5, dt.r05_3, dt.r05_6, dt.r03_2, dt.r03_6, dt.r02_6, dt.r02_1, dt.r02_7, _r14_1, dt.r05_8, ras.r10_1, dt.r02_3])
