"""C09 — dashes follow the dash pattern along arc length, restarted per subpath."""
import sd
import engine

META = {
    'explanation': 'Static rules over dash_path: R09.1 the dash state is saved after the offset normalisation and before the op loop and restored '
                   'on every path of the MoveTo arm and after the closing segment was chopped (pattern restarts per subpath); R09.2 the loop that '
                   'chops the closing segment updates exactly the state the loop that chops ordinary segments updates (toggle, index, lengths, '
                   'start, is_first_segment, first_dash, emissions); R09.3 typestate of the first-dash buffer: no path from a push reaches a '
                   're-initialisation of the buffer or the return without passing a flush (builder calls reading its elements) or an emptiness '
                   'test; R09.4 an odd array doubles the period, the offset is reduced modulo the period and wrapped when negative; R04.4 dashes '
                   'are emitted only on the true edge of period > 0; R04.5 the pipeline flatten -> dash -> stroke with the same style.',
    'decides': ['R09.11 the walk never starts on an exhausted entry: the rest stored ahead of the op loop is `remaining - x` under a comparison making x strictly smaller', 'R09.12 dash_path returns only what its builder built', 'R09.9 after every toggle in the op loop the first-segment flag is false before its next test', 'R09.10 the chopping loops only ever reduce the remaining length by the dash consumed (termination)', 'R09.1 pattern restarted per subpath', 'R09.2 sibling chopping loops agree', 'R09.3 first-dash buffer never dropped unflushed', 'R09.4 odd arrays and offsets', 'R09.5 subpath start emitted after the previous flush', 'R09.6 Close re-seats both cursors at the subpath start and re-initialises the per-subpath state', 'R04.4 non-positive/NaN period paints nothing', 'R04.5 pipeline', 'R04.1-R04.3 each piece gets the chosen caps and joins'],
    'does_not_decide': ['arc-length positions of dash boundaries, the 0.75 px margins, join/cap geometry of the pieces (numeric)'],
    'assumptions': ['stroke_to_path strokes each emitted polyline as an open/closed subpath (C04 clauses)'],
    'trusted_base': ['lyon_geom 1.0.19 (LineSegment::length/to_vector)'],
}


def run(ctx):
    engine.run_rules(ctx, [sd.r09_1, sd.r09_1b, sd.r09_2, sd.r09_3, sd.r09_4, sd.r09_5, sd.r09_6, sd.r09_7, sd.r09_8, sd.r09_9, sd.r09_10, sd.r09_11, sd.r09_12, sd.r04_15, sd.r04_4, sd.r04_5, sd.r04_1, sd.r04_2, sd.r04_3, sd.r04_7, sd.r04_8, sd.r04_12])
