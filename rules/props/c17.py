"""C17 — contains_point agrees with the fill rule."""
from util import *
from terms import fmt, subterms, Deps
import shared

META = {
    'explanation': 'Static rules over the MIR of Path::contains_point and its WindState: R17.1 the crossing counter is closed '
                   'implicitly — WindState::close is called in the MoveTo arm before the cursor moves and on every path from the op loop '
                   'to the result; R17.2 the winding-rule table is EvenOdd -> (count & 1) != 0, NonZero -> count != 0 on the path\'s own '
                   'winding and the result is inside || on_edge; R17.3 cursor law: WindState::close re-seats the cursor from the subpath '
                   'start on every path, the closing edge runs cursor -> start, a LineTo adds the edge cursor -> point and then moves the '
                   'cursor, a LineTo without cursor starts a subpath; R17.4 WindState::add_edge, which touches its inputs only through comparisons and the sign of one cross product, is interpreted abstractly over all 81 orderings of the end points against the query point x every cross-product sign geometry allows: on_edge must be set exactly when the point is on the closed segment and the count must equal the leftward-ray crossing number under one half-open convention.',
    'decides': ['R17.5 the winding state is initialised with the query point (x, y) in that order', 'R17.1 implicit close', 'R17.2 winding-rule table and result', 'R17.3 cursor law of WindState', 'R17.4 crossing logic of add_edge over the finite set of orderings', 'R16.1/R16.2/R16.4 the flattened path it walks keeps ops, cursor law and winding'],
    'does_not_decide': ['agreement with fill on curved input (flattening tolerance)', 'float rounding of the side test'],
    'assumptions': ['lyon_geom flattening accuracy (C16 does_not_decide)'],
}

CP = 'raqote::path_builder::Path::contains_point'
WS = CP + '::WindState'
PATHOP = 'raqote::path_builder::PathOp'


def is_ws_field(t, name):
    root, names = field_path(t)
    return names == [name] and root[0] in ('mem', 'phi', 'param', 'agg')


def r17_1(ctx, b, m):
    R = 'R17.1'
    an = ctx.an(b)
    cfg = an.cfg
    key = 'path_builder::Path::contains_point'
    closes = [bi for bi, d, ct in calls_in(ctx, b) if d == WS + '::close']
    loops = cfg.loops()
    inloop = set()
    for h, blocks in loops.items():
        inloop |= blocks
    after = [c for c in closes if c not in inloop]
    ok, path = cfg.must_pass_through(0, after)
    ctx.check(ok and bool(after), R, key + '|final close', b.loc(), 'close() on every path from the op loop to the result',
              'there is a path to the result that never calls WindState::close after the op loop: the last subpath is not closed implicitly')
    if 'MoveTo' in m.arms:
        region = arm_region(cfg, m.bb, m.arms['MoveTo'])
        cl = [c for c in closes if c in region]
        stores = [pt for addr, val, pt, kind in an.stores if is_ws_field(addr, 'current_point') and pt[0] in region and kind in ('assign', 'local')]
        ok = bool(cl) and bool(stores) and all(any(cfg.dominates(c, pt[0]) for c in cl) for pt in stores)
        ctx.check(ok, R, key + '|close before MoveTo', b.loc(), 'MoveTo closes the previous subpath before moving the cursor',
                  'the MoveTo arm does not call WindState::close before it moves the cursor: an open subpath is not closed when the next one starts')
    else:
        ctx.fail(R, key + '|close before MoveTo', b.loc(), 'no MoveTo arm')


def r17_2(ctx, b):
    R = 'R17.2'
    an = ctx.an(b)
    key = 'path_builder::Path::contains_point'
    def scrut(t):
        root, names = field_path(t)
        return names[-1:] == ['winding'] and root == ('param', 1)
    join = shared.winding_table(ctx, b, R, key, scrut, lambda t: is_ws_field(t, 'count'))
    # result = inside || on_edge: every returned value is const true under `inside`, or ws.on_edge
    rts = shared.ret_terms(ctx, b)
    has_on_edge = any(is_ws_field(t, 'on_edge') for t in rts)
    others = [t for t in rts if not is_ws_field(t, 'on_edge')]
    ok = has_on_edge and all(t[0] == 'const' and t[2] == '1' for t in others)
    ctx.check(ok, R, key + '|result', b.loc(), 'result = inside || ws.on_edge', 'the result is %s, expected inside || ws.on_edge' % [fmt(b, t) for t in rts])


def edge_points(ct):
    """the two end points handed to WindState::add_edge: add_edge(self, p1, p2), or add_edge(self, p1.x, p1.y, p2.x, p2.y)"""
    a = ct[2]
    if len(a) == 3:
        return strip_all(a[1]), strip_all(a[2])
    if len(a) == 5:
        pts = []
        for xa, ya in ((a[1], a[2]), (a[3], a[4])):
            xa, ya = strip_all(xa), strip_all(ya)
            if xa[0] == 'field' and ya[0] == 'field' and xa[2] == 'x' and ya[2] == 'y' and nosite(strip_all(xa[1])) == nosite(strip_all(ya[1])):
                pts.append(strip_all(xa[1]))
            else:
                return None, None
        return pts[0], pts[1]
    return None, None


def r17_3(ctx, b, m):
    R = 'R17.3'
    an = ctx.an(b)
    key = 'path_builder::Path::contains_point'
    # LineTo arm: add_edge(cursor, pt) when a cursor exists; cursor := Some(pt) on every path; start := Some(pt) when there was no cursor
    if 'LineTo' in m.arms:
        region = arm_region(an.cfg, m.bb, m.arms['LineTo'])
        adds = [(bi, ct) for bi, d, ct in calls_in(ctx, b, region) if d == WS + '::add_edge']
        ok = len(adds) == 1
        if ok:
            bi, ct = adds[0]
            a1, a2 = edge_points(ct)
            ok = (a1 is not None and a1[0] == 'field' and a1[4] == 'Some' and is_ws_field(a1[1], 'current_point')
                  and a2[0] == 'field' and a2[3] == PATHOP and a2[4] == 'LineTo' and a2[2] == '0')
        ctx.check(ok, R, key + '|LineTo edge', b.loc(), 'LineTo adds the edge cursor -> point', 'the LineTo arm does not add exactly the edge (cursor, point)')
        cur_stores = [(val, pt) for addr, val, pt, kind in an.stores if is_ws_field(addr, 'current_point') and pt[0] in region and kind in ('assign', 'local')]
        stop = an.cfg.ipdom(m.bb)
        okp, _ = an.cfg.must_pass_through(m.arms['LineTo'], set(pt[0] for _, pt in cur_stores), exits=[stop] if stop is not None else None)
        okv = all(v[0] == 'agg' and v[3] == 'Some' and strip_all(v[4][0][1])[0] == 'field' and strip_all(v[4][0][1])[4] == 'LineTo' for v, _ in cur_stores)
        ctx.check(okp and okv and bool(cur_stores), R, key + '|LineTo cursor', b.loc(), 'cursor := Some(point) on every path of the LineTo arm', 'the LineTo arm does not set the cursor to its point on every path')
    # WindState::close
    cb = ctx.body(WS + '::close', R)
    can = ctx.an(cb)
    ckey = 'path_builder::Path::contains_point::WindState::close'
    adds = [(bi, ct) for bi, d, ct in calls_in(ctx, cb) if d == WS + '::add_edge']
    ok = len(adds) == 1
    if ok:
        ct = adds[0][1]
        e1, e2 = edge_points(ct)
        r1, n1 = field_path(e1) if e1 is not None else (None, None)
        r2, n2 = field_path(e2) if e2 is not None else (None, None)
        ok = r1 == ('param', 1) and n1 == ['current_point', '0'] and r2 == ('param', 1) and n2 == ['first_point', '0']
    ctx.check(ok, R, ckey + '|closing edge', cb.loc(), 'closing edge runs cursor -> subpath start', 'WindState::close does not add exactly the edge (cursor, subpath start)')
    if ok:
        # the closing edge is added whenever the cursor differs from the start as a *point*: the only comparisons that may
        # guard it are (in)equalities of the two points themselves (an edge that cannot change the crossing count — a
        # horizontal one — still has to be tested for the query point lying on it)
        bad = []
        for op, a, b2, si in normalized_guards(ctx, cb, adds[0][0]):
            for side in (a, b2):
                if side is None:
                    continue
                for x in subterms(side):
                    if len(x) == 5 and x[0] == 'field' and x[2] in ('x', 'y') and x[3] in ('euclid::Point2D', 'euclid::Vector2D'):
                        bad.append(x[2])
        ctx.check(not bad, R, ckey + '|closing edge guard', cb.loc(), 'the closing edge is guarded by whole-point comparisons only',
                  'WindState::close adds the closing edge only under a test of single coordinates (%s): closing edges that the test considers irrelevant for the crossing count (e.g. horizontal ones) are never examined, so a point lying on them is not reported as on the path' % sorted(set(bad)))
    st = shared.stores_matching(ctx, cb, ('param', 1), ['current_point'])
    st = [s for s in st if s[3] == 'assign']
    blocks = set(pt[0] for _, _, pt, _ in st)
    okp, path = can.cfg.must_pass_through(0, blocks)
    okv = True
    for addr, val, pt, kind in st:
        D = Deps(can)
        leaves = D.closure(val)
        if not any(l[0] == 'path' and l[1] == ('param', 1) and ('f', 'first_point') in l[2] for l in leaves):
            okv = False
    ctx.check(bool(st) and okp and okv, R, ckey + '|re-seats cursor', cb.loc(), 'close() sets the cursor from the subpath start on every path',
              'WindState::close does not move the cursor back to the subpath start (first_point) on every path: a line after Close starts at the last vertex instead of where fill continues from')


def r17_4(ctx):
    """crossing logic of WindState::add_edge over the finite set of orderings (A8)"""
    import orderdom
    R = 'R17.4'
    b = ctx.body(WS + '::add_edge', R)
    key = 'path_builder::Path::contains_point::WindState::add_edge'
    try:
        res, fails, on_fail = orderdom.analyse(b)
    except orderdom.NotAnalysable as e:
        ctx.fail(R, key + '|analysable', b.loc(), 'add_edge is no longer a function of comparisons and one cross-product sign that the order-domain interpreter understands (%s): cannot decide, fail closed' % e)
        return
    ctx.floor(R, 'ordering cases interpreted', len(res), 200)
    if on_fail:
        case, delta, on_code, on = on_fail[0]
        ctx.fail(R, key + '|on_edge exact', b.loc(), 'on_edge is %s but the point is %son the segment in %d ordering case(s), e.g. %s (signs x1-X,x2-X,y1-Y,y2-Y,cross,dy = %s): points collinear with an edge beyond its ends / level with a horizontal edge are reported as contained'
                 % (on_code, '' if on else 'not ', len(on_fail), case.witness(), case.key()))
    else:
        ctx.ok(R, key + '|on_edge exact', b.loc(), 'on_edge is set exactly when the point lies on the closed segment (all %d cases)' % len(res))
    ok_k = [k2 for k2 in ('lower', 'upper') if not fails[k2]]
    if ok_k:
        ctx.ok(R, key + '|half-open crossing rule', b.loc(), 'crossing count equals the leftward-ray crossing number with the %s end point included (all %d cases)' % (ok_k[0], len(res)))
    else:
        k2 = min(fails, key=lambda x: len(fails[x]))
        case, delta, want = fails[k2][0]
        other = 'upper' if k2 == 'lower' else 'lower'
        c2, d2, w2 = fails[other][0]
        ctx.fail(R, key + '|half-open crossing rule', b.loc(),
                 'no half-open convention explains the crossing count: with the lower end point included %d case(s) are wrong (e.g. %s: count %+d, expected %+d), with the upper end point included %d (e.g. %s: count %+d, expected %+d) — an edge end point level with the query point is counted by both edges that meet there, so a vertex to the left of the point flips the result'
                 % (len(fails['lower']), fails['lower'][0][0].witness(), fails['lower'][0][1], fails['lower'][0][2], len(fails['upper']), fails['upper'][0][0].witness(), fails['upper'][0][1], fails['upper'][0][2]))
    ctx.samples.append({'rule': R, 'instance': 'sample of interpreted cases', 'holds': True, 'at': b.loc(),
                        'what': [{'signs(x1-X,x2-X,y1-Y,y2-Y,cross,dy)': list(k3), 'count_delta': v[1], 'on_edge': v[2]} for k3, v in list(res.items())[:12]]})


def r17_5(ctx):
    """the ray is cast from the query point: the WindState that contains_point builds carries (x, y) = its own x and y
    arguments, in that order (as two fields, or as one point)"""
    R = 'R17.5'
    b = ctx.body(CP, R)
    an = ctx.an(b)
    key = 'path_builder::Path::contains_point'
    aggs = []
    for d in an.defs:
        if d.kind == 'assign' and not d.partial and d.bb in an.cfg.reach:
            t = an.def_term(d)
            if t[0] == 'agg' and (t[2] or '').endswith('WindState'):
                aggs.append(t)
    if not ctx.check(len(aggs) >= 1, R, key + '|state', b.loc(), 'WindState literal found', 'cannot find the WindState that contains_point builds (fail closed)'):
        return
    PX, PY = ('param', 3), ('param', 4)
    for t in aggs:
        f = dict(t[4])
        if 'x' in f and 'y' in f:
            ok = strip_all(f['x']) == PX and strip_all(f['y']) == PY
        else:
            from geomalg import VA
            va = VA(ctx)
            ok = False
            for n, v in f.items():
                if n in ('first_point', 'current_point'):
                    continue
                vx, vy = va.vec(v)
                if vx == Poly.leaf(PX) and vy == Poly.leaf(PY):
                    ok = True
        ctx.check(ok, R, key + '|query point', b.loc(), 'the winding state tests against (x, y)', 'the WindState is not initialised with the query point (x, y) in that order: %s' % fmt(b, t)[:200])


def run(ctx):
    b = ctx.body(CP, 'R17')
    ms = matches(ctx, b, 'PathOp')
    if len(ms) != 1:
        ctx.fail('R17.1', 'path_builder::Path::contains_point|match', b.loc(), 'expected exactly one match on a PathOp, found %d (fail closed)' % len(ms))
    else:
        m = ms[0]
        r17_1(ctx, b, m)
        r17_3(ctx, b, m)
    r17_2(ctx, b)
    import engine
    import props.c16 as c16
    def flatten_rules(c):
        fb = c.body(c16.FLATTEN, 'R16')
        fm = c16.op_match(c, fb, 'R16.1', 'path_builder::Path::flatten')
        if fm is not None:
            c16.r16_1(c, fb, fm)
            c16.r16_2(c, fb, fm)
            c16.r16_3(c, fb, fm)
            c16.r16_6(c, fb, fm)
        c16.r16_4(c, fb)
    flatten_rules.__name__ = 'r16_flatten'
    engine.run_rules(ctx, [r17_4, r17_5, flatten_rules])
