"""C01 — polygon fill coverage equals the exact 4x4 supersampling model."""
import ras
import engine

META = {
    'explanation': 'Static rules over the scan conversion: R01.1 typestate of the active edge list in Rasterizer::rasterize (insert_starting_edges '
                   'and scan_edges are reached only with a sorted list; step_edges unsorts, sort_edges sorts; around the loop as well); R01.2 '
                   'every cycle of both edge-walking loops of scan_edges adds the edge\'s winding; R01.3 the winding-rule table is EvenOdd -> '
                   '(w & 1) != 0, NonZero -> w != 0 and spans are blitted only when inside; R01.4 subpaths are closed implicitly and close() '
                   'returns the cursor to the start, curve flags are right; R01.5 both raster blitters rebase y by self.y and x by self.x, clamp '
                   'x2 with min(x2, width*SCALE) before indexing, index row ((y-self.y)/SCALE)*width, the aliased one only on the first sample '
                   'row, and allocate width*height+1 bytes; R01.6 every literal of the sample grid agrees with SAMPLE_SHIFT (derived consts, '
                   'fixed-point conversion helpers, 1<<SHIFT sample rows per pixel, rounding constant = half a sample on both span ends, '
                   'partial-cell shift, full-cell value, straight-edge slope scale).',
    'decides': ['R01.1 sorted-at-scan typestate', 'R01.2 winding accounting', 'R01.3 winding-rule table', 'R01.4 subpath closing and curve flags', 'R01.5 raster blitter geometry', 'R01.6 sample-grid constants'],
    'does_not_decide': ['that the numbers are right: slope values and stepping error, rounding beyond the constants, 16k/16k-1 accumulation and saturated_add, exactness at surface borders, edge culling arithmetic, curve set-up (fixed-point scale analysis R01.7 is not built)'],
    'assumptions': ['Rasterizer::reset leaves the active list empty, hence sorted (R10.2)'],
    'trusted_base': ['typed-arena 2.0'],
}


def run(ctx):
    engine.run_rules(ctx, [ras.r01_1, ras.r01_2, ras.r01_3, ras.r01_4_close, ras.r01_5, ras.r01_6])
