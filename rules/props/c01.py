"""C01 — polygon fill coverage equals the exact 4x4 supersampling model."""
import ras
import engine

META = {
    'explanation': 'Static rules over the scan conversion: R01.1 typestate of the active edge list in Rasterizer::rasterize (insert_starting_edges '
                   'and scan_edges are reached only with a sorted list; step_edges unsorts, sort_edges sorts; around the loop as well); R01.2 '
                   'every cycle of both edge-walking loops of scan_edges adds the edge\'s winding; R01.3 the winding-rule table is EvenOdd -> '
                   '(w & 1) != 0, NonZero -> w != 0 and spans are blitted only when inside; R01.4 subpaths are closed implicitly and close() '
                   'returns the cursor to the start, curve flags are right; R01.5 both raster blitters rebase y by self.y and x by self.x, clamp '
                   'x2 with min(x2, width*SCALE) before indexing, index row ((y-self.y)/SCALE)*width, the aliased one only on the first sample '
                   'row, and allocate width*height+1 bytes; R01.6 every literal of the sample grid agrees with SAMPLE_SHIFT (derived consts, '
                   'fixed-point conversion helpers, 1<<SHIFT sample rows per pixel, rounding constant = half a sample on both span ends, '
                   'partial-cell shift, full-cell value, straight-edge slope scale).',
    'decides': ['R01.13 every sample row of the scan window is scanned or was found empty', 'R01.14 the x of an active edge is stored by add_edge and step only', 'R01.8 insertion-row guards of add_edge', 'R01.1 sorted-at-scan typestate', 'R01.2 winding accounting', 'R01.3 winding-rule table', 'R01.4 subpath closing and curve flags', 'R01.5 raster blitter geometry', 'R01.6 sample-grid constants'],
    'does_not_decide': ['that the numbers are right: slope values and stepping error, rounding beyond the constants, 16k/16k-1 accumulation and saturated_add, exactness at surface borders, edge culling arithmetic, curve set-up (fixed-point scale analysis R01.7 is not built)'],
    'assumptions': ['Rasterizer::reset leaves the active list empty, hence sorted (R10.2)'],
    'trusted_base': ['typed-arena 2.0'],
}


def r01_8(ctx):
    """edges are only entered into rows they really cover: the culling / horizontal tests of add_edge dominate the insertion,
    also after an edge starting above the surface was stepped down to row 0"""
    import hazard
    R = 'R01.8'
    b = ctx.body(ras.RAS + 'add_edge', R)
    hs = [h for h in hazard.hazards_of(ctx, b) if h[0] == 'index' and h[1] == 'self.edge_starts']
    ok = bool(hs) and hazard.g_add_edge_row(ctx, b, hs)
    ctx.check(ok, R, 'rasterizer::Rasterizer::add_edge|row guards', b.loc(), 'insertion row r satisfies 0 <= r < height and r < y2 on every path',
              'an edge can be inserted into a start row it does not cover (the y1 >= height / cury >= y2 / cury < 0 tests no longer cut every path to the insertion, e.g. the re-test after stepping an off-surface edge down to row 0 was weakened): spurious coverage appears on that sample row')


def _r11_9(ctx):
    import props.c11 as c11
    c11.r11_9(ctx)


_r11_9.__name__ = 'r11_9'


def run(ctx):
    engine.run_rules(ctx, [r01_8, ras.r01_1, ras.r01_2, ras.r01_3, ras.r01_4_close, ras.r01_5, ras.r01_6, ras.r08_5, ras.r08_7, ras.r01_9, ras.r01_10, ras.r01_11, ras.r01_12, ras.r01_13, ras.r01_14, ras.r01_15, ras.r10_1, ras.r10_2, ras.r10_5, ras.r08_34, ras.r08_6, _r11_9])
