"""C13 — image sources show the texel under the pixel centre (pad/repeat, filter, alpha)."""
from util import *
from terms import fmt, subterms, Deps
import shared
import dt

META = {
    'explanation': 'Static rules: R13.1 choose_shader\'s image arms form the table (extend, integer translation?, filter, alpha != 255) -> '
                   'ShaderStorage variant and shader type: the integer-translation test comes first (ImagePadAlpha / ImageRepeatAlpha with the '
                   'integer offset), otherwise Transformed[Nearest]Image[Alpha]Shader<PadFetch|RepeatFetch> with Pad->PadFetch, '
                   'Repeat->RepeatFetch, Nearest->...Nearest..., alpha != 255 -> ...Alpha...; every constructor receives the image and the '
                   'matrix ti.then(source transform); the second match returns the payload of the variant it matched; R13.2 the four '
                   'transformed-image constructors conjugate the matrix with the half-pixel translations and each shade_span fetches with '
                   'the function matching its type at consecutive x; R13.3 the integer fast paths clamp y on both sides / reduce both axes '
                   'with rem_euclid by their own dimension and index row*width + column; R13.4 draw_image helpers are axis-paired.',
    'decides': ['R03.11 global alpha converted once per image shader', 'R13.5 integer-translation test', 'R13.1 shader selection table', 'R13.2 half-pixel conjugation and fetch function agreement', 'R13.3 integer fast-path run structure', 'R13.4 draw_image helper geometry', 'R11.2 matrix = inverse CTM then source transform'],
    'does_not_decide': ['sampling arithmetic (16.16 conversion, bilinear weights, fetch clamping/wrapping inside sw-composite)', 'equality of fast path and general sampler as values'],
    'assumptions': ['sw_composite fetch_bilinear/fetch_nearest[_alpha]::<PadFetch|RepeatFetch> sample as documented (external)', 'MatrixFixedPoint::transform applies the fixed matrix (external)'],
    'trusted_base': ['sw-composite 0.7.16', 'euclid 0.22.14'],
}

DT = dt.DT


def r13_4(ctx):
    """draw_image helpers: axis-paired translation/scale, rectangle filled"""
    R = 'R13.4'

    def check_body(b, key, W, H, X, Y, IMG, OPT):
        """the body fills rect(X, Y, W, H) with Image(IMG, Pad, Bilinear, translation(-X,-Y).then_scale(IMG.width/W, IMG.height/H))
        and forwards the options parameter; W..OPT are predicates on terms"""
        an = ctx.an(b)
        fr = [(bi, ct) for bi, d, ct in calls_in(ctx, b) if d == DT + 'fill_rect']
        if not ctx.check(len(fr) == 1, R, key + '|fill_rect', b.loc(), 'one fill_rect call', 'expected one fill_rect call'):
            return
        bi, ct = fr[0]
        a = ct[2]
        ctx.check(X(a[1]) and Y(a[2]) and W(a[3]) and H(a[4]), R, key + '|rect', call_line(b, bi), 'fill_rect(x, y, width, height)', 'fill_rect is called with (%s), expected (x, y, width, height)' % ', '.join(fmt(b, v) for v in a[1:5]))
        ctx.check(OPT(strip_all(a[6])), R, key + '|options', call_line(b, bi), 'options forwarded', 'options are not forwarded to fill_rect')
        src = shared.resolve_mem(an, a[5])
        ok = src[0] == 'agg' and src[3] == 'Image'
        if ok:
            f = dict(src[4])
            img = strip_all(f['0'])
            ctx.check(IMG(img), R, key + '|image', call_line(b, bi), 'source image = the image argument', 'the source is not the image argument')
            ctx.check(f['1'][3] == 'Pad' and f['2'][3] == 'Bilinear', R, key + '|mode', call_line(b, bi), 'Pad / Bilinear', 'draw_image does not sample Pad/Bilinear')
            tr = strip_all(f['3'])
            okt = is_call(tr, 'then_scale') and is_call(strip_all(tr[2][0]), 'translation')
            if okt:
                t0 = strip_all(tr[2][0])
                def neg(t, pred):
                    return t[0] == 'un' and t[1] == 'Neg' and pred(t[2])
                okt = neg(t0[2][0], X) and neg(t0[2][1], Y)
                def ratio(t, fld, pred):
                    if not (t[0] == 'bin' and t[1] == 'Div' and pred(t[3])):
                        return False
                    n = strip_casts(t[2], ('IntToFloat',))
                    r, nm = field_path(n)
                    return IMG(r) and nm == [fld]
                okt = okt and ratio(tr[2][1], 'width', W) and ratio(tr[2][2], 'height', H)
            ctx.check(okt, R, key + '|transform', call_line(b, bi), 'translation(-x,-y).then_scale(image.width/width, image.height/height)',
                      'the source transform is %s, expected translation(-x, -y).then_scale(image.width/width, image.height/height) (each axis with its own quantities)' % fmt(b, tr))
        else:
            ctx.fail(R, key + '|source', call_line(b, bi), 'the source passed to fill_rect is not a Source::Image')

    is_p = lambda k: (lambda t: strip_all(t) in (('param', k), ('deref', ('param', k))))
    b = ctx.body(DT + 'draw_image_with_size_at', R)
    # params: self=1, width=2, height=3, x=4, y=5, image=6, options=7
    check_body(b, 'draw_target::DrawTarget::draw_image_with_size_at', is_p(2), is_p(3), is_p(4), is_p(5), is_p(6), is_p(7))
    b2 = ctx.body(DT + 'draw_image_at', R)
    cs = [(bi2, ct2) for bi2, d, ct2 in calls_in(ctx, b2) if d == DT + 'draw_image_with_size_at']
    ok = len(cs) == 1
    if ok:
        a = cs[0][1][2]
        def imgdim(t, fld):
            t = strip_casts(t, ('IntToFloat',))
            r, nm = field_path(t)
            return r == ('param', 4) and nm == [fld]
        ok = imgdim(a[1], 'width') and imgdim(a[2], 'height') and a[3] == ('param', 2) and a[4] == ('param', 3) and strip_all(a[5]) in (('param', 4), ('deref', ('param', 4))) and strip_all(a[6]) in (('param', 5), ('deref', ('param', 5)))
    if not cs:
        # the delegation written out: the same body with width/height = the image's own dimensions
        # params of draw_image_at: self=1, x=2, y=3, image=4, options=5
        def dim(fld):
            def pred(t):
                t = strip_casts(strip_all(t), ('IntToFloat',))
                r, nm = field_path(t)
                return strip_all(r) in (('param', 4), ('deref', ('param', 4))) and nm == [fld]
            return pred
        check_body(b2, 'draw_target::DrawTarget::draw_image_at', dim('width'), dim('height'), is_p(2), is_p(3), is_p(4), is_p(5))
        return
    ctx.check(ok, R, 'draw_target::DrawTarget::draw_image_at|delegates', b2.loc(), 'draw_image_at = draw_image_with_size_at(image.width, image.height, x, y, ..)', 'draw_image_at does not delegate with the image\'s own size at (x, y)')


CS = 'raqote::blitter::choose_shader'
IMG_SHADERS = {
    # (nearest, alpha) -> shader type, fetch fn
    (False, False): ('TransformedImageShader', 'fetch_bilinear'),
    (False, True): ('TransformedImageAlphaShader', 'fetch_bilinear_alpha'),
    (True, False): ('TransformedNearestImageShader', 'fetch_nearest'),
    (True, True): ('TransformedNearestImageAlphaShader', 'fetch_nearest_alpha'),
}


def then_of(t, variant, idx):
    """t == ti.then(&<Source::variant payload idx>)  (receiver = the inverse CTM parameter, argument = the source's transform)"""
    t = strip_all(t)
    if not (is_call(t, 'Transform2D::<T, Src, Dst>::then') and len(t[2]) == 2):
        return False
    recv = strip_all(t[2][0])
    arg = strip_all(t[2][1])
    return recv in (('param', 1), ('deref', ('param', 1))) and arg[0] == 'field' and arg[2] == str(idx) and arg[4] == variant and (arg[3] or '').endswith('draw_target::Source')


def storage_aggs(ctx, b):
    an = ctx.an(b)
    out = []
    for bi, k2, s in b.statements():
        if s['k'] == 'assign' and s['rv']['k'] == 'agg' and s['rv'].get('adt') == 'raqote::blitter::ShaderStorage' and bi in an.cfg.reach:
            t = an.rvalue_term(bi, k2, s['rv'])
            if t[3] != 'None':
                out.append((bi, s, t))
    return out


def r13_1(ctx):
    R = 'R13.1'
    b = ctx.body(CS, R)
    an = ctx.an(b)
    key = 'blitter::choose_shader'
    n = 0
    seen = set()
    for bi, s, t in storage_aggs(ctx, b):
        v = t[3]
        p = strip_all(t[4][0][1])
        vg = variant_guards(ctx, b, bi)
        src_var = [vv for scr, adt, vv, sb in vg if strip_all(scr) in (('param', 2), ('deref', ('param', 2)))]
        if src_var != ['Image']:
            continue
        n += 1
        seen.add(v)
        sk = key + '|' + v
        ext = [vv for scr, adt, vv, sb in vg if (adt or '').endswith('ExtendMode')]
        integer = [vv for scr, adt, vv, sb in vg if is_call(scr, 'is_integer_transform')]
        gs = normalized_guards(ctx, b, bi)
        alpha = None
        nearest = None
        for op, a, b2, si in gs:
            if op in ('Ne', '!Ne') and const_val(b2) == 255:
                alpha = (op == 'Ne')
            if op in ('true', '!true') and is_call(a, 'PartialEq::eq'):
                y2 = strip_all(a[2][1])
                x2 = strip_all(a[2][0])
                if y2[0] == 'agg' and y2[3] == 'Bilinear' and x2[0] == 'field' and x2[2] == '2' and x2[4] == 'Image':
                    nearest = (op == '!true')
                elif y2[0] == 'agg' and y2[3] == 'Nearest' and x2[0] == 'field' and x2[2] == '2' and x2[4] == 'Image':
                    nearest = (op == 'true')
        if not ctx.check(len(ext) == 1 and len(integer) == 1, R, sk + '|conditions', b.loc(s['sp']), 'extend mode and integer test known', 'cannot recover under which extend mode / integer-translation result %s is built (fail closed)' % v):
            continue
        ext = ext[0]
        callee = an.callee_info(p[3]) if p[0] == 'call' else None
        cname = callee['def'] if callee else '?'
        heads = (callee.get('subst_heads') or []) if callee else []
        if integer[0] == 'Some':
            want_v = 'Image%sAlpha' % ext
            want_c = 'raqote::blitter::Image%sAlphaShader::new' % ext
            ok = v == want_v and cname == want_c
            ctx.check(ok, R, sk + '|table', b.loc(s['sp']), '(%s, integer) -> %s' % (ext, want_v), 'under (%s, integer translation) choose_shader builds %s via %s, expected %s via %s' % (ext, v, short(cname), want_v, short(want_c)))
            if ok:
                a = p[2]
                def off(t2, c):
                    t2 = strip_all(t2)
                    return t2[0] == 'field' and t2[2] == c and t2[1][0] == 'field' and t2[1][4] == 'Some' and is_call(t2[1][1], 'is_integer_transform') and then_of(t2[1][1][2][0], 'Image', 3)
                img = strip_all(a[0])
                ctx.check(img[0] == 'field' and img[2] == '0' and img[4] == 'Image' and off(a[1], 'x') and off(a[2], 'y'), R, sk + '|args', b.loc(s['sp']), 'new(image, offset.x, offset.y, alpha) with offset = is_integer_transform(ti.then(transform))',
                          '%s is not built from (image, offset.x, offset.y) of is_integer_transform(ti.then(source transform))' % v)
        else:
            if not ctx.check(alpha is not None and nearest is not None, R, sk + '|conditions2', b.loc(s['sp']), 'filter and alpha tests known', 'cannot recover the filter / alpha tests guarding %s (fail closed)' % v):
                continue
            ty, _ = IMG_SHADERS[(nearest, alpha)]
            want_v = 'Transformed%s%sImage%s' % ('Nearest' if nearest else '', ext, 'Alpha' if alpha else '')
            want_c = 'raqote::blitter::%s::new' % ty
            fetch = 'sw_composite::%sFetch' % ext
            ok = v == want_v and cname == want_c and fetch in heads
            ctx.check(ok, R, sk + '|table', b.loc(s['sp']), '(%s, %s, alpha!=255: %s) -> %s<%sFetch>' % (ext, 'Nearest' if nearest else 'Bilinear', alpha, ty, ext),
                      'under (extend %s, filter %s, alpha != 255: %s) choose_shader builds %s via %s%s, expected %s via %s<%sFetch>' % (ext, 'Nearest' if nearest else 'Bilinear', alpha, v, short(cname), [h for h in heads if 'Fetch' in h], want_v, ty, ext))
            if ok:
                a = p[2]
                img = strip_all(a[0])
                ctx.check(img[0] == 'field' and img[2] == '0' and img[4] == 'Image' and then_of(a[1], 'Image', 3), R, sk + '|args', b.loc(s['sp']), 'new(image, ti.then(transform)[, alpha])', '%s is not built from (image, ti.then(source transform))' % v)
    ctx.floor(R, 'image arms of choose_shader', n, 10)
    # the second match returns the payload of the variant it matched
    ms = [m for m in matches(ctx, b, 'ShaderStorage')]
    ok_m = len(ms) == 1
    if ctx.check(ok_m, R, key + '|return match', b.loc(), 'one match on the storage', 'expected one match on shader_storage, found %d' % len(ms)):
        m = ms[0]
        cnt = 0
        for v, tgt in m.arms.items():
            if v == 'None':
                continue
            region = arm_region(an.cfg, m.bb, tgt)
            good = False
            other = False
            for d in an.defs:
                if d.bb in region and d.kind == 'assign':
                    t = strip_all(an.def_term(d))
                    if t[0] == 'field' and t[2] == '0' and (t[3] or '').endswith('ShaderStorage'):
                        if t[4] == v:
                            good = True
                        else:
                            other = True
            good = good and not other
            ctx.check(good, R, key + '|return ' + v, b.loc(), 'arm %s returns its own payload' % v, 'the %s arm of the final match does not return the %s payload' % (v, v))
            cnt += 1
        ctx.floor(R, 'arms of the final match', cnt, 15)


def r13_2(ctx):
    R = 'R13.2'
    n = 0
    for (nearest, alpha), (ty, fetch) in IMG_SHADERS.items():
        q = 'raqote::blitter::%s::new' % ty
        b = ctx.body(q, R)
        rts = shared.ret_terms(ctx, b)
        key = 'blitter::%s' % ty
        ok = len(rts) == 1 and rts[0][0] == 'agg'
        if ok:
            f = dict(rts[0][4])
            x = strip_all(f['xfm'])
            ok = is_call(x, 'blitter::transform_to_fixed')
            if ok:
                m = strip_all(x[2][0])
                ok = is_call(m, 'then_translate') and is_call(strip_all(m[2][0]), 'pre_translate')
                if ok:
                    pre = strip_all(m[2][0])
                    def v2(t, c):
                        t = strip_all(t)
                        return is_call(t, 'euclid::vec2', 'Vector2D::<T, U>::new') and const_val(t[2][0]) == c and const_val(t[2][1]) == c
                    ok = strip_all(pre[2][0]) in (('param', 2), ('deref', ('param', 2))) and v2(pre[2][1], 0.5) and v2(m[2][1], -0.5)
            oki = strip_all(f['image']) in (('param', 1), ('deref', ('param', 1)))
            ok = ok and oki
            if alpha:
                a = f.get('alpha')
                ok = ok and a is not None and is_call(a, 'alpha_to_alpha256') and a[2][0] == ('param', 3)
        ctx.check(ok, R, key + '::new|half-pixel', b.loc(), 'xfm = transform_to_fixed(transform.pre_translate(.5,.5).then_translate(-.5,-.5))',
                  '%s::new does not conjugate the matrix with the half-pixel translations (pre_translate(0.5, 0.5) then then_translate(-0.5, -0.5))%s' % (ty, ' / pass alpha_to_alpha256(alpha)' if alpha else ''))
        sq = '<raqote::blitter::%s as raqote::blitter::Shader>::shade_span' % ty
        sb = ctx.body(sq, R)
        san = ctx.an(sb)
        st, it_form = shared.dest_walk_stores(san)
        ok = len(st) == 1
        if ok:
            a2, v, pt = st[0]
            v = strip_all(v)
            ci = san.callee_info(v[3]) if v[0] == 'call' else None
            ok = ci is not None and ci['def'] == 'sw_composite::' + fetch and (ci.get('subst_heads') or [None])[0] == 'param:Fetch'
            if ok:
                args = v[2]
                ok = is_self_field(strip_all(args[0]), 'image')
                def coord(t, c):
                    t = strip_all(t)
                    return t[0] == 'field' and t[2] == c and is_call(t[1], 'MatrixFixedPoint::transform') and is_self_field(strip_all(t[1][2][0]), 'xfm')
                ok = ok and coord(args[1], 'x') and coord(args[2], 'y')
                if ok:
                    tr = strip_all(args[1])[1]
                    # transform(x as u16, y as u16): x is the running column (phi of the x parameter and x+1), y the row parameter
                    xa = strip_casts(tr[2][1], ('IntToInt',))
                    ya = strip_casts(tr[2][2], ('IntToInt',))
                    ok = ya == ('param', 3) and xa[0] == 'phi'
                    if ok:
                        incs = [san.def_term(san.defs[i]) for i in xa[2]]
                        ok = any(t == ('param', 2) for t in incs) and any(t[0] == 'bin' and t[1] == 'Add' and const_val(t[3]) == 1 for t in incs)
                if alpha:
                    ok = ok and is_self_field(strip_all(args[3]), 'alpha')
                # dest[i] with i over 0..count
                if not it_form:
                    lv = dt.loop_vars(san, sb, Poly.leaf(('param', 5)))
                    ok = ok and nosite(a2[2]) in lv
        ctx.check(ok, R, key + '::shade_span|fetch', sb.loc(), 'dest[i] = %s::<Fetch>(image, xfm(x+i, y))' % fetch,
                  '%s::shade_span does not store %s::<Fetch>(self.image, xfm.transform(x, y)) for consecutive x at row y into dest[0..count]' % (ty, fetch))
        n += 1
    ctx.floor(R, 'transformed image shaders', n, 4)


def r13_3(ctx):
    R = 'R13.3'
    # Repeat: both axes reduced with rem_euclid by their own dimension
    q = '<raqote::blitter::ImageRepeatAlphaShader as raqote::blitter::Shader>::shade_span'
    b = ctx.body(q, R)
    an = ctx.an(b)
    key = 'blitter::ImageRepeatAlphaShader::shade_span'
    rems = [ct for bi, d, ct in calls_in(ctx, b) if d and d.endswith('rem_euclid')]
    axes = {}
    for ct in rems:
        num = poly(ct[2][0])
        den = strip_all(ct[2][1])
        r, nm = field_path(den)
        if r == ('param', 1) and nm[:1] == ['image'] and nm[-1] in ('width', 'height'):
            axes[nm[-1]] = num
    SX = Poly.leaf(('param', 2)) + Poly.leaf(('field', ('deref', ('param', 1)), 'offset_x', 'raqote::blitter::ImageRepeatAlphaShader', None))
    SY = Poly.leaf(('param', 3)) + Poly.leaf(('field', ('deref', ('param', 1)), 'offset_y', 'raqote::blitter::ImageRepeatAlphaShader', None))
    ok = axes.get('width') == SX and axes.get('height') == SY
    ctx.check(ok, R, key + '|wrap both axes', b.loc(), 'x = (x+offset_x).rem_euclid(width), y = (y+offset_y).rem_euclid(height)',
              'the repeat shader does not reduce x + offset_x by image.width and y + offset_y by image.height with rem_euclid (negative coordinates must wrap too): found %s' % {k2: v.show(b) for k2, v in axes.items()})
    # source slice start = width*y + x ; run length = min(count, width - x); x restarts at 0
    starts = []
    for bi, d, ct in calls_in(ctx, b):
        if d and d.endswith('Index::index') and ct[2][1][0] == 'agg' and (ct[2][1][2] or '').endswith('ops::Range'):
            base = strip_all(ct[2][0])
            r, nm = field_path(base)
            if nm[-1:] == ['data']:
                starts.append(dict(ct[2][1][4]))
    ok = len(starts) == 1
    if ok:
        st = poly(starts[0]['start'])
        # width * Y + X where Y is the rem_euclid result for height and X a phi
        lv = st.leaves()
        ok = any(is_call(l, 'rem_euclid') for l in lv) and any(l[0] == 'field' and l[2] == 'width' for l in lv) and any(l[0] == 'phi' for l in lv)
    ctx.check(ok, R, key + '|row index', b.loc(), 'source run starts at width*y + x', 'the repeat shader does not read its run at image.width * y + x')
    # Pad
    q = '<raqote::blitter::ImagePadAlphaShader as raqote::blitter::Shader>::shade_span'
    b = ctx.body(q, R)
    an = ctx.an(b)
    key = 'blitter::ImagePadAlphaShader::shade_span'
    # y is clamped on both sides: the y local has defs `0` guarded by y < 0 and `height - 1` guarded by y >= height
    # the row variable: whatever is multiplied by the image width in the texel indices (the y parameter re-assigned, or
    # a shadowing local)
    ylocals = set()
    for bi0, d0, ct0 in calls_in(ctx, b):
        if d0 and d0.endswith('sw_composite::alpha_mul'):
            for base0, idx0 in dt.elem_reads(ct0[2][0]):
                if field_path(base0)[1][-1:] == ['data']:
                    p0 = poly(idx0)
                    for mono in p0.d:
                        if any(l[0] == 'field' and l[2] == 'width' for l in mono):
                            for l in mono:
                                if l[0] in ('phi', 'param', 'mem'):
                                    ylocals.add(l[1])
    if not ylocals:
        ylocals = {3}
    ydefs = [d for yl0 in ylocals for d in an.defs_of.get(yl0, []) if d.kind == 'assign']
    lo = hi = False
    for d in ydefs:
        t = an.def_term(d)
        gs = normalized_guards(ctx, b, d.bb)
        if t[0] == 'const' and t[2] == '0':
            lo = any(op == 'Lt' and const_val(b2) == 0 for op, a, b2, si in gs)
        p = poly(t)
        hl = [l for l in p.leaves() if l[0] == 'field' and l[2] == 'height']
        if len(hl) == 1 and p == Poly.leaf(hl[0]) - Poly.const(1):
            hi = any(op in ('Ge', '!Lt') and b2 is not None and strip_all(b2) == hl[0] for op, a, b2, si in gs)
    ctx.check(lo and hi, R, key + '|y clamped', b.loc(), 'y clamped to [0, height-1]', 'the pad shader does not clamp the row to 0 below and to height - 1 above before indexing (lower clamp: %s, upper clamp: %s)' % (lo, hi))
    # element reads of image.data: column forms {0, width-1} for the edge runs
    cols = set()
    for bi, d, ct in calls_in(ctx, b):
        if d and d.endswith('sw_composite::alpha_mul'):
            for base, idx in dt.elem_reads(ct[2][0]):
                r, nm = field_path(base)
                if nm[-1:] == ['data']:
                    p = poly(idx)
                    wl = [l for l in p.leaves() if l[0] == 'field' and l[2] == 'width']
                    yl = [l for l in p.leaves() if l[0] in ('phi', 'param', 'mem') and l[1] in ylocals]
                    if len(wl) == 1 and len(yl) == 1:
                        W, Y = Poly.leaf(wl[0]), Poly.leaf(yl[0])
                        if p == W * Y:
                            cols.add('first')
                        elif p == W * Y + W - Poly.const(1):
                            cols.add('last')
                        else:
                            cols.add('other:' + p.show(b))
    ctx.check(cols == {'first', 'last'}, R, key + '|edge columns', b.loc(), 'left run reads column 0, right run column width-1 of the clamped row', 'the pad shader\'s edge runs read columns %s, expected column 0 (left) and width-1 (right) of row y' % sorted(cols))
    # every loop that writes dest advances dest_x and decrements count together
    ok = True
    cfg = an.cfg
    for h, blocks in cfg.loops().items():
        writes = [pt for a2, v, pt, kind in an.stores if kind == 'assign' and pt[0] in blocks and a2[0] == 'index']
        if not writes:
            continue
        def updated(local_pred):
            marked = set()
            for d in an.defs:
                if d.kind == 'assign' and d.bb in blocks and local_pred(d):
                    marked.add(d.bb)
            return not cfg.cyclic_without(blocks, marked)
        names = {i: (b.locals[i].get('name') or '') for i in range(len(b.locals))}
        ok = ok and updated(lambda d: names[d.local] == 'dest_x' or (an.def_term(d)[0] == 'bin' and an.def_term(d)[1] == 'Add' and d.local not in (2,))) and updated(lambda d: d.local == 5)
    ctx.check(ok, R, key + '|runs advance', b.loc(), 'every writing loop advances the output index and decrements count on each cycle', 'a run of the pad shader writes dest without advancing the output index and count on every cycle')


def r13_5(ctx):
    """is_integer_transform: Some((x, y)) only for the identity linear part and an integer translation"""
    R = 'R13.5'
    b = ctx.body('raqote::blitter::is_integer_transform', R)
    an = ctx.an(b)
    key = 'blitter::is_integer_transform'
    somes = []
    for bi, k2, s in b.statements():
        if s['k'] == 'assign' and s['rv']['k'] == 'agg' and s['rv'].get('v') == 'Some' and bi in an.cfg.reach:
            somes.append((bi, an.rvalue_term(bi, k2, s['rv'])))
    if not ctx.check(len(somes) == 1, R, key + '|one Some', b.loc(), 'one Some(..) result', 'expected exactly one Some(..) result, found %d' % len(somes)):
        return
    bi, t = somes[0]
    def m(t2, name):
        r, nm = field_path(strip_casts(t2, ()))
        return r == ('param', 1) and nm == [name]
    def trunc(t2, name):
        return t2[0] == 'cast' and t2[1] == 'FloatToInt' and m(t2[3], name)
    pt = strip_all(t[4][0][1])
    okp = is_call(pt, 'Point2D::<T, U>::new') and trunc(pt[2][0], 'm31') and trunc(pt[2][1], 'm32')
    ctx.check(okp, R, key + '|offset', b.loc(), 'Some((m31 as i32, m32 as i32))', 'the integer offset returned is %s, expected (m31 as i32, m32 as i32)' % fmt(b, pt))
    gs = shared.facts_at(ctx, b, bi)
    need = {'m11': 1.0, 'm12': 0.0, 'm21': 0.0, 'm22': 1.0}
    for name, val in need.items():
        ok = any(op == 'Eq' and ((m(a, name) and const_val(b2) == val) or (b2 is not None and m(b2, name) and const_val(a) == val)) for op, a, b2, si in gs)
        ctx.check(ok, R, key + '|%s == %g' % (name, val), b.loc(), '%s == %g holds where Some is returned' % (name, val),
                  'is_integer_transform returns Some without testing %s == %g: a matrix with a non-identity linear part (shear/scale) is taken for an integer translation and drawn with the untransformed image fast path' % (name, val))
    for name in ('m31', 'm32'):
        def rt(t2):
            return t2[0] == 'cast' and t2[1] == 'IntToFloat' and trunc(t2[3], name)
        ok = any(op == 'Eq' and ((rt(a) and b2 is not None and m(b2, name)) or (b2 is not None and rt(b2) and m(a, name))) for op, a, b2, si in gs)
        ctx.check(ok, R, key + '|%s integral' % name, b.loc(), '(%s as i32) as f32 == %s holds where Some is returned' % (name, name),
                  'is_integer_transform returns Some without testing that %s is an integer (round trip through i32 compared with %s itself): a fractional translation would be truncated by the integer fast path' % (name, name))


def _r18_2(ctx):
    import props.c18 as c18
    c18.r18_2(ctx)


_r18_2.__name__ = 'r18_2'


def _r12_2(ctx):
    import props.c12 as c12
    c12.r12_2(ctx)


_r12_2.__name__ = 'r12_2'


def run(ctx):
    import engine
    import props.c11 as c11
    import statecoh
    engine.run_rules(ctx, [r13_1, r13_2, r13_3, r13_4, r13_5, dt.r02_6, dt.r03_11, _r18_2, _r12_2, c11.r11_2, c11.r11_7, c11.r11_8, statecoh.r10_6])
