"""C16 — flattening preserves geometry and subpath structure."""
from util import *
from terms import fmt, subterms, Deps
import shared

META = {
    'explanation': 'Static rules over the MIR of Path::flatten: R16.1 the only ops pushed to the result are the incoming op in the '
                   'MoveTo/LineTo/Close arms and PathOp::LineTo in the curve arms; R16.2 cursor law: the Close arm re-assigns the cursor '
                   'from a value that (data-)depends on a MoveTo payload (the subpath start), never from a constant or not at all, and a '
                   'curve starts at the cursor, falling back to its first control point only when there is none; R16.3 each curve is '
                   'delegated to lyon as {from: cursor, ctrl(s), to} in payload order with the tolerance parameter, every yielded point is '
                   'pushed as LineTo and the cursor becomes the end point; R16.4 the result keeps the winding rule of the input.',
    'decides': ['R16.1 output alphabet', 'R16.2 cursor law (Close returns to the subpath start)', 'R16.3 faithful delegation of curves', 'R16.4 winding rule preserved', 'R16.5 a curve that begins a subpath emits its starting point', 'R16.6 cursor implies recorded subpath start (typestate over the two Option locals)'],
    'does_not_decide': ['deviation <= 8 x tolerance, points lying on the curve in parameter order (lyon_geom)', 'float rounding'],
    'assumptions': ['lyon_geom QuadraticBezierSegment/CubicBezierSegment::flattened(tol) yields points on the curve in order ending at `to` (external, lyon_geom 1.0.19)'],
    'trusted_base': ['lyon_geom 1.0.19'],
}

PATHOP = 'raqote::path_builder::PathOp'
FLATTEN = 'raqote::path_builder::Path::flatten'


def op_match(ctx, b, R, key):
    ms = [m for m in matches(ctx, b, 'PathOp')]
    if len(ms) != 1:
        ctx.fail(R, key + '|match', b.loc(), 'expected exactly one match on a PathOp, found %d: cannot recover the arms (fail closed)' % len(ms))
        return None
    return ms[0]


def arms_containing(an, m, bb):
    return sorted(v for v, tgt in m.arms.items() if bb in arm_region(an.cfg, m.bb, tgt))


def payload(t, variant, k):
    """t reads payload k of the matched op of the given variant"""
    t = strip_all(t)
    return t[0] == 'field' and t[2] == str(k) and t[3] == PATHOP and t[4] == variant


def result_local(ctx, b):
    """the local returned by flatten (a Path aggregate)"""
    an = ctx.an(b)
    for r in an.cfg.returns:
        for k, s in enumerate(b.blocks[r]['st']):
            if s['k'] == 'assign' and s['p']['l'] == 0 and not s['p']['pr'] and s['rv']['k'] == 'use' and s['rv']['o']['k'] in ('move', 'copy'):
                return s['rv']['o']['p']['l']
    return None


def ops_target(ctx, b):
    """predicate on the receiver of a push: is it the op vector of the path that flatten returns?  Either `result.ops`
    of the Path local that is returned, or a vector local that becomes the `ops` field of the returned Path aggregate.
    None when neither form is found."""
    an = ctx.an(b)
    res = result_local(ctx, b)
    if res is not None and (b.locals[res].get('ty') or '').endswith('Path'):
        return lambda tgt: (field_path(tgt)[0] == ('mem', res) or field_path(tgt)[0] == ('param', 0)) and field_path(tgt)[1][:1] == ['ops']
    vec = None
    for t in shared.ret_terms(ctx, b):
        t = strip_all(t)
        if t[0] == 'agg' and (t[2] or '').endswith('path_builder::Path'):
            o = strip_all(dict(t[4]).get('ops', ('unknown',)))
            if o[0] in ('mem', 'phi'):
                vec = o[1]
    if vec is None and res is not None:
        # `_0 = move tmp` where tmp = Path{ops: move v, ..}
        for d in an.defs_of.get(res, []):
            if d.kind == 'assign' and not d.partial:
                t = strip_all(an.def_term(d))
                if t[0] == 'agg' and (t[2] or '').endswith('path_builder::Path'):
                    o = strip_all(dict(t[4]).get('ops', ('unknown',)))
                    if o[0] in ('mem', 'phi'):
                        vec = o[1]
    if vec is None:
        return None
    return lambda tgt: field_path(tgt) == (('mem', vec), []) or field_path(tgt) == (('phi', vec), [])


def cursor_locals(ctx, b, m):
    """locals assigned Some(<LineTo payload>)"""
    an = ctx.an(b)
    cand = {}
    for d in an.defs:
        if d.kind != 'assign' or d.partial or not b.locals[d.local].get('name'):
            continue      # compiler temporaries are not state
        t = an.def_term(d)
        if t[0] == 'agg' and t[2] and t[2].endswith('Option') and t[3] == 'Some':
            v = t[4][0][1]
            D = Deps(an)
            D.closure(v)
            if any(payload(x, 'LineTo', 0) for x in D.visited):
                cand.setdefault(d.local, set()).add(d.bb)
    # state lives across ops: it is initialised before the op loop (a temporary inside one arm is not the cursor)
    arm_blocks = set()
    for tgt in m.arms.values():
        arm_blocks |= arm_region(an.cfg, m.bb, tgt)
    cand = {l: bl for l, bl in cand.items() if any(d.bb not in arm_blocks and d.bb != m.bb and d.kind != 'param' for d in an.defs_of.get(l, []))}
    # the cursor is updated on *every* path through the LineTo arm (a subpath-start record is only set conditionally)
    out = set()
    if 'LineTo' in m.arms:
        stop = an.cfg.ipdom(m.bb)
        for l, blocks in cand.items():
            ok, _ = an.cfg.must_pass_through(m.arms['LineTo'], blocks, exits=[stop] if stop is not None else None)
            if ok:
                out.add(l)
    return out


def r16_1(ctx, b, m):
    R = 'R16.1'
    an = ctx.an(b)
    is_ops = ops_target(ctx, b)
    key = 'path_builder::Path::flatten'
    if is_ops is None:
        ctx.fail(R, key + '|result', b.loc(), 'cannot find the op vector of the path returned by flatten (fail closed)')
        return
    n = 0
    for bi, d, ct in calls_in(ctx, b):
        if not (d and d.endswith('Vec::<T, A>::push')):
            continue
        tgt = strip_all(ct[2][0])
        if not is_ops(tgt):
            continue
        n += 1
        v = strip_all(ct[2][1])
        arms = arms_containing(an, m, bi)
        k = key + '|push in arms %s' % '/'.join(arms)
        if v[0] == 'agg' and v[2] == PATHOP:
            ctx.check(v[3] == 'LineTo', R, k, call_line(b, bi), 'pushes PathOp::LineTo', 'pushes PathOp::%s into the flattened path' % v[3])
        elif is_call(v, 'Clone::clone') or v[0] in ('deref', 'field', 'phi', 'param'):
            src = strip_all(v[2][0]) if v[0] == 'call' else v
            flat = set(arms) <= {'MoveTo', 'LineTo', 'Close'} and arms
            ctx.check(bool(flat), R, k, call_line(b, bi), 'incoming op forwarded only in flat arms %s' % arms,
                      'the incoming op is pushed unchanged in arm(s) %s: a curve op can reach the flattened path' % arms)
        else:
            ctx.fail(R, k, call_line(b, bi), 'pushes %s: neither the incoming op nor a LineTo' % fmt(b, v))
    ctx.floor(R, 'pushes into the result', n, 4)
    stop = an.cfg.ipdom(m.bb)
    for v in ('MoveTo', 'LineTo', 'Close'):
        if v not in m.arms:
            ctx.fail(R, key + '|arm ' + v, b.loc(), 'no %s arm' % v)
            continue
        region = arm_region(an.cfg, m.bb, m.arms[v])
        fw = set()
        for bi, d, ct in calls_in(ctx, b, region):
            if d and d.endswith('Vec::<T, A>::push'):
                if is_ops(strip_all(ct[2][0])):
                    fw.add(bi)
        okf, pth = an.cfg.must_pass_through(m.arms[v], fw, exits=[stop] if stop is not None else None)
        ctx.check(okf and bool(fw), R, key + '|%s forwarded on every path' % v, b.loc(), 'every path through the %s arm pushes the op' % v,
                  'the %s arm can be left without pushing the op into the flattened path (blocks %s): ops are dropped' % (v, pth))


def r16_2(ctx, b, m):
    R = 'R16.2'
    an = ctx.an(b)
    key = 'path_builder::Path::flatten'
    curs = cursor_locals(ctx, b, m)
    if not ctx.check(len(curs) >= 1, R, key + '|cursor', b.loc(), 'cursor local(s): %s' % [b.local_name(l) for l in curs], 'no local is assigned Some(LineTo payload): cannot recover the cursor (fail closed)'):
        return
    if 'Close' not in m.arms:
        ctx.fail(R, key + '|close-arm', b.loc(), 'no Close arm found')
        return
    region = arm_region(an.cfg, m.bb, m.arms['Close'])
    for cur in sorted(curs):
        defs = [d for d in an.defs_of.get(cur, []) if d.bb in region]
        name = b.local_name(cur)
        k = key + '|Close re-seats cursor'
        if not defs:
            ctx.fail(R, k, b.loc(), 'the Close arm leaves the cursor `%s` at the last vertex: ops after Close do not start at the subpath start' % name)
            continue
        for d in defs:
            t = an.def_term(d)
            D = Deps(an)
            D.closure(t)
            from_start = any(payload(x, 'MoveTo', 0) for x in D.visited)
            loc = b.loc(d.node['sp'])
            ctx.check(from_start, R, k, loc, 'Close sets `%s` from a value derived from the MoveTo payload' % name,
                      'the Close arm sets the cursor `%s` to %s, which does not derive from the subpath start (MoveTo payload): a curve or line after Close starts at the wrong point' % (name, fmt(b, t)))
    # the start record the Close arm returns to is re-seated by *every* MoveTo, on every path
    starts = set()
    for cur in sorted(curs):
        for d in an.defs_of.get(cur, []):
            if d.bb in region and d.kind in ('assign', 'local') and not d.partial:
                t = an.def_term(d)
                if t[0] in ('phi', 'rec', 'mem') and (t[0] == 'rec' or t[1] != cur):
                    starts.add(t[1] if t[0] in ('phi', 'mem') else an.defs[t[1]].local)
    if 'MoveTo' in m.arms and starts:
        mregion = arm_region(an.cfg, m.bb, m.arms['MoveTo'])
        stop = an.cfg.ipdom(m.bb)
        for st in sorted(starts):
            blocks = set()
            for d in an.defs_of.get(st, []):
                if d.bb in mregion and d.kind in ('assign', 'local') and not d.partial:
                    t = an.def_term(d)
                    if t[0] == 'agg' and t[3] == 'Some' and payload(t[4][0][1], 'MoveTo', 0):
                        blocks.add(d.bb)
            ok, _p = an.cfg.must_pass_through(m.arms['MoveTo'], blocks, exits=[stop] if stop is not None else None)
            ctx.check(ok and bool(blocks), R, key + '|MoveTo re-seats the start', b.loc(), 'every MoveTo sets `%s` = Some(its point) on every path' % b.local_name(st),
                      'the MoveTo arm does not set the subpath-start record `%s` to its own point on every path (e.g. only when there is no current point): Close of a later subpath returns to an earlier subpath\'s start' % b.local_name(st))
    elif 'MoveTo' in m.arms:
        ctx.fail(R, key + '|MoveTo re-seats the start', b.loc(), 'cannot identify the subpath-start record the Close arm returns to (fail closed)')
    # curve arms: from = cursor, else first control point
    for v, seg, first in (('QuadTo', 'QuadraticBezierSegment', 'ctrl'), ('CubicTo', 'CubicBezierSegment', 'ctrl1')):
        if v not in m.arms:
            ctx.fail(R, key + '|arm ' + v, b.loc(), 'no %s arm' % v)
            continue
        region = arm_region(an.cfg, m.bb, m.arms[v])
        segs = []
        for bi, k2, s in b.statements():
            if bi in region and s['k'] == 'assign' and s['rv']['k'] == 'agg' and s['rv'].get('adt', '').endswith(seg):
                segs.append((bi, k2, an.rvalue_term(bi, k2, s['rv']), s))
        if not ctx.check(len(segs) == 1, R, key + '|%s segment' % v, b.loc(), 'one %s aggregate' % seg, 'expected one %s aggregate in the %s arm, found %d' % (seg, v, len(segs))):
            continue
        bi, k2, st, s = segs[0]
        f = dict(st[4])
        fr = strip_all(f['from'])
        ok = False
        if is_call(fr, 'unwrap_or') and len(fr[2]) == 2:
            a0 = fr[2][0]
            is_cursor = (a0[0] == 'phi' and a0[1] in curs) or (a0[0] == 'mem' and a0[1] in curs)
            ok = is_cursor and payload(fr[2][1], v, 0)
        elif fr[0] == 'phi' and len(fr[2]) == 2:
            # the same choice written as a match: Some(p) => p, None => first control point
            some_ok = none_ok = False
            for i2 in fr[2]:
                d2 = an.defs[i2]
                if d2.kind != 'assign':
                    continue
                t2 = strip_all(an.def_term(d2))
                vg = variant_guards(ctx, b, d2.bb)
                def on(variant):
                    return any(vv == variant and strip_all(scr)[0] in ('phi', 'mem') and strip_all(scr)[1] in curs for scr, adt, vv, sb in vg)
                if t2[0] == 'field' and t2[2] == '0' and t2[4] == 'Some' and strip_all(t2[1])[0] in ('phi', 'mem') and strip_all(t2[1])[1] in curs and on('Some'):
                    some_ok = True
                if payload(t2, v, 0) and on('None'):
                    none_ok = True
            ok = some_ok and none_ok
        else:
            D = Deps(an)
            D.closure(fr)
            ok = any((x[0] in ('phi', 'mem') and x[1] in curs) for x in D.visited)
        ctx.check(ok, R, key + '|%s from' % v, b.loc(s['sp']), '%s starts at cursor.unwrap_or(first control point)' % v,
                  '%s segment starts at %s, not at the cursor (falling back to its first control point)' % (v, fmt(b, fr)))


def r16_3(ctx, b, m):
    R = 'R16.3'
    an = ctx.an(b)
    key = 'path_builder::Path::flatten'
    curs = cursor_locals(ctx, b, m)
    spec = {'QuadTo': ('QuadraticBezierSegment', [('ctrl', 0), ('to', 1)], 1), 'CubicTo': ('CubicBezierSegment', [('ctrl1', 0), ('ctrl2', 1), ('to', 2)], 2)}
    for v, (seg, fields, last) in spec.items():
        if v not in m.arms:
            continue
        region = arm_region(an.cfg, m.bb, m.arms[v])
        st = None
        for bi, k2, s in b.statements():
            if bi in region and s['k'] == 'assign' and s['rv']['k'] == 'agg' and s['rv'].get('adt', '').endswith(seg):
                st = an.rvalue_term(bi, k2, s['rv'])
                sp = s['sp']
        if st is None:
            ctx.fail(R, key + '|%s segment' % v, b.loc(), 'no %s aggregate in the %s arm' % (seg, v))
            continue
        f = dict(st[4])
        for fname, k in fields:
            ctx.check(payload(f[fname], v, k), R, key + '|%s.%s' % (v, fname), b.loc(sp), '%s.%s = payload %d' % (seg, fname, k),
                      '%s.%s is %s, expected payload %d of %s' % (seg, fname, fmt(b, f[fname]), k, v))
        # flattened(&c, tolerance)
        fl = [(bi, ct) for bi, d, ct in calls_in(ctx, b, region) if d and d.endswith('::flattened')]
        if ctx.check(len(fl) == 1, R, key + '|%s flattened' % v, b.loc(sp), 'one flattened() call', 'expected one flattened() call in the %s arm, found %d' % (v, len(fl))):
            bi, ct = fl[0]
            def is_tolerance(t):
                # the tolerance parameter itself, or clamped from below by a constant no larger than one f32 ulp at magnitude 1
                # (lyon_geom refuses tolerances below 1e-8; a clamp at e.g. 0.01 would stop the deviation from shrinking)
                t = strip_all(t)
                if t == ('param', 2):
                    return True
                if t[0] in ('phi', 'rec'):
                    ds = an.phi_terms(t) if t[0] == 'phi' else [an.def_term(an.defs[t[1]])]
                    return bool(ds) and all(is_tolerance(x) for x in ds)
                if t[0] == 'call' and isinstance(t[1], str) and t[1].endswith('::max') and len(t[2]) == 2:
                    a0, a1 = strip_all(t[2][0]), strip_all(t[2][1])
                    for x, c in ((a0, a1), (a1, a0)):
                        cv = const_val(c)
                        if is_tolerance(x) and isinstance(cv, float) and 0. <= cv <= 1.2e-7:
                            return True
                return False
            ctx.check(strip_all(ct[2][0]) == st and is_tolerance(ct[2][1]), R, key + '|%s flattened args' % v, call_line(b, bi),
                      'flattened(segment, tolerance)', 'flattened() is called as %s, expected (the segment built from the op, the tolerance parameter — at most clamped from below by a constant <= 1.2e-7)' % fmt(b, ct))
            # nothing between flattened() and the pushes may drop points
            DROPPING = ('Iterator::take', 'Iterator::skip', 'Iterator::step_by', 'Iterator::filter', 'Iterator::filter_map', 'Iterator::take_while',
                        'Iterator::skip_while', 'Iterator::nth', 'Iterator::last', 'Iterator::find', 'Iterator::advance_by', 'Iterator::map_while')
            for abi, ad, act in calls_in(ctx, b, region):
                if ad and any(ad.endswith(x) for x in DROPPING) and act[2]:
                    DD = Deps(an)
                    DD.closure(act[2][0])
                    if any(is_call(x, '::flattened') for x in list(DD.visited) + [strip_all(act[2][0])] for x in [x] if isinstance(x, tuple)) or any(is_call(y, '::flattened') for y in subterms(act[2][0])):
                        ctx.fail(R, key + '|%s flattened points dropped' % v, call_line(b, abi),
                                 'the points of the flattened %s pass through %s before they are pushed: points of the curve are dropped, the polyline leaves the curve by more than the tolerance where they are missing' % (v, ad.split('::')[-1]))
            # pushes in the arm: LineTo{0: payload of next() on the iterator of flattened}
            def from_next(pct):
                pv0 = strip_all(pct[2][1])
                if pv0[0] != 'agg' or not pv0[4]:
                    return False
                p0 = strip_all(pv0[4][0][1])
                return p0[0] == 'field' and p0[4] == 'Some' and is_call(p0[1], 'Iterator::next')
            pushes = [(pb, pct) for pb, d, pct in calls_in(ctx, b, region) if d and d.endswith('Vec::<T, A>::push') and from_next(pct)]
            okp = len(pushes) == 1
            # the same loop as an internal iteration: flattened(..).for_each(|l| ops.push(LineTo(l)))
            # ... or ops.extend(flattened(..).map(PathOp::LineTo)): every yielded point wrapped by the LineTo constructor
            exts = [(fb, fct) for fb, d, fct in calls_in(ctx, b, region) if d and d.endswith('Extend::extend') and len(fct[2]) == 2]
            if not pushes and len(exts) == 1:
                src = strip_all(exts[0][1][2][1])
                okx = is_call(src, 'Iterator::map') and strip_all(src[2][0]) == ct
                if okx:
                    fn_t = strip_all(src[2][1])
                    okx = fn_t[0] == 'fn' and 'PathOp::LineTo' in str(fn_t[1])
                tgt = strip_all(exts[0][1][2][0])
                rr, nn = field_path(tgt)
                okx = okx and nn[-1:] == ['ops'] and an.cfg.must_pass_through(m.arms[v], set([exts[0][0]]), exits=[an.cfg.ipdom(m.bb)] if an.cfg.ipdom(m.bb) is not None else None)[0]
                ctx.check(okx, R, key + '|%s every point pushed' % v, call_line(b, bi), 'every yielded point is appended as LineTo (extend + map)',
                          'the %s arm does not push every point yielded by flattened() as a LineTo' % v)
                okp = None
            fes = [(fb, fct) for fb, d, fct in calls_in(ctx, b, region) if d and d.endswith('Iterator::for_each') and strip_all(fct[2][0]) == ct]
            if not pushes and len(fes) == 1 and okp is not None:
                clo = strip_all(fes[0][1][2][1])
                if clo[0] == 'mem':
                    clo = shared.resolve_mem(an, clo)
                okc2 = False
                if clo[0] == 'agg' and clo[1] == 'closure':
                    cbody = ctx.F.body(clo[2])
                    if cbody is not None:
                        can = ctx.an(cbody)
                        cps = [(pb, pct) for pb, d, pct in calls_in(ctx, cbody) if d and d.endswith('Vec::<T, A>::push')]
                        if len(cps) == 1:
                            pv = strip_all(cps[0][1][2][1])
                            okv = pv[0] == 'agg' and pv[3] == 'LineTo' and strip_all(pv[4][0][1]) == ('param', 2)
                            okpath = can.cfg.must_pass_through(0, set([cps[0][0]]))[0]
                            # the vector pushed to is the captured ops of the result
                            ups = [strip_all(x[1]) for x in clo[4]]
                            is_ops2 = ops_target(ctx, b)
                            def _peel(u):
                                u = strip_all(u)
                                while u[0] in ('ref', 'deref'):
                                    u = strip_all(u[1])
                                return u
                            okup = is_ops2 is not None and any(is_ops2(_peel(u)) or (field_path(_peel(u))[1][:1] != ['ops'] and is_ops2(('field', _peel(u), 'ops', None, None))) for u in ups)
                            okc2 = okv and okpath and okup and an.cfg.must_pass_through(m.arms[v], set([fes[0][0]]), exits=[an.cfg.ipdom(m.bb)] if an.cfg.ipdom(m.bb) is not None else None)[0]
                ctx.check(okc2, R, key + '|%s every point pushed' % v, call_line(b, bi), 'every yielded point is pushed as LineTo (for_each)',
                          'the %s arm does not push every point yielded by flattened() as a LineTo' % v)
                okp = None
            if okp:
                pv = strip_all(pushes[0][1][2][1])
                okp = pv[0] == 'agg' and pv[3] == 'LineTo'
                if okp:
                    pt = strip_all(pv[4][0][1])
                    # Some.0 of Iterator::next(iter) where iter derives from flattened()
                    okp = pt[0] == 'field' and pt[4] == 'Some' and is_call(pt[1], 'Iterator::next')
                    if okp:
                        D = Deps(an)
                        D.closure(pt[1][2][0])
                        okp = any(x == ct for x in D.visited)
                # the push is on the loop's continue edge: its block is in a cycle with the next() call
                if okp:
                    nb = pt[1][3]
                    cyc = an.cfg.can_reach(pushes[0][0], [nb]) and an.cfg.can_reach(nb, [pushes[0][0]])
                    okp = cyc
            if okp is not None:
                ctx.check(okp, R, key + '|%s every point pushed' % v, call_line(b, bi), 'every yielded point is pushed as LineTo',
                          'the %s arm does not push every point yielded by flattened() as a LineTo' % v)
        # cursor := Some(end point) somewhere in the arm
        okc = False
        for cur in curs:
            for d in an.defs_of.get(cur, []):
                if d.bb in region:
                    t = an.def_term(d)
                    if t[0] == 'agg' and t[3] == 'Some' and payload(t[4][0][1], v, last):
                        okc = True
        okc_blocks = set()
        for cur in curs:
            for d in an.defs_of.get(cur, []):
                if d.bb in region:
                    t = an.def_term(d)
                    if t[0] == 'agg' and t[3] == 'Some' and payload(t[4][0][1], v, last):
                        okc_blocks.add(d.bb)
        ctx.check(okc, R, key + '|%s cursor:=end' % v, b.loc(sp), 'cursor := Some(end point)', 'after a %s the cursor is not set to its end point (payload %d)' % (v, last))
        # ... on every path through the arm: no early-out skips the curve or leaves the cursor behind
        stop = an.cfg.ipdom(m.bb)
        exits = [stop] if stop is not None else None
        if fl:
            okf, pth = an.cfg.must_pass_through(m.arms[v], set(x[0] for x in fl), exits=exits)
            ctx.check(okf, R, key + '|%s flattened on every path' % v, b.loc(sp), 'every path through the %s arm flattens the curve' % v,
                      'the %s arm can be left without flattening the curve (blocks %s): for some inputs (e.g. a curve whose end point equals its start, which is a loop, not an empty segment) the curve is dropped from the flattened path' % (v, pth))
        if okc_blocks:
            okp2, pth = an.cfg.must_pass_through(m.arms[v], okc_blocks, exits=exits)
            ctx.check(okp2, R, key + '|%s cursor:=end on every path' % v, b.loc(sp), 'every path through the %s arm sets the cursor to the end point' % v,
                      'the %s arm can be left without setting the cursor to the curve\'s end point (blocks %s)' % (v, pth))


def r16_5(ctx, b, m):
    """a curve that begins a subpath (no cursor) emits its own starting point before the flattened points"""
    R = 'R16.5'
    an = ctx.an(b)
    key = 'path_builder::Path::flatten'
    res = result_local(ctx, b)
    for v in ('QuadTo', 'CubicTo'):
        if v not in m.arms:
            continue
        region = arm_region(an.cfg, m.bb, m.arms[v])
        ok = False
        for bi, d, ct in calls_in(ctx, b, region):
            if not (d and d.endswith('Vec::<T, A>::push')):
                continue
            pv = strip_all(ct[2][1])
            if pv[0] != 'agg' or pv[3] not in ('LineTo', 'MoveTo'):
                continue
            pt = strip_all(pv[4][0][1])
            starts_here = payload(pt, v, 0) or (is_call(pt, 'unwrap_or') and payload(pt[2][1], v, 0))
            if not starts_here:
                continue
            # only when there is no cursor
            gs = normalized_guards(ctx, b, bi)
            vg = variant_guards(ctx, b, bi)
            none_guard = any(op == 'true' and is_call(g, 'Option::<T>::is_none') for op, g, b2, si in gs) or any(vv == 'None' for scr, adt, vv, sb in vg)
            # and before the loop that pushes the flattened points
            fl = [bb for bb, dd, cc in calls_in(ctx, b, region) if dd and dd.endswith('::flattened')]
            before = all(an.cfg.can_reach(bi, [f]) for f in fl) if fl else False
            if none_guard and before:
                ok = True
        ctx.check(ok, R, key + '|%s starting a subpath emits its start' % v, b.loc(), 'no cursor: the curve\'s starting point (its first control point) is pushed before the flattened points',
                  'when a %s is the first op of a subpath (no current point) flatten pushes only the points after the curve\'s start: the polyline does not begin at the curve\'s true starting point (its first control point), so the flattened path starts at the first interior point instead' % v)


def r16_6(ctx, b, m):
    """subpath protocol: between ops, whenever flatten has a cursor it also has a recorded subpath start (so that Close
    returns to it); decided by abstract interpretation of the two Option locals over {None, Some}"""
    import typestate
    import sd
    R = 'R16.6'
    key = 'path_builder::Path::flatten'
    cs = sd.cursor_and_start(ctx, b, m)
    if not ctx.check(cs is not None, R, key + '|cursors', b.loc(), 'cursor and subpath-start record found', 'cannot identify the cursor and the subpath-start record of flatten (fail closed)'):
        return
    at = typestate.run(ctx, b, list(cs))
    sts = at.get(m.bb, set())
    ctx.check(('N', 'N') in sts and ('S', 'S') in sts, R, key + '|protocol states (positive control)', b.loc(), 'states between ops: %s' % sorted(sts), 'the typestate interpreter does not reach the op loop with the expected states (%s): fail closed' % sorted(sts))
    ctx.check(('S', 'N') not in sts, R, key + '|cursor implies start', b.loc(), 'no op leaves a cursor without a subpath start',
              'an op sequence leaves flatten with a cursor but no recorded subpath start (`%s` Some, `%s` None), e.g. a path that begins with line_to: Close then resets the cursor to None and a curve following Close starts at its own control point instead of the subpath start' % (b.local_name(cs[0]), b.local_name(cs[1])))


def r16_4(ctx, b):
    R = 'R16.4'
    an = ctx.an(b)
    key = 'path_builder::Path::flatten|winding'
    ok = False
    seen = []
    for t in shared.ret_terms(ctx, b):
        D = Deps(an)
        leaves = D.closure(('field', t, 'winding', 'raqote::path_builder::Path', None))
        for l in leaves:
            if l[0] == 'path' and l[1] == ('param', 1) and ('f', 'winding') in l[2]:
                ok = True
        seen += [fmt(b, x) for x in D.visited if x[0] == 'agg' and x[2] and x[2].endswith('Winding')]
    ctx.check(ok, R, key, b.loc(), 'result.winding derives from self.winding',
              'the flattened path\'s winding never derives from self.winding (it is %s): an EvenOdd path loses its rule when flattened' % (sorted(set(seen)) or 'unrelated'))


def run(ctx):
    b = ctx.body(FLATTEN, 'R16')
    m = op_match(ctx, b, 'R16.1', 'path_builder::Path::flatten')
    if m is not None:
        ctx.check(m.otherwise is None, 'R16.1', 'path_builder::Path::flatten|no-wildcard', b.loc(), 'no live wildcard arm', 'the match on the op has a live wildcard arm')
        r16_1(ctx, b, m)
        r16_2(ctx, b, m)
        r16_3(ctx, b, m)
        r16_5(ctx, b, m)
        r16_6(ctx, b, m)
    r16_4(ctx, b)
    import ras
    ras.r08_6(ctx)
    ras.r08_8(ctx)
    ras.r10_4(ctx)
