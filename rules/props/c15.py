"""C15 — surface copies and blends place exactly the requested block."""
from util import *
from terms import fmt, subterms, Deps
import shared
import dt

META = {
    'explanation': 'Static rules over DrawTarget::composite_surface and its three wrappers: R15.1 the row loop\'s rectangle depends on src_rect, '
                   'the source bounds, the destination bounds and dst, and the loop is dominated by !is_empty(); R15.2 placement consistency — '
                   'the vector used to clip the source rectangle against the destination is the same source->destination offset the copy loop '
                   'uses (dest index == source column + Tx + (row + Ty)*width as polynomial forms), it depends on src_rect.min and on dst, the '
                   'second translate undoes the first, and source and destination row slices have the same length; R15.3 neither the function '
                   'nor its callbacks read transform, clip_stack or layer_stack; R15.4 copy_surface = copy_from_slice(src->dst), '
                   'blend_surface = build_blend_proc::<BlendRow>(blend)(src, dst), blend_surface_with_alpha = over_in_row(src, dst, alpha byte).',
    'decides': ['R15.6 composite_surface returns without copying only behind an emptiness test', 'R15.1 clamp chain and emptiness guard', 'R15.2 placement consistency of clipping and copying', 'R15.3 isolation from transform/clip/layers', 'R15.4 wrapper semantics', 'R15.5 every checked integer operation of composite_surface has operands bounded by surface sizes, for all i32 src_rect / dst (no overflow)'],
    'does_not_decide': ['products of the sizes themselves (width*height of a surface that does not fit i32)', 'blend values (sw-composite)'],
    'assumptions': ['euclid Box2D::translate/intersection_unchecked/is_empty (external)', 'sw_composite::over_in_row(src, dst, alpha) = per-pixel over_in (external)'],
    'trusted_base': ['euclid 0.22.14', 'sw-composite 0.7.16'],
}

DT = dt.DT
CS = DT + 'composite_surface'
# composite_surface(self, src, src_rect, dst, f)
P_SRC, P_SRCRECT, P_DST, P_F = 2, 3, 4, 5


def row_call(ctx, b):
    """the f(src_row, dst_row) call: returns (bb, src slice term, dst slice term)"""
    for bi, d, ct in calls_in(ctx, b):
        if d and d.endswith('ops::Fn::call') and strip_all(ct[2][0]) == ('param', P_F):
            tup = ct[2][1]
            if tup[0] == 'agg' and tup[1] == 'tuple' and len(tup[4]) == 2:
                return bi, strip_all(tup[4][0][1]), strip_all(tup[4][1][1])
    return None


def slice_parts(t):
    """(base term, start poly, end poly) of `base[start..end]`"""
    if is_call(t, 'Index::index', 'IndexMut::index_mut') and t[2][1][0] == 'agg' and (t[2][1][2] or '').endswith('ops::Range'):
        f = dict(t[2][1][4])
        return strip_all(t[2][0]), poly(f['start']), poly(f['end'])
    # base[start..][..len] is base[start..start+len]
    if is_call(t, 'Index::index', 'IndexMut::index_mut') and t[2][1][0] == 'agg' and (t[2][1][2] or '').endswith('ops::RangeTo'):
        inner = strip_all(t[2][0])
        if is_call(inner, 'Index::index', 'IndexMut::index_mut') and inner[2][1][0] == 'agg' and (inner[2][1][2] or '').endswith('ops::RangeFrom'):
            st = poly(dict(inner[2][1][4])['start'])
            return strip_all(inner[2][0]), st, st + poly(dict(t[2][1][4])['end'])
    return None


def vec_components(t):
    """(Tx, Ty) polynomials of a vector-valued term: constructor arguments if it is built from components,
    otherwise the opaque leaves T.x / T.y"""
    t = strip_all(t)
    if is_call(t, 'Vector2D::<T, U>::new', 'euclid::vec2') and len(t[2]) == 2:
        return poly(t[2][0]), poly(t[2][1])
    return None


def r15_1(ctx, b, rc):
    R = 'R15.1'
    an = ctx.an(b)
    key = 'draw_target::DrawTarget::composite_surface'
    bi, s, d = rc
    # the y iterated: find the Range feeding the loop that contains the call
    D = Deps(an)
    sp = slice_parts(s)
    dp = slice_parts(d)
    if not ctx.check(sp is not None and dp is not None, R, key + '|row slices', call_line(b, bi), 'f(&src.buf[a..b], &mut self.buf[c..d])', 'the callback is not called on range slices of the two buffers (fail closed)'):
        return None
    sb, ss, se = sp
    db, ds, de = dp
    oks = is_call(sb, 'AsRef::as_ref') and field_path(strip_all(sb[2][0])) == (('param', P_SRC), ['buf'])
    okd = is_call(db, 'AsMut::as_mut') and is_self_field(strip_all(db[2][0]), 'buf')
    ctx.check(oks and okd, R, key + '|buffers', call_line(b, bi), 'reads src.buf, writes self.buf', 'the callback does not get (src.buf slice, self.buf slice) in that order')
    # loop rectangle: y leaf
    leaves = (ss.leaves() | ds.leaves())
    ys = [l for l in leaves if l[0] == 'field' and l[4] == 'Some' and is_call(l[1], 'Iterator::next')]
    counters = [cl for cl in dt.counter_loops(an, b) if cl['var'] in leaves and bi in cl['blocks']]
    if not ctx.check(len(ys) + len(counters) == 1, R, key + '|row variable', call_line(b, bi), 'one row variable', 'cannot identify the row variable of the copy loop (fail closed)'):
        return None
    rect = None
    if ys:
        y = ys[0]
        D.closure(y)
        rng = [(dict(x[4])['start'], dict(x[4])['end']) for x in D.visited if x[0] == 'agg' and x[2] and x[2].endswith('ops::Range')]
    else:
        y = counters[0]['var']
        rng = [(counters[0]['init'], counters[0]['bound'])]
    for r_start, r_end in rng:
        ra, fa = dt.rect_fields(r_start)
        rb, fb = dt.rect_fields(r_end)
        if ra is not None and ra == rb and fa == ['min', 'y'] and fb == ['max', 'y']:
            rect = ra
    if not ctx.check(rect is not None, R, key + '|row range', call_line(b, bi), 'rows iterate R.min.y..R.max.y', 'the copy loop does not iterate min.y..max.y of one rectangle'):
        return None
    D2 = Deps(an)
    lv = D2.closure(rect)
    has = {
        'src_rect': ('param', P_SRCRECT) in lv,
        'dst': ('param', P_DST) in lv,
        'source bounds': any(l[0] == 'path' and l[1] == ('param', P_SRC) and l[2][-1:] == (('f', 'width'),) for l in lv) and any(l[0] == 'path' and l[1] == ('param', P_SRC) and l[2][-1:] == (('f', 'height'),) for l in lv),
        'destination bounds': any(l[0] == 'path' and l[1] == ('param', 1) and l[2][-1:] == (('f', 'width'),) for l in lv) and any(l[0] == 'path' and l[1] == ('param', 1) and l[2][-1:] == (('f', 'height'),) for l in lv),
    }
    # for the two surfaces, depending on their size is not enough (the offset is limited by them too): the rectangle
    # must have been intersected with (0, 0, width, height) of each
    def clamped_by(owner):
        for x in D2.visited:
            if is_call(x, 'Box2D::<T, U>::intersection_unchecked', 'Box2D::<T, U>::intersection') and len(x[2]) == 2:
                for a in x[2]:
                    a = strip_all(a)
                    if is_call(a, 'geom::intrect') and len(a[2]) == 4 and const_val(a[2][0]) == 0 and const_val(a[2][1]) == 0:
                        w, h2 = strip_all(a[2][2]), strip_all(a[2][3])
                        if w[0] == 'field' and w[2] == 'width' and strip_all(w[1]) in (('param', owner), ('deref', ('param', owner))) and h2[0] == 'field' and h2[2] == 'height' and strip_all(h2[1]) in (('param', owner), ('deref', ('param', owner))):
                            return True
        return False
    has['source bounds'] = has['source bounds'] and clamped_by(P_SRC)
    has['destination bounds'] = has['destination bounds'] and clamped_by(1)
    for nm, ok in has.items():
        ctx.check(ok, R, key + '|clamped by ' + nm, call_line(b, bi), 'copied rectangle depends on ' + nm, 'the copied rectangle does not depend on %s: the block is not clamped by it (out-of-bounds rows/columns)' % nm)
    gs = normalized_guards(ctx, b, bi)
    ok = any(op == '!true' and is_call(a, 'is_empty') and strip_all(a[2][0]) == rect for op, a, b2, si in gs)
    ctx.check(ok, R, key + '|empty guard', call_line(b, bi), 'loop dominated by !rect.is_empty()', 'the copy loop is not guarded by an is_empty() test of the clamped rectangle (inverted rectangles reach the slicing)')
    return rect, y, (ss, se), (ds, de)


def r15_2(ctx, b, rc, info):
    R = 'R15.2'
    an = ctx.an(b)
    key = 'draw_target::DrawTarget::composite_surface'
    bi, s, d = rc
    rect, y, (ss, se), (ds, de) = info
    ctx.check(se - ss == de - ds, R, key + '|equal row length', call_line(b, bi), 'source and destination row slices have the same length', 'row slices differ in length: %s vs %s' % ((se - ss).show(b), (de - ds).show(b)))
    # translate calls
    trs = [(bi2, ct2) for bi2, dd, ct2 in calls_in(ctx, b) if dd and dd.endswith('Box2D::<T, U>::translate')]
    if not ctx.check(len(trs) == 2, R, key + '|translate pair', b.loc(), 'two translate calls (into and out of destination space)', 'expected two Box2D::translate calls, found %d (fail closed)' % len(trs)):
        return
    _snap = list(trs)
    trs = sorted(_snap, key=lambda p: sum(1 for q in _snap if an.cfg.dominates(q[0], p[0])))
    T = nosite(strip_all(trs[0][1][2][1]))
    T2 = nosite(strip_all(trs[1][1][2][1]))
    okn = (is_call(T2, 'Neg::neg') and strip_all(T2[2][0]) == T) or (T2[0] == 'un' and T2[1] == 'Neg' and T2[2] == T)
    ctx.check(okn, R, key + '|translate back', call_line(b, trs[1][0]), 'second translate undoes the first', 'the second translate (%s) is not the negation of the first (%s)' % (fmt(b, T2), fmt(b, T)))
    comps = vec_components(T)
    if comps is not None:
        Tx, Ty = comps
    else:
        Tx = Poly.leaf(('field', T, 'x', 'euclid::Vector2D', None))
        Ty = Poly.leaf(('field', T, 'y', 'euclid::Vector2D', None))
    y = nosite(y)
    Y = Poly.leaf(y)
    W = Poly.leaf(('field', ('deref', ('param', 1)), 'width', 'raqote::draw_target::DrawTarget', None))
    SW = Poly.leaf(('field', ('deref', ('param', P_SRC)), 'width', 'raqote::draw_target::DrawTarget', None))
    scol = ss - Y * SW
    ctx.check(Y not in [Poly.leaf(l) for l in scol.leaves()] and not any(y == l for l in scol.leaves()), R, key + '|source index form', call_line(b, bi), 'source row start = col + y*src.width', 'source row start is %s, not col + y*src.width' % ss.show(b))
    want = scol + Tx + (Y + Ty) * W
    ctx.check(ds == want, R, key + '|placement', call_line(b, bi), 'dest index = source col + Tx + (y + Ty)*width with T the clipping translation',
              'clipping translates the source rectangle by %s but the copy loop writes source pixel (col, y) to index %s; with that translation it would be %s — the block that is clipped is not the block that is placed (a src_rect whose origin is not (0,0) is cut short or lands shifted)' % (fmt(b, T), ds.show(b), want.show(b)))
    # when the offset is written as a difference of points, its operands must be the *arguments* dst and src_rect.min
    # (not the clamped rectangle: the property maps src_rect.min + (i,j) to dst + (i,j) for the rectangle as passed in)
    if is_call(T, 'ops::Sub::sub') and len(T[2]) == 2:
        def unvec(t):
            t = strip_all(t)
            return strip_all(t[2][0]) if is_call(t, '::to_vector') and len(t[2]) == 1 else t
        a0, a1 = unvec(T[2][0]), unvec(T[2][1])
        ok_ops = a0 == ('param', P_DST) and a1[0] == 'field' and a1[2] == 'min' and strip_all(a1[1]) == ('param', P_SRCRECT)
        ctx.check(ok_ops, R, key + '|offset operands', call_line(b, trs[0][0]), 'offset = dst - src_rect.min of the arguments as passed',
                  'the source-to-destination offset is %s: it must be the dst argument minus the min corner of the src_rect argument as passed in; taken from the rectangle after clamping to the source, a src_rect that starts outside the source lands shifted' % fmt(b, T))
    # ... or component-wise, possibly limited to where a block can still touch the destination: component c is
    # dst.c - src_rect.min.c (plain, wrapping or saturating), optionally clamped below by -(source size) and above by the
    # destination size — offsets beyond those place nothing whatever their exact value, nearer ones are left alone
    if comps is not None and is_call(T, 'Vector2D::<T, U>::new', 'euclid::vec2'):
        for ci, (cname, dim) in enumerate((('x', 'width'), ('y', 'height'))):
            c = strip_all(T[2][ci])
            lo = hi = None
            okc = True
            for _ in range(3):
                if c[0] == 'call' and isinstance(c[1], str) and c[1].split('::')[-1] in ('max', 'min') and len(c[2]) == 2:
                    if c[1].split('::')[-1] == 'max':
                        lo = strip_all(c[2][1])
                    else:
                        hi = strip_all(c[2][1])
                    c = strip_all(c[2][0])
                elif c[0] == 'call' and isinstance(c[1], str) and c[1].split('::')[-1] == 'clamp' and len(c[2]) == 3:
                    lo, hi = strip_all(c[2][1]), strip_all(c[2][2])
                    c = strip_all(c[2][0])
            if c[0] == 'call' and isinstance(c[1], str) and c[1].split('::')[-1] in ('saturating_sub', 'wrapping_sub') and len(c[2]) == 2:
                a0, a1 = strip_all(c[2][0]), strip_all(c[2][1])
            elif c[0] == 'bin' and c[1] == 'Sub':
                a0, a1 = strip_all(c[2]), strip_all(c[3])
            else:
                a0 = a1 = ('unknown',)
            def is_dst(t):
                return t[0] == 'field' and t[2] == cname and strip_all(t[1]) == ('param', P_DST)
            def is_min(t):
                return t[0] == 'field' and t[2] == cname and strip_all(t[1])[0] == 'field' and strip_all(t[1])[2] == 'min' and strip_all(strip_all(t[1])[1]) == ('param', P_SRCRECT)
            okc = is_dst(a0) and is_min(a1)
            if lo is not None:
                okc = okc and poly(lo) == -Poly.leaf(('field', ('deref', ('param', P_SRC)), dim, 'raqote::draw_target::DrawTarget', None))
            if hi is not None:
                okc = okc and poly(hi) == Poly.leaf(('field', ('deref', ('param', 1)), dim, 'raqote::draw_target::DrawTarget', None))
            ctx.check(okc, R, key + '|offset component ' + cname, call_line(b, trs[0][0]), 'offset.%s = dst.%s - src_rect.min.%s, limited to [-src.%s, self.%s] at most' % (cname, cname, cname, dim, dim),
                      'the %s component of the source-to-destination offset is %s: it must be dst.%s - src_rect.min.%s of the arguments as passed, limited at most to [-src.%s, self.%s] (a tighter limit moves blocks that still overlap the destination)' % (cname, fmt(b, T[2][ci])[:200], cname, cname, dim, dim))
    D = Deps(an)
    lv = D.closure(T)
    ok_dst = ('param', P_DST) in lv
    ok_min = any(x[0] == 'field' and x[2] == 'min' and strip_all(x[1]) == ('param', P_SRCRECT) for x in D.visited) or any(l == ('param', P_SRCRECT) for l in lv)
    ctx.check(ok_dst and ok_min, R, key + '|offset = dst - src_rect.min', call_line(b, trs[0][0]), 'clipping offset depends on dst and src_rect.min',
              'the offset used to clip against the destination depends on %s only; it must be dst - src_rect.min (source pixel src_rect.min + (i,j) lands on dst + (i,j))' % ('dst' if ok_dst else 'neither dst nor src_rect.min'))


def callback_of(ctx, name, R):
    """how wrapper `name` builds the row callback it hands to composite_surface:
    ('closure', body, [upvar terms]) | ('fn', body) | ('value', term) | None; plus the wrapper body/analysis and the call term"""
    w = ctx.body(DT + name, R)
    wan = ctx.an(w)
    ccs = [ct for bi, d, ct in calls_in(ctx, w) if d == CS]
    if len(ccs) != 1:
        return None, w, wan, None
    a = ccs[0][2]
    cb = strip_all(a[4])
    if cb[0] == 'mem':
        cb = shared.resolve_mem(wan, cb)
    if cb[0] == 'agg' and cb[1] == 'closure':
        body = ctx.F.body(cb[2])
        return (('closure', body, [strip_all(x[1]) for x in cb[4]]) if body is not None else None), w, wan, ccs[0]
    if cb[0] == 'fn':
        body = ctx.F.body(cb[1])
        return (('fn', body) if body is not None else None), w, wan, ccs[0]
    return ('value', cb), w, wan, ccs[0]


def r15_3(ctx, b):
    R = 'R15.3'
    bodies = [b]
    for nm in ('copy_surface', 'blend_surface', 'blend_surface_with_alpha'):
        cb, w, wan, call = callback_of(ctx, nm, R)
        bodies.append(w)
        if cb is not None and cb[0] in ('closure', 'fn'):
            bodies.append(cb[1])
    for bd in bodies:
        an = ctx.an(bd)
        bad = set()
        def scan(t):
            for x in subterms(t):
                if x[0] == 'field' and x[2] in ('transform', 'clip_stack', 'layer_stack') and x[3] == 'raqote::draw_target::DrawTarget':
                    bad.add(x[2])
        for bi, k2, s in bd.statements():
            if s['k'] == 'assign' and bi in an.cfg.reach:
                scan(an.rvalue_term(bi, k2, s['rv']))
                scan(an.place_term(bi, k2, s['p']))
        for bi, dd, ct in calls_in(ctx, bd):
            scan(ct)
            if dd and dd.startswith('raqote::') and dd not in ('raqote::geom::intrect', CS, 'raqote::draw_target::build_blend_proc'):
                bad.add('call ' + short(dd))
        ctx.check(not bad, R, short(bd.q) + '|isolation', bd.loc(), 'no read of transform/clip_stack/layer_stack', '%s touches %s: surface copies must ignore transform, clip and layers' % (short(bd.q), sorted(bad)))


def fwd(a):
    """(src, src_rect, dst) forwarded unchanged (re-borrows allowed)"""
    def same(t, p):
        t = strip_all(t)
        return t in (('param', p), ('deref', ('param', p)))
    return same(a[1], 2) and same(a[2], 3) and same(a[3], 4)


def r15_4(ctx):
    R = 'R15.4'
    # the row callbacks: a closure (params env, src, dst -> MIR 1,2,3), a local fn (src, dst -> 1,2) or a fn-pointer value
    def blend_proc(t, wan_):
        t = strip_all(t)
        if t[0] == 'mem':
            t = shared.resolve_mem(wan_, t)
        return is_call(t, 'build_blend_proc') and t[2][0] == ('param', 5) and (wan_.callee_info(t[3]).get('subst_heads') or [None])[0] == 'raqote::draw_target::BlendRow'
    cb, w, wan, call = callback_of(ctx, 'copy_surface', R)
    ok = cb is not None and cb[0] in ('closure', 'fn')
    if ok:
        c = cb[1]
        ps, pd = (2, 3) if cb[0] == 'closure' else (1, 2)
        cs = [ct for bi, d, ct in calls_in(ctx, c) if d and d.endswith('copy_from_slice')]
        ok = len(cs) == 1 and strip_all(cs[0][2][0]) in (('param', pd), ('deref', ('param', pd))) and strip_all(cs[0][2][1]) in (('param', ps), ('deref', ('param', ps)))
        ok = ok and not [1 for a2, v2, pt2, k2 in ctx.an(c).stores if k2 == 'assign']
    ctx.check(ok, R, 'draw_target::DrawTarget::copy_surface|closure', w.loc(), 'callback = dst.copy_from_slice(src)', 'copy_surface\'s callback is not dst.copy_from_slice(src)')
    cb, w, wan, call = callback_of(ctx, 'blend_surface', R)
    ok = cb is not None and call is not None and fwd(call[2])
    if ok and cb[0] == 'closure':
        c = cb[1]
        ind = [ct for bi, d, ct in calls_in(ctx, c) if d is None]
        ok = len(ind) == 1 and shared.upvar_index(ind[0][1][1]) == 0 and strip_all(ind[0][2][0]) == ('param', 2) and strip_all(ind[0][2][1]) == ('param', 3)
        ctx.check(ok, R, 'draw_target::DrawTarget::blend_surface|closure', c.loc(), 'blend_fn(src, dst)', 'blend_surface\'s callback is not blend_fn(src, dst)')
        ok = ok and len(cb[2]) >= 1 and blend_proc(cb[2][0], wan)
    elif ok and cb[0] == 'value':
        ok = blend_proc(cb[1], wan)       # the BlendRow proc itself is the callback
    else:
        ok = False
    ctx.check(ok, R, 'draw_target::DrawTarget::blend_surface|wiring', w.loc(), 'composite_surface(src, src_rect, dst, build_blend_proc::<BlendRow>(blend) applied to (src row, dst row))', 'blend_surface does not forward (src, src_rect, dst) with the BlendRow proc of its blend argument')
    cb, w, wan, call = callback_of(ctx, 'blend_surface_with_alpha', R)
    ok = cb is not None and cb[0] == 'closure'
    if ok:
        c = cb[1]
        cs = [ct for bi, d, ct in calls_in(ctx, c) if d and d.endswith('over_in_row')]
        ok = len(cs) == 1 and strip_all(cs[0][2][0]) == ('param', 2) and strip_all(cs[0][2][1]) == ('param', 3) and shared.upvar_index(strip_casts(cs[0][2][2], ('IntToInt',))) == 0
    ctx.check(ok, R, 'draw_target::DrawTarget::blend_surface_with_alpha|closure', w.loc(), 'over_in_row(src, dst, alpha)', 'blend_surface_with_alpha\'s callback is not a closure calling over_in_row(src, dst, alpha)')
    w = ctx.body(DT + 'blend_surface_with_alpha', R)
    wan = ctx.an(w)
    ccs = [(bi, ct) for bi, d, ct in calls_in(ctx, w) if d == CS]
    ok = len(ccs) == 1
    if ok:
        a = ccs[0][1][2]
        clo = shared.resolve_mem(wan, a[4])
        ok = fwd(a) and clo[0] == 'agg' and clo[1] == 'closure'
        if ok:
            up = strip_all(clo[4][0][1])
            up = shared.resolve_mem(wan, up) if up[0] == 'mem' else up
            ok = up[0] == 'cast' and up[1] == 'FloatToInt' and up[2] == 'u8' and any(x == ('param', 5) for x in subterms(up))
    ctx.check(ok, R, 'draw_target::DrawTarget::blend_surface_with_alpha|wiring', w.loc(), 'alpha byte of the alpha argument reaches the callback', 'blend_surface_with_alpha does not pass the alpha argument (as a byte) to its callback')
    w = ctx.body(DT + 'copy_surface', R)
    ccs = [ct for bi, d, ct in calls_in(ctx, w) if d == CS]
    ok = len(ccs) == 1 and fwd(ccs[0][2])
    ctx.check(ok, R, 'draw_target::DrawTarget::copy_surface|wiring', w.loc(), 'composite_surface(src, src_rect, dst, ..)', 'copy_surface does not forward (src, src_rect, dst) unchanged')
    # the three wrappers do nothing else: the delegation is on every path and is their only write to the pixels
    for name in ('copy_surface', 'blend_surface', 'blend_surface_with_alpha'):
        w = ctx.body(DT + name, R)
        wan = ctx.an(w)
        sites = set(bi for bi, d, ct in calls_in(ctx, w) if d == CS)
        okp, pth = wan.cfg.must_pass_through(0, sites)
        ctx.check(okp and bool(sites), R, 'draw_target::DrawTarget::%s|delegates on every path' % name, w.loc(), 'every returning path goes through composite_surface',
                  '%s can return without going through composite_surface (blocks %s): a shortcut places pixels without the clamping and offset logic of composite_surface (e.g. a whole-surface copy that ignores src_rect.min)' % (name, pth))
        others = []
        for a, v, pt, kind in wan.stores:
            r, nm = field_path(a)
            if r == ('param', 1) and nm[:1] == ['buf'] and not (kind == 'call' and is_call(v, 'composite_surface')):
                others.append(fmt(w, v)[:80])
        for bi, d, ct in calls_in(ctx, w):
            if d and d != CS and ct[2] and any(is_self_field(strip_all(x), 'buf') for a0 in ct[2] for x in subterms(a0)):
                others.append(d)
        ctx.check(not others, R, 'draw_target::DrawTarget::%s|no other pixel access' % name, w.loc(), 'self.buf is touched only through composite_surface',
                  '%s also accesses self.buf directly (%s): pixels are placed outside composite_surface' % (name, sorted(set(others))))


# ---------------------------------------------------------------- R15.5: magnitude of the integer arithmetic
class _Mag:
    """Two-sided boundedness of integer terms: a value is (lb, ub) — whether it is known to be no smaller / no larger than
    something of the magnitude of a surface dimension.  Points, vectors and rectangles are trees of such values.  The
    arguments src_rect and dst are arbitrary i32s (neither side bounded); surface sizes and constants are bounded on both
    sides.  A checked operation (+, -, unary -, *, Box2D::translate, Point - Point, size) on an operand that is not
    bounded on both sides can overflow for some caller: that is what the rule reports."""
    BOTH = (True, True)
    NONE = (False, False)

    def __init__(self, ctx, b, params_unbounded, guard_rects):
        self.ctx = ctx
        self.b = b
        self.an = ctx.an(b)
        self.unb = params_unbounded
        self.guard_rects = guard_rects      # nosite(rect term) known non-empty at the evaluated site
        self.hazards = {}
        self.memo = {}
        # explicit loop counters run from their initial value up to their bound
        self.counters = {nosite(cl['var']): cl for cl in shared.counter_loops(self.an, b)}

    @staticmethod
    def leaves(v):
        if isinstance(v, dict):
            out = []
            for x in v.values():
                out += _Mag.leaves(x)
            return out
        return [v]

    def all_bounded(self, *vs):
        return all(l == self.BOTH for v in vs for l in self.leaves(v))

    def hazard(self, t, what):
        self.hazards.setdefault(nosite(t), (t, what))

    def point(self, v):
        return v if isinstance(v, dict) and 'x' in v else {'x': v if not isinstance(v, dict) else self.NONE, 'y': v if not isinstance(v, dict) else self.NONE}

    def rect(self, v):
        if isinstance(v, dict) and 'min' in v:
            return v
        p = v if not isinstance(v, dict) else self.NONE
        return {'min': {'x': p, 'y': p}, 'max': {'x': p, 'y': p}}

    def ev(self, t):
        t = strip_all(t)
        k = nosite(t)
        if k in self.memo:
            return self.memo[k]
        self.memo[k] = self.NONE      # cycles (loop-carried values) are unbounded
        if k in self.counters:
            cl = self.counters[k]
            a, c = self.ev(cl['init']), self.ev(cl['bound'])
            v = (a[0], c[1]) if not isinstance(a, dict) and not isinstance(c, dict) else self.NONE
            self.memo[k] = v
            return v
        v = self._ev(t)
        self.memo[k] = v
        return v

    def _ev(self, t):
        h = t[0]
        if h == 'const':
            return self.BOTH
        if h == 'param':
            return self.NONE if t[1] in self.unb else self.BOTH
        if h == 'cast':
            return self.ev(t[3])
        if h == 'field':
            if t[2] in ('width', 'height') and (t[3] or '').endswith('draw_target::DrawTarget'):
                return self.BOTH
            base = self.ev(t[1])
            if t[4] == 'Some' and is_call(strip_all(t[1]), 'Iterator::next'):
                return self.range_of(t)
            if isinstance(base, dict):
                if t[2] in base:
                    return base[t[2]]
                if t[2] in ('0', '1') and 'x' in base:
                    return base['x' if t[2] == '0' else 'y']
                return self.NONE if not self.all_bounded(base) else self.BOTH
            return base
        if h in ('bin', 'ovf'):
            a, c = self.ev(t[2]), self.ev(t[3])
            if t[1] in ('Add', 'Sub', 'Mul', 'AddWithOverflow', 'SubWithOverflow', 'MulWithOverflow'):
                if not self.all_bounded(a, c):
                    self.hazard(t, t[1])
                return self.BOTH
            if t[1] in ('Lt', 'Le', 'Gt', 'Ge', 'Eq', 'Ne'):
                return self.BOTH
            return self.NONE if not self.all_bounded(a, c) else self.BOTH
        if h == 'un':
            a = self.ev(t[2])
            if t[1] == 'Neg' and not self.all_bounded(a):
                self.hazard(t, 'Neg')
            return self.BOTH if t[1] == 'Neg' else a
        if h == 'agg':
            fs = {n: self.ev(x) for n, x in t[4]}
            if t[1] == 'tuple':
                return fs
            return fs
        if h == 'call' and isinstance(t[1], str):
            d = t[1]
            last = d.split('::')[-1]
            args = [self.ev(a) for a in t[2]]
            if d.endswith('geom::intrect') and len(args) == 4:
                return {'min': {'x': args[0], 'y': args[1]}, 'max': {'x': args[2], 'y': args[3]}}
            if last in ('vec2', 'point2') or d.endswith('Vector2D::<T, U>::new') or d.endswith('Point2D::<T, U>::new'):
                if len(args) == 2:
                    return {'x': args[0], 'y': args[1]}
            if last in ('to_vector', 'to_point', 'clone', 'into', 'from', 'to_i32', 'cast'):
                return args[0] if args else self.NONE
            if last in ('intersection_unchecked',) and len(args) == 2:
                A, B2 = self.rect(args[0]), self.rect(args[1])
                out = {'min': {}, 'max': {}}
                for c in ('x', 'y'):
                    a, b2 = A['min'][c], B2['min'][c]
                    out['min'][c] = (a[0] or b2[0], a[1] and b2[1])        # max of the two
                    a, b2 = A['max'][c], B2['max'][c]
                    out['max'][c] = (a[0] and b2[0], a[1] or b2[1])        # min of the two
                if nosite(t) in self.guard_rects:
                    for c in ('x', 'y'):
                        lo, hi = out['min'][c], out['max'][c]
                        out['min'][c] = (lo[0], lo[1] or hi[1])
                        out['max'][c] = (hi[0] or lo[0], hi[1])
                return out
            if last == 'translate' and len(args) == 2:
                if not self.all_bounded(args[0], args[1]):
                    self.hazard(t, 'Box2D::translate (adds the vector to both corners)')
                return self.rect(self.BOTH)
            if (d.endswith('ops::Sub::sub') or d.endswith('ops::Add::add')) and len(args) == 2:
                if not self.all_bounded(args[0], args[1]):
                    self.hazard(t, 'point/vector %s' % last)
                return {'x': self.BOTH, 'y': self.BOTH} if any(isinstance(a, dict) for a in args) else self.BOTH
            if d.endswith('ops::Neg::neg') and len(args) == 1:
                if not self.all_bounded(args[0]):
                    self.hazard(t, 'negation')
                return args[0] if isinstance(args[0], dict) and self.all_bounded(args[0]) else ({'x': self.BOTH, 'y': self.BOTH} if isinstance(args[0], dict) else self.BOTH)
            if last in ('size', 'width', 'height', 'area') and len(args) == 1 and isinstance(args[0], dict) and 'min' in args[0]:
                if not self.all_bounded(args[0]):
                    self.hazard(t, 'Box2D::%s (max - min)' % last)
                return {'width': self.BOTH, 'height': self.BOTH} if last == 'size' else self.BOTH
            if last in ('saturating_sub',) and len(args) == 2 and not isinstance(args[0], dict):
                a, c = args
                return (a[0] and c[1], a[1] and c[0])
            if last in ('saturating_add',) and len(args) == 2 and not isinstance(args[0], dict):
                a, c = args
                return (a[0] and c[0], a[1] and c[1])
            if last == 'max' and len(args) == 2 and not isinstance(args[0], dict):
                a, c = args
                return (a[0] or c[0], a[1] and c[1])
            if last == 'min' and len(args) == 2 and not isinstance(args[0], dict):
                a, c = args
                return (a[0] and c[0], a[1] or c[1])
            if last == 'clamp' and len(args) == 3 and not isinstance(args[0], dict):
                return (args[1][0], args[2][1])
            if last in ('is_empty', 'is_negative', 'contains', 'intersects'):
                return self.BOTH
            if last in ('as_ref', 'as_mut', 'index', 'index_mut', 'len', 'call', 'into_iter', 'next', 'deref', 'deref_mut'):
                return self.BOTH
            return self.NONE
        if h in ('phi', 'rec'):
            vs = [self.ev(x) for x in self.an.phi_terms(t)] if h == 'phi' else []
            if vs and all(not isinstance(v, dict) for v in vs):
                return (all(v[0] for v in vs), all(v[1] for v in vs))
            return self.NONE
        return self.NONE

    def range_of(self, t):
        D = Deps(self.an)
        D.closure(strip_all(t[1])[2][0])
        for x in D.visited:
            if x[0] == 'agg' and x[2] and x[2].endswith('ops::Range'):
                f = dict(x[4])
                a, c = self.ev(f['start']), self.ev(f['end'])
                if not isinstance(a, dict) and not isinstance(c, dict):
                    return (a[0], c[1])
        return self.NONE


def r15_5(ctx):
    """no integer overflow in composite_surface for any src_rect / dst: every checked integer operation it performs — its
    own +, -, *, and the ones inside euclid's Point - Point, Box2D::translate, -Vector, size() — has operands bounded on
    both sides by surface-sized quantities, whatever i32 values the caller passes (C07: "source rectangles or destinations
    far outside either surface" are harmless; C15: nothing is placed when the block misses the destination)"""
    R = 'R15.5'
    b = ctx.body(CS, R)
    an = ctx.an(b)
    key = 'draw_target::DrawTarget::composite_surface'
    # every operation is judged where it executes: with the rectangles known to be non-empty *there*
    evaluators = {}
    def at(bi):
        gr = set()
        for op, a, b2, si in normalized_guards(ctx, b, bi):
            if op == '!true' and is_call(a, 'is_empty'):
                gr.add(nosite(strip_all(a[2][0])))
        k = frozenset(gr)
        if k not in evaluators:
            evaluators[k] = _Mag(ctx, b, {P_SRCRECT, P_DST}, gr)
        return evaluators[k]
    nterms = 0
    for d in an.defs:
        if d.kind == 'assign' and not d.partial and d.bb in an.cfg.reach:
            at(d.bb).ev(an.def_term(d))
            nterms += 1
    for bi, dd, ct in calls_in(ctx, b):
        at(bi).ev(ct)
        nterms += 1
    for si, t in b.terminators('switch'):
        if si in an.cfg.reach:
            at(si).ev(an.term_at(si, len(b.blocks[si]['st']), t['o']))
    allh = {}
    for e in evaluators.values():
        for k, v in e.hazards.items():
            allh.setdefault(k, v)
    ctx.floor(R, 'terms of composite_surface evaluated for magnitude', nterms, 20)
    if allh:
        items = sorted(allh.values(), key=lambda p: len(str(p[0])))
        t, what = items[0]
        ctx.fail(R, key + '|arithmetic on unclamped arguments', b.loc(),
                 'composite_surface computes %s (%s) on a value that comes from src_rect / dst without having been limited to surface-sized magnitudes: for some i32 arguments it overflows (a panic with overflow checks; a wrapped offset otherwise) although a block that far away should simply place nothing (%d such operations)'
                 % (fmt(b, t)[:160], what, len(items)))
    else:
        ctx.ok(R, key + '|arithmetic on unclamped arguments', b.loc(), 'every checked operation has operands bounded by surface sizes')


def r15_6(ctx):
    """composite_surface gives up without copying only on an emptiness test: every path from the entry to a return that
    does not pass the row loop leaves a switch whose condition is `is_empty()` of a rectangle, a comparison of a
    width/height (of a surface or of a rectangle's size) with zero, or the `None` of an intersection.  Any other test
    (a point-containment test, a comparison of coordinates) also swallows requests whose clamped block is not empty"""
    R = 'R15.6'
    b = ctx.body(CS, R)
    an = ctx.an(b)
    cfg = an.cfg
    key = 'draw_target::DrawTarget::composite_surface'
    rc = row_call(ctx, b)
    if rc is None:
        ctx.fail(R, key + '|callback call', b.loc(), 'cannot find the f(src_row, dst_row) call (fail closed)')
        return
    loops = cfg.loops()
    hdr = None
    for h, bl in loops.items():
        if rc[0] in bl and (hdr is None or len(bl) > len(loops[hdr])):
            hdr = h
    into_rows = set((p, hdr) for p in cfg.pred[hdr]) if hdr is not None else set((p, rc[0]) for p in cfg.pred[rc[0]])
    def dim(t):
        t = strip_all(strip_casts(t))
        if t[0] == 'field' and t[2] in ('width', 'height'):
            return True
        if is_call(t, '::width') or is_call(t, '::height'):
            return True
        if t[0] == 'bin' and t[1] in ('Sub',) :
            # max - min of one axis of a rectangle
            return all(x[0] == 'field' and x[2] in ('x', 'y') for x in (strip_all(t[2]), strip_all(t[3])))
        return False
    def emptiness(c):
        while c[0] == 'un' and c[1] == 'Not':
            c = c[2]
        c = strip_all(c)
        if is_call(c, 'is_empty'):
            return True
        if c[0] == 'bin' and c[1] in ('Le', 'Lt', 'Eq', 'Ge', 'Gt', 'Ne'):
            for x, z in ((c[2], c[3]), (c[3], c[2])):
                if const_val(z) == 0 and dim(x):
                    return True
        if c[0] == 'bin' and c[1] in ('BitOr', 'BitAnd'):
            return emptiness(c[2]) and emptiness(c[3])
        if is_call(c, 'is_none') or is_call(c, 'is_some'):
            return any(is_call(x, 'intersection') for x in subterms(c))
        return False
    allowed = set()
    others = []
    for si, t in b.terminators('switch'):
        if si not in cfg.reach:
            continue
        c = an.term_at(si, len(b.blocks[si]['st']), t['o'])
        tg = set(tt for _v, tt in t['targets']) | {t['otherwise']}
        if t.get('ty') == 'bool':
            if emptiness(c):
                allowed |= set((si, x) for x in tg)
            else:
                others.append((si, c))
        elif c[0] == 'discr' and any(is_call(x, 'intersection') for x in subterms(c)):
            allowed |= set((si, x) for x in tg)
    rets = [bi for bi, t in b.terminators('return') if bi in cfg.reach]
    ctx.floor(R, 'emptiness tests ahead of the row loop', len(set(s for s, _ in allowed)), 1)
    bad = [r for r in rets if not hazard_cut(cfg, r, allowed | into_rows)]
    if not bad:
        ctx.ok(R, key + '|gives up only when empty', b.loc(), 'every return that bypasses the row loop follows an emptiness test (%d tests)' % len(set(s for s, _ in allowed)))
        return
    # name the test that lets a request bypass the rows
    culprit = None
    for si, c in others:
        tg = set(tt for _v, tt in b.blocks[si]['t']['targets']) | {b.blocks[si]['t']['otherwise']}
        if all(hazard_cut(cfg, r, allowed | into_rows | set((si, x) for x in tg)) for r in bad):
            culprit = (si, c)
            break
    where = b.loc(b.blocks[culprit[0]]['t'].get('sp')) if culprit else b.loc()
    ctx.fail(R, key + '|gives up only when empty', where,
             'composite_surface can return without copying a row behind a test that is not an emptiness test%s: the rule cannot show that every request turned away there has an empty block inside both surfaces (a point-containment test, for one, also drops a src_rect that overhangs the source on its top or left side)'
             % ((' — `%s`' % fmt(b, culprit[1])[:120]) if culprit else ''))


def hazard_cut(cfg, site, edges):
    import hazard
    return hazard.cut_by_edges(cfg, site, edges)


def r15_rows(ctx):
    """R15.1/R15.2 as one rule (for properties that need the row copies to stay inside both buffers)"""
    b = ctx.body(CS, 'R15.1')
    rc = row_call(ctx, b)
    if rc is None:
        ctx.fail('R15.1', 'draw_target::DrawTarget::composite_surface|callback call', b.loc(), 'cannot find the f(src_row, dst_row) call (fail closed)')
        return
    info = r15_1(ctx, b, rc)
    if info is not None:
        r15_2(ctx, b, rc, info)


def run(ctx):
    b = ctx.body(CS, 'R15')
    rc = row_call(ctx, b)
    if rc is None:
        ctx.fail('R15.1', 'draw_target::DrawTarget::composite_surface|callback call', b.loc(), 'cannot find the f(src_row, dst_row) call (fail closed)')
    else:
        info = r15_1(ctx, b, rc)
        if info is not None:
            r15_2(ctx, b, rc, info)
    import engine
    engine.run_rules(ctx, [lambda c: r15_3(c, b), r15_4, r15_5, r15_6, dt.r03_6, dt.r03_1, dt.r03_10])
