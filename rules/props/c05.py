"""C05 — the effective clip is the intersection of every clip pushed and not yet popped."""
import dt
import ras
import shared

META = {
    'explanation': 'Static rules: R05.1 push_clip_rect\'s new entry depends on the argument and on both components (rect and mask) of the entry '
                   'underneath; R05.2 push_clip\'s mask derives from rasterising the path multiplied (muldiv255 over 0..width*height) with the '
                   'mask underneath and its rect is clip_bounds(); R05.3 clip_stack/layer_stack are mutated only by the push/pop functions, once '
                   'each; R05.4 composite bounds spans by clip_bounds() (R02.1) and hands &self.clip_stack to choose_blitter, mask-less drawing '
                   'requires an empty stack (R03.3), clip arms are selected on clip_stack.last() (R03.2); R05.5 clip masks are written '
                   'full-surface/origin 0/stride width and read absolutely with stride = surface width (R02.6); R05.6 no buffer is sized from '
                   'a possibly inverted rectangle without an emptiness test or clamp.',
    'decides': ['R05.8 clip_bounds = rect of the top entry or the surface, a function of the clip stack and the surface size only', 'R05.1 push_clip_rect carries rect and mask', 'R05.2 push_clip combines masks', 'R05.3 stack discipline', 'R05.4 every draw consults the top clip',
                'R05.5 mask layout agreement', 'R05.6 empty intersection harmless', 'R05.7 pushed rectangles stay inside the clip in force (and the surface)', 'R02.1 span bounded by clip_bounds', 'R03.2/R03.3 clip-aware blitter selection', 'R02.6 absolute clip indexing'],
    'does_not_decide': ['antialiased coverage values of clip paths (C01/C08)', 'exact pixel equality inside rectangular clips', 'order independence as pixel values'],
    'assumptions': ['euclid Box2D::intersection_unchecked/is_empty/size semantics (external, euclid 0.22.14)'],
    'trusted_base': ['euclid 0.22.14', 'sw-composite 0.7.16'],
}


def _r14_1(ctx):
    import props.c14 as c14
    c14.r14_1(ctx)


_r14_1.__name__ = 'r14_1'


def _r11_9(ctx):
    import props.c11 as c11
    c11.r11_9(ctx)


_r11_9.__name__ = 'r11_9'


def run(ctx):
    import engine
    engine.run_rules(ctx, [dt.r05_1, dt.r05_2, dt.r05_3, dt.r05_4, dt.r05_6, dt.r05_7, dt.r02_1, dt.r02_3, dt.r03_2, dt.r03_3, dt.r02_6, dt.r02_7, ras.r01_10, dt.r06_3, ras.r10_1, _r14_1, dt.r05_8, _r11_9])
