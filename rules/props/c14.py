"""C14 — optimised paths give the same pixels as the general path."""
from util import *
import ras
from terms import fmt, subterms, Deps
import shared
import dt

META = {
    'explanation': 'Static rules: R14.1 the mask-less composite in fill_rect is dominated by transform == identity, by an integer round-trip '
                   'test of each of x, y, width, height, and by clip_stack.is_empty(); its rectangle is (ix, iy, ix+iwidth, iy+iheight) '
                   'intersected with the surface; clear()\'s direct fill is dominated by empty clip and layer stacks and stores solid.to_u32(), '
                   'its slow route fills (0,0,width,height) with Src/alpha 1 under the identity; R14.2 the fast route writes only its span '
                   '(R02.4/R02.5); R14.3 fast and slow route composite with the same src, options.blend_mode and options.alpha; R14.4 '
                   'draw_image helpers = fill_rect with the translated/scaled image source (R13.4).',
    'decides': ['R14.1 fast-path preconditions (identity transform, integer rectangle of non-negative size, no clip)', 'R14.2 fast route writes only its span', 'R14.3 same compositing parameters on both routes', 'R14.4 draw_image_at delegates to fill_rect with the translated source'],
    'does_not_decide': ['pixel equality of the two routes (full-coverage arithmetic of the rasteriser and combinators)', 'negative-size rectangles: the fast path drops them, the path route fills the mirrored rectangle (no structural signature; documented as D18)'],
    'assumptions': ['a full-coverage mask byte 255 composites like no mask (sw-composite arithmetic, C03 assumption)'],
    'trusted_base': ['sw-composite 0.7.16', 'euclid 0.22.14'],
}

DT = dt.DT


def roundtrip_of(t, p):
    """t == (p as i32) as f32"""
    return t[0] == 'cast' and t[1] == 'IntToFloat' and t[3][0] == 'cast' and t[3][1] == 'FloatToInt' and t[3][3] == ('param', p)


def r14_1(ctx):
    R = 'R14.1'
    b = ctx.body(DT + 'fill_rect', R)
    an = ctx.an(b)
    key = 'draw_target::DrawTarget::fill_rect'
    comps = [(bi, ct) for bi, d, ct in calls_in(ctx, b) if d == DT + 'composite']
    if not ctx.check(len(comps) == 1 and dt.is_none_agg(comps[0][1][2][2]), R, key + '|fast path', b.loc(), 'one mask-less composite call', 'expected exactly one mask-less composite call in fill_rect'):
        return
    bi, ct = comps[0]
    facts = shared.facts_at(ctx, b, bi)
    names = {2: 'x', 3: 'y', 4: 'width', 5: 'height'}
    for p, nm in names.items():
        ok = any(op == 'Eq' and ((roundtrip_of(a, p) and b2 == ('param', p)) or (roundtrip_of(b2, p) and a == ('param', p))) for op, a, b2, si in facts)
        ctx.check(ok, R, key + '|integer test of ' + nm, call_line(b, bi), '%s as i32 as f32 == %s holds on the fast path' % (nm, nm),
                  'the fast path is taken without testing that %s is an integer: a fractional %s would be truncated instead of antialiased' % (nm, nm))
    ok = any(op == 'true' and is_call(a, 'PartialEq::eq') and is_self_field(strip_all(a[2][0]), 'transform') and is_call(strip_all(a[2][1]), 'identity') for op, a, b2, si in facts)
    ctx.check(ok, R, key + '|identity transform', call_line(b, bi), 'transform == identity on the fast path', 'the fast path is taken without testing that the transform is the identity')
    # a negative size means the flipped rectangle to the general path (rect() + NonZero fill paint |w| x |h|), while the
    # fast path's (ix, iy, ix+w, iy+h) is then inverted, hence empty: the fast path may only be taken for sizes >= 0
    def nonneg(p):
        for op, a, b2, si in facts:
            if b2 is None:
                continue
            a1 = strip_all(a)
            while a1[0] == 'cast':
                a1 = strip_all(a1[3])
            z = const_val(b2)
            if a1 == ('param', p) and z is not None and float(z) == 0.0 and op in ('Ge', '!Lt') and (op == 'Ge' or strip_all(a)[0] == 'cast'):
                return True
            if a1 == ('param', p) and z is not None and op == 'Gt' and float(z) in (0.0, -1.0):
                return True
        return False
    for p, nm in ((4, 'width'), (5, 'height')):
        ctx.check(nonneg(p), R, key + '|non-negative ' + nm, call_line(b, bi), '%s >= 0 holds on the fast path' % nm,
                  'the fast path is taken for a negative %s: its rectangle (ix, iy, ix+iwidth, iy+iheight) is then inverted and nothing is drawn, while the general path fills the flipped rectangle (e.g. fill_rect(5,5,-3,3) differs from filling PathBuilder::rect(5,5,-3,3), and from the same call under a surface-covering clip)' % nm)
    ctx.check(dt.clip_stack_empty_guard(ctx, b, bi), R, key + '|no clip', call_line(b, bi), 'clip_stack.is_empty() on the fast path', 'the fast path is taken while a clip may be pushed')
    # rectangle
    rect = strip_all(ct[2][4])
    mrect = strip_all(ct[2][3])
    ctx.check(rect == mrect, R, key + '|rect == mask_rect', call_line(b, bi), 'rect and mask_rect are the same rectangle', 'fast path passes different rect and mask_rect')
    ok = rect[0] == 'field' and rect[4] == 'Some' and is_call(rect[1], 'Box2D::<T, U>::intersection')
    if ok:
        a0, a1 = strip_all(rect[1][2][0]), strip_all(rect[1][2][1])
        def is_surface(t):
            return is_call(t, 'geom::intrect') and const_val(t[2][0]) == 0 and const_val(t[2][1]) == 0 and is_self_field(t[2][2], 'width') and is_self_field(t[2][3], 'height')
        def is_irect(t):
            if not is_call(t, 'geom::intrect'):
                return False
            I = lambda p: Poly.leaf(('cast', 'FloatToInt', 'i32', ('param', p)))
            x1, y1, x2, y2 = (poly(v, opaque=True) for v in t[2])
            # poly() drops IntToInt casts only; FloatToInt casts stay as leaves
            return x1 == I(2) and y1 == I(3) and x2 == I(2) + I(4) and y2 == I(3) + I(5)
        ok = (is_surface(a0) and is_irect(a1)) or (is_surface(a1) and is_irect(a0))
    ctx.check(ok, R, key + '|rect', call_line(b, bi), 'rect = (ix, iy, ix+iwidth, iy+iheight) ∩ surface', 'the fast-path rectangle is %s, expected intrect(ix, iy, ix+iwidth, iy+iheight) intersected with (0,0,width,height)' % fmt(b, rect))
    # clear
    c = ctx.body(DT + 'clear', R)
    can = ctx.an(c)
    ckey = 'draw_target::DrawTarget::clear'
    stores = [(a, v, pt) for a, v, pt, kind in can.stores if kind == 'assign' and any(x[0] == 'field' and x[2] == 'buf' for x in subterms(a))]
    # the pixel store goes through the iterator over buf.as_mut(): find stores whose address derives from as_mut(&mut self.buf)
    px = []
    for a, v, pt, kind in can.stores:
        if kind != 'assign':
            continue
        root, _nm = field_path(a)
        if not is_call(root, 'Iterator::next'):
            continue
        D = Deps(can)
        D.closure(root[2][0])
        if any(is_call(x, 'AsMut::as_mut') and is_self_field(strip_all(x[2][0]), 'buf') for x in D.visited):
            px.append((a, v, pt))
    # the same loop as an internal iteration: buf.as_mut().iter_mut().for_each(|pixel| *pixel = color)
    if not px:
        for bi0, d0, ct0 in calls_in(ctx, c):
            if not (d0 and d0.endswith('Iterator::for_each')):
                continue
            D = Deps(can)
            D.closure(ct0[2][0])
            if not any(is_call(x, 'AsMut::as_mut') and is_self_field(strip_all(x[2][0]), 'buf') for x in D.visited):
                continue
            clo = strip_all(ct0[2][1])
            if clo[0] == 'mem':
                clo = shared.resolve_mem(can, clo)
            if clo[0] != 'agg' or clo[1] != 'closure':
                continue
            cbody = ctx.F.body(clo[2])
            if cbody is None:
                continue
            cban = ctx.an(cbody)
            sts = [(a2, v2, pt2) for a2, v2, pt2, k2 in cban.stores if k2 == 'assign']
            if len(sts) == 1 and strip_all(sts[0][0]) in (('deref', ('param', 2)),) and shared.upvar_index(strip_all(sts[0][1])) is not None:
                up = strip_all(clo[4][shared.upvar_index(strip_all(sts[0][1]))][1])
                while up[0] in ('ref', 'deref'):
                    up = strip_all(up[1])
                if up[0] == 'mem':
                    up = shared.resolve_mem(can, up)
                px.append((sts[0][0], up, (bi0, len(c.blocks[bi0]['st']))))
    # ... or as the slice primitive: self.buf.as_mut().fill(color) stores color into every element
    if not px:
        for bi0, d0, ct0 in calls_in(ctx, c):
            if d0 and d0.endswith('slice::<impl [T]>::fill') and len(ct0[2]) == 2:
                D = Deps(can)
                D.closure(ct0[2][0])
                if any(is_call(x, 'AsMut::as_mut') and is_self_field(strip_all(x[2][0]), 'buf') for x in D.visited) or is_call(strip_all(ct0[2][0]), 'AsMut::as_mut'):
                    v = strip_all(ct0[2][1])
                    if v[0] == 'mem':
                        v = shared.resolve_mem(can, v)
                    px.append((ct0[2][0], v, (bi0, len(c.blocks[bi0]['st']))))
    if ctx.check(len(px) >= 1, R, ckey + '|direct fill', c.loc(), 'direct fill store found', 'no direct pixel store found in clear (fail closed)'):
        for a, v, pt in px:
            ok = is_call(strip_all(v), 'SolidSource::to_u32') and strip_all(strip_all(v)[2][0]) == ('param', 2)
            ctx.check(ok, R, ckey + '|direct value', c.loc(), 'pixel = solid.to_u32()', 'the direct fill stores %s, expected solid.to_u32()' % fmt(c, v))
            ctx.check(dt.clip_stack_empty_guard(ctx, c, pt[0]), R, ckey + '|no clip', c.loc(), 'direct fill only with an empty clip stack', 'clear fills the surface directly while a clip may be pushed')
    fills = [(bi2, ct2) for bi2, d, ct2 in calls_in(ctx, c) if d == DT + 'fill']
    if ctx.check(len(fills) == 1, R, ckey + '|slow route', c.loc(), 'one fill call', 'expected one fill call in clear'):
        bi2, ct2 = fills[0]
        opts = shared.resolve_mem(can, ct2[2][3])
        ok = opts[0] == 'agg' and dict(opts[4])['blend_mode'][3] == 'Src' and const_val(dict(opts[4])['alpha']) == 1.0
        ctx.check(ok, R, ckey + '|slow options', call_line(c, bi2), 'fill with Src, alpha 1', 'clear\'s clipped route does not fill with BlendMode::Src and alpha 1')
        src = shared.resolve_mem(can, ct2[2][2])
        ok = src[0] == 'agg' and src[3] == 'Solid' and strip_all(src[4][0][1]) == ('param', 2)
        ctx.check(ok, R, ckey + '|slow source', call_line(c, bi2), 'fill with Source::Solid(solid)', 'clear\'s clipped route does not fill with the requested colour')
        # the clipped route fills under the identity: a store of identity() to self.transform dominates the fill
        ids = [pt for a, v, pt, kind in can.stores if kind == 'assign' and field_path(a) == (('param', 1), ['transform']) and is_call(v, 'identity')]
        # mem::replace(&mut self.transform, identity()) overwrites as well
        ids += [pt for a, v, pt, kind in can.stores if kind == 'call' and is_self_field(strip_all(a), 'transform') and is_call(strip_all(v), 'mem::replace')
                and len(strip_all(v)[2]) == 2 and is_call(strip_all(strip_all(v)[2][1]), 'identity')]
        okid = any(can.cfg.dominates(pt[0], bi2) for pt in ids)
        # ... and it is still the identity when fill() runs: no other store to self.transform can reach the fill after it
        others = [pt for a, v, pt, kind in can.stores if kind == 'assign' and field_path(a) == (('param', 1), ['transform']) and not is_call(v, 'identity')]
        for pt in others:
            if can.cfg.can_reach(pt[0], [bi2]) and any(can.cfg.dominates(i2[0], pt[0]) or i2[0] == pt[0] for i2 in ids) and (pt[0] != bi2):
                okid = False
            if pt[0] == bi2:
                okid = False
        ctx.check(okid, R, ckey + '|slow route identity', call_line(c, bi2), 'transform = identity before the clipped fill', 'clear\'s clipped route fills (0,0,width,height) under the current transform instead of the identity: it differs from the direct clear whenever a transform is set')
        rects = [ct3 for bi3, d, ct3 in calls_in(ctx, c) if d == 'raqote::path_builder::PathBuilder::rect']
        ok = len(rects) == 1 and const_val(rects[0][2][1]) == 0 and const_val(rects[0][2][2]) == 0 and is_self_field(strip_casts(rects[0][2][3], ('IntToFloat',)), 'width') and is_self_field(strip_casts(rects[0][2][4], ('IntToFloat',)), 'height')
        ctx.check(ok, R, ckey + '|slow rect', c.loc(), 'rect(0, 0, width, height)', 'clear\'s clipped route does not cover (0, 0, width, height)')


def r14_3(ctx):
    R = 'R14.3'
    b = ctx.body(DT + 'fill_rect', R)
    an = ctx.an(b)
    key = 'draw_target::DrawTarget::fill_rect'
    def opt_field(t, name):
        t = strip_all(t)
        r, nm = field_path(t)
        return nm == [name]
    for bi, d, ct in calls_in(ctx, b):
        if d == DT + 'composite':
            ok = strip_all(ct[2][1]) in (('param', 6), ('deref', ('param', 6))) and opt_field(ct[2][5], 'blend_mode') and field_path(strip_all(ct[2][5]))[0] == ('param', 7) and opt_field(ct[2][6], 'alpha') and field_path(strip_all(ct[2][6]))[0] == ('param', 7)
            ctx.check(ok, R, key + '|fast route params', call_line(b, bi), 'composite(src, .., options.blend_mode, options.alpha)', 'the fast route does not composite with (src, options.blend_mode, options.alpha)')
        if d == DT + 'fill':
            ok = strip_all(ct[2][2]) in (('param', 6), ('deref', ('param', 6))) and strip_all(ct[2][3]) in (('param', 7), ('deref', ('param', 7)))
            ctx.check(ok, R, key + '|slow route params', call_line(b, bi), 'fill(path, src, options)', 'the path route does not pass src and options unchanged to fill')
            rects = [ct3 for bi3, d3, ct3 in calls_in(ctx, b) if d3 == 'raqote::path_builder::PathBuilder::rect']
            ok = len(rects) == 1 and tuple(rects[0][2][1:]) == (('param', 2), ('param', 3), ('param', 4), ('param', 5))
            ctx.check(ok, R, key + '|slow route rect', call_line(b, bi), 'rect(x, y, width, height)', 'the path route does not fill rect(x, y, width, height)')
    f = ctx.body(DT + 'fill', R)
    n = 0
    fan = ctx.an(f)
    fsites = []
    for bi, d, ct in calls_in(ctx, f):
        if d == DT + 'composite':
            # one composite call fed by a mask chosen per antialias mode counts once per mode
            fsites.extend((bi, ct2) for _bb, ct2 in shared.call_variants(fan, bi, ct, args=[2]))
    for bi, ct in fsites:
        n += 1
        ok = strip_all(ct[2][1]) in (('param', 3), ('deref', ('param', 3))) and field_path(strip_all(ct[2][5])) == (('param', 4), ['blend_mode']) and field_path(strip_all(ct[2][6])) == (('param', 4), ['alpha'])
        ctx.check(ok, R, 'draw_target::DrawTarget::fill|composite params@%d' % n, call_line(f, bi), 'composite(src, .., options.blend_mode, options.alpha)', 'fill does not composite with (src, options.blend_mode, options.alpha)')
        ctx.check(strip_all(ct[2][3]) == strip_all(ct[2][4]) and is_call(strip_all(ct[2][3]), 'Rasterizer::get_bounds'), R, 'draw_target::DrawTarget::fill|rects@%d' % n, call_line(f, bi), 'mask_rect = rect = rasterizer bounds', 'fill composites with a rect / mask_rect other than the rasteriser bounds that sized the mask')
    ctx.floor(R, 'composite calls in fill', n, 2)


def _r19_3(ctx):
    import props.c19 as c19
    c19.r19_3(ctx)


_r19_3.__name__ = 'r19_3'


def run(ctx):
    import props.c13 as c13
    import props.c11 as c11
    import statecoh
    import engine
    engine.run_rules(ctx, [r14_1, dt.r02_4, dt.r02_5, r14_3, c13.r13_4, c13.r13_5, dt.r03_8, ras.r01_5, dt.r03_2, dt.r03_3, dt.r03_9, dt.r06_1, _r19_3, c11.r11_7, ras.r01_6, ras.r01_11, statecoh.r10_6, ras.r10_5])
