"""C11 — the current transform acts on geometry and sources as one user space."""
from util import *
from terms import fmt, subterms, Deps
import shared
import dt
import ras
import engine
import props.c12 as c12
import props.c13 as c13
import props.c15 as c15
import props.c20 as c20

META = {
    'explanation': 'Static rules: R11.1 (=R08.1) every point of every op goes through self.transform.transform_point into its own argument slot; '
                   'R11.2 composite computes self.transform.inverse() first, returns on None before touching anything, and hands the inverse to '
                   'choose_shader, where every non-solid arm builds its matrix as ti.then(source transform) (R12.3/R13.1); R11.3 stroke flattens '
                   'with scaled_tolerance(0.1, &self.transform) = x / sqrt(|det|); R11.4 (=R06.5) pop_layer and clear restore the transform; '
                   'R11.5 device-space operations (push_clip_rect, pop_clip, push_layer*, composite_surface family) never read the transform, '
                   'directly or through local callees, and mask() passes device-space rectangles; R11.6 (=R20.3) Path::transform maps every point.',
    'decides': ['R11.10 whether apply_path hands an op to the rasteriser does not depend on the transform (only a determinant == 0 test may)', 'R08.3/R08.4 curve tolerances in device space are constants', 'R13.3 repeat shader covers the whole span', 'R11.1 geometry goes through the CTM', 'R11.2 sources use inverse CTM then source transform; singular CTM draws nothing', 'R11.3 stroke tolerance scales with the CTM',
                'R11.4 transform restored by pop_layer/clear', 'R11.5 device-space operations ignore the CTM', 'R11.6 Path::transform', 'R11.7 user-space and device-space quantities are never compared or combined except under transform == identity', 'R11.8 a method drawing its caller\'s Source never writes self.transform'],
    'does_not_decide': ['bit-identity of CTM vs pre-transformed path beyond the shared transform_point call', 'sampling positions as numbers', 'line width scaling as pixels'],
    'assumptions': ['euclid Transform2D::inverse/then/transform_point/determinant (external)'],
    'trusted_base': ['euclid 0.22.14'],
}

DT = dt.DT


def r11_2(ctx):
    R = 'R11.2'
    b = ctx.body(DT + 'composite', R)
    an = ctx.an(b)
    key = 'draw_target::DrawTarget::composite'
    inv = [(bi, ct) for bi, d, ct in calls_in(ctx, b) if d and d.endswith('Transform2D::<T, Src, Dst>::inverse')]
    if not ctx.check(len(inv) == 1 and is_self_field(strip_all(inv[0][1][2][0]), 'transform'), R, key + '|inverse', b.loc(), 'self.transform.inverse()', 'composite does not compute self.transform.inverse() exactly once'):
        return
    ibi, ict = inv[0]
    ms = [m for m in matches(ctx, b, 'Option') if m.scrut == ict or strip_all(m.scrut) == ict]
    if not ctx.check(len(ms) == 1, R, key + '|match on inverse', b.loc(), 'match on the inverse', 'no match on the result of inverse() (fail closed)'):
        return
    m = ms[0]
    none_t = m.arms.get('None', m.otherwise)
    region = arm_region(an.cfg, m.bb, none_t) if none_t is not None else set()
    quiet = all(b.blocks[x]['t']['k'] in ('goto', 'return') for x in region) and not any(pt[0] in region for a, v, pt, kind in an.stores)
    # the None arm must lead to return without rejoining the drawing code
    draws = [bi for bi, d, ct in calls_in(ctx, b) if d in (DT + 'choose_blitter', 'raqote::blitter::choose_shader', 'raqote::blitter::Blitter::blit_span')]
    rejoin = any(an.cfg.can_reach(none_t, [x]) for x in draws) if none_t is not None else True
    ctx.check(quiet and not rejoin and bool(draws), R, key + '|singular draws nothing', b.loc(), 'None => return before any drawing', 'with a non-invertible transform composite does not return before drawing')
    # everything that draws is dominated by the Some edge
    some_t = m.arms.get('Some')
    ok = some_t is not None and all(an.cfg.edge_dominates(m.bb, some_t, x) for x in draws)
    ctx.check(ok, R, key + '|drawing under Some(inverse)', b.loc(), 'all drawing dominated by Some(inverse)', 'some drawing in composite is not guarded by the transform being invertible')
    cs = [ct for bi, d, ct in calls_in(ctx, b) if d == 'raqote::blitter::choose_shader']
    ok = len(cs) == 1
    if ok:
        a0 = strip_all(cs[0][2][0])
        ok = a0[0] == 'field' and a0[4] == 'Some' and a0[1] == ict and strip_all(cs[0][2][1]) in (('param', 2), ('deref', ('param', 2))) and cs[0][2][2] == ('param', 7)
    ctx.check(ok, R, key + '|choose_shader(ti, src, alpha)', b.loc(), 'choose_shader(&inverse, src, alpha, ..)', 'composite does not pass (the inverse transform, src, alpha) to choose_shader')


def r11_3(ctx):
    """stroke flattens with a tolerance that shrinks with the transform's scale: c / sqrt(|det(self.transform)|)
    (through the scaled_tolerance helper, or written out in place)"""
    import geomalg
    R = 'R11.3'
    b = ctx.body(DT + 'stroke', R)
    an = ctx.an(b)
    key = 'draw_target::DrawTarget::stroke'
    fl = [ct for bi, d, ct in calls_in(ctx, b) if d == 'raqote::path_builder::Path::flatten']
    ok = len(fl) == 1 and strip_all(fl[0][2][0]) in (('param', 2), ('deref', ('param', 2)))
    shown = ''
    if ok:
        tol = strip_all(fl[0][2][1])
        for _ in range(3):      # see through single-expression local helpers
            if tol[0] == 'call' and isinstance(tol[1], str) and tol[1].startswith('raqote::'):
                hb = ctx.F.body(tol[1])
                rts = shared.ret_terms(ctx, hb) if hb is not None else []
                if len(rts) == 1:
                    tol = strip_all(geomalg.tsubst(rts[0], {i2 + 1: a for i2, a in enumerate(tol[2])}))
                    continue
            break
        shown = fmt(b, tol)
        ok = tol[0] == 'bin' and tol[1] == 'Div' and const_val(tol[2]) is not None and const_val(tol[2]) > 0
        if ok:
            den = strip_all(tol[3])
            ok = is_call(den, 'sqrt') and is_call(strip_all(den[2][0]), 'abs') and is_call(strip_all(strip_all(den[2][0])[2][0]), 'determinant')
            if ok:
                m = strip_all(strip_all(strip_all(den[2][0])[2][0])[2][0])
                while m[0] in ('ref', 'deref') and not is_self_field(m, 'transform'):
                    m = strip_all(m[1])
                ok = is_self_field(m, 'transform')
    ctx.check(ok, R, key + '|tolerance', b.loc(), 'flatten(path, c / sqrt(|det(self.transform)|))', 'stroke does not flatten the path with a tolerance of the form c / self.transform.determinant().abs().sqrt() (it is %s): the flattening error would not stay constant in device pixels under scaling transforms' % (shown or 'not a single flatten(path, ..) call'))


def r11_5(ctx):
    R = 'R11.5'
    cg = CallGraph(ctx.F)
    names = ['push_clip_rect', 'pop_clip', 'push_layer', 'push_layer_with_blend', 'composite_surface', 'copy_surface', 'blend_surface', 'blend_surface_with_alpha', 'get_data', 'get_data_mut', 'width', 'height']
    n = 0
    for nm in names:
        q = DT + nm
        b = ctx.body(q, R)
        reach = cg.reachable([q])
        bad = []
        for rq in sorted(reach):
            rb = ctx.F.body(rq)
            if rb is None:
                continue
            an = ctx.an(rb)
            def scan(t):
                return any(x[0] == 'field' and x[2] == 'transform' and x[3] == 'raqote::draw_target::DrawTarget' for x in subterms(t))
            hit = False
            for bi, k2, s in rb.statements():
                if s['k'] == 'assign' and bi in an.cfg.reach and (scan(an.rvalue_term(bi, k2, s['rv'])) or scan(an.place_term(bi, k2, s['p']))):
                    hit = True
            for bi, d, ct in calls_in(ctx, rb):
                if scan(ct):
                    hit = True
            if hit:
                bad.append(short(rq))
        n += 1
        ctx.check(not bad, R, short(q) + '|ignores the transform', b.loc(), 'no read of self.transform in %d reachable bodies' % len(reach), '%s is a device-space operation but reads the current transform (in %s)' % (short(q), bad))
    ctx.floor(R, 'device-space operations', n, 10)
    # mask(): rectangles are functions of (x, y, mask size) only
    b = ctx.body(DT + 'mask', R)
    an = ctx.an(b)
    cs = [ct for bi, d, ct in calls_in(ctx, b) if d == DT + 'composite']
    ok = len(cs) == 1
    if ok:
        for a in (cs[0][2][3], cs[0][2][4]):
            D = Deps(an)
            lv = D.closure(a)
            if any(l[0] == 'path' and ('f', 'transform') in l[2] for l in lv) or ('param', 1) in lv:
                ok = False
    ctx.check(ok, R, 'draw_target::DrawTarget::mask|device-space rects', b.loc(), 'mask rectangles do not depend on self', 'the rectangles mask() passes to composite depend on the DrawTarget state (transform)')


USER_PARAMS = {
    'fill_rect': (2, 3, 4, 5), 'draw_image_with_size_at': (2, 3, 4, 5), 'draw_image_at': (2, 3),
    'draw_text': (5,), 'draw_glyphs': (5,),
}
CMP_OPS = ('Eq', 'Ne', 'Lt', 'Le', 'Gt', 'Ge')
CMP_CALLS = ('PartialEq::eq', 'PartialEq::ne', 'PartialOrd::lt', 'PartialOrd::le', 'PartialOrd::gt', 'PartialOrd::ge', 'PartialOrd::partial_cmp',
             'f32::min', 'f32::max', 'cmp::min', 'cmp::max', 'Ord::min', 'Ord::max',
             '::intersection', '::intersection_unchecked', '::intersects', '::contains', '::contains_box', '::union')


def r11_7(ctx):
    """coordinate-space discipline: a DrawTarget method never compares, adds or subtracts a user-space quantity (the
    coordinates and sizes its caller passed, the points of a Path) and a device-space one (the surface size, the path
    cursor, clip rectangles, anything that came out of transform_point) — unless it has established that the transform
    is the identity.  Only self.transform relates the two spaces."""
    R = 'R11.7'
    PATHOP = 'raqote::path_builder::PathOp'
    nfun = nsite = 0
    for q in sorted(ctx.F.bodies):
        if not q.startswith(DT) or '{closure' in q or '::' in q[len(DT):]:
            continue
        b = ctx.F.body(q)
        if not b.argc or 'DrawTarget' not in b.local_ty(1):
            continue
        nfun += 1
        an = ctx.an(b)
        name = q[len(DT):]
        upar = set(USER_PARAMS.get(name, ()))

        def space(t):
            t = strip_all(t)
            out = set()
            stack = [t]
            while stack:
                x = stack.pop()
                if not isinstance(x, tuple) or not x:
                    continue
                h = x[0]
                if h == 'call':
                    d = x[1] if isinstance(x[1], str) else ''
                    if d.endswith('::transform_point') or d.endswith('::transform_vector') or d in (DT + 'clip_bounds', 'raqote::rasterizer::Rasterizer::get_bounds'):
                        out.add('device')
                        continue
                    if d.endswith('Transform2D::<T, Src, Dst>::inverse') or d.endswith('::identity'):
                        continue
                if h == 'param' and len(x) == 2 and x[1] in upar:
                    out.add('user')
                    continue
                if h == 'field' and len(x) >= 4:
                    if x[3] == PATHOP or (x[3] == 'raqote::path_builder::Path' and x[2] == 'ops'):
                        out.add('user')
                        continue
                    if x[3] == 'raqote::draw_target::DrawTarget' and x[2] in ('width', 'height', 'current_point', 'first_point'):
                        out.add('device')
                        continue
                    if x[3] in ('raqote::draw_target::Clip', 'raqote::draw_target::Layer') and x[2] == 'rect':
                        out.add('device')
                        continue
                for y in (x[1:] if isinstance(x[0], str) else x):
                    if isinstance(y, tuple):
                        stack.append(y)
            return out

        def identity_established(bi):
            for op, a, b2, si in shared.facts_at(ctx, b, bi):
                if op == 'true' and is_call(a, 'PartialEq::eq') and len(a[2]) == 2:
                    x0, x1 = strip_all(a[2][0]), strip_all(a[2][1])
                    if (is_self_field(x0, 'transform') and is_call(x1, 'identity')) or (is_self_field(x1, 'transform') and is_call(x0, 'identity')):
                        return True
            return False

        seen = set()
        sites = []

        def scan(t, bi):
            for x in subterms(t):
                pair = None
                if x[0] == 'bin' and x[1] in CMP_OPS + ('Add', 'Sub'):
                    pair = (x[2], x[3], x[1])
                elif x[0] == 'call' and isinstance(x[1], str) and any(x[1].endswith(c) for c in CMP_CALLS) and len(x[2]) == 2:
                    pair = (x[2][0], x[2][1], x[1].split('::')[-1])
                if pair is None:
                    continue
                sa, sb = space(pair[0]), space(pair[1])
                if len(sa) == 1 and len(sb) == 1 and sa != sb:
                    k = (nosite(x), )
                    if k not in seen:
                        seen.add(k)
                        sites.append((bi, x, pair))

        for si, t in b.terminators('switch'):
            if si in an.cfg.reach:
                scan(an.term_at(si, len(b.blocks[si]['st']), t['o']), si)
        for bi, d, ct in calls_in(ctx, b):
            scan(ct, bi)
        for d in an.defs:
            if d.kind == 'assign' and not d.partial and d.bb in an.cfg.reach:
                scan(an.def_term(d), d.bb)
        bad = [(bi, x, pair) for bi, x, pair in sites if not identity_established(bi)]
        nsite += len(sites)
        key = short(q) + '|user and device space kept apart'
        if bad:
            bi, x, pair = bad[0]
            ctx.fail(R, key, call_line(b, bi), '%s relates the user-space %s to the device-space %s (%s) without going through self.transform and without having tested that the transform is the identity: under any other transform the two are in different coordinate systems'
                     % (short(q), fmt(b, pair[0] if space(pair[0]) == {'user'} else pair[1]), fmt(b, pair[1] if space(pair[0]) == {'user'} else pair[0]), pair[2]))
        else:
            ctx.ok(R, key, b.loc(), '%d mixed sites, all under transform == identity' % len(sites))
    ctx.floor(R, 'DrawTarget methods scanned for space mixing', nfun, 30)
    ctx.floor(R, 'mixed-space sites met (the fast path of fill_rect is one)', nsite, 1)


def r11_9(ctx):
    """a box is mapped and digitised as a box.  (1) The image of an axis-aligned box under the transform is bounded by the
    images of all four corners (`outer_transformed_box`); a method that maps only `b.min` and `b.max` through
    transform_point and goes on using them as min and max has the bounding box for translations and positive scales
    only.  (2) A float bound that becomes an integer pixel bound is rounded outwards — `floor` for a min, `ceil` for a
    max, `round_out` for the box; an `as i32` cast truncates towards zero and `round()` goes to nearest, both of which
    can cut a partly covered pixel row or column off (a cull or clip rectangle built that way drops visible pixels)."""
    R = 'R11.9'
    nfun = 0
    for q in sorted(ctx.F.bodies):
        if not q.startswith(DT) or '{closure' in q or '::' in q[len(DT):]:
            continue
        b = ctx.F.body(q)
        if not b.argc or 'DrawTarget' not in b.local_ty(1):
            continue
        nfun += 1
        an = ctx.an(b)
        def corner(t):
            t = strip_all(t)
            if t[0] == 'field' and t[2] in ('min', 'max') and (t[3] or '').endswith('euclid::Box2D'):
                return (nosite(strip_all(t[1])), t[2])
            return None
        mapped = {}
        others = set()
        casts = []
        rounds = []
        seen = set()
        def scan(t0, bb):
            for x in subterms(t0):
                k = nosite(x)
                if k in seen:
                    continue
                seen.add(k)
                if x[0] == 'call' and isinstance(x[1], str) and x[1].endswith('::transform_point') and len(x[2]) == 2:
                    c = corner(x[2][1])
                    if c is not None:
                        mapped.setdefault(c[0], {})[c[1]] = bb
                    else:
                        for y in subterms(x[2][1]):
                            cy = corner(y)
                            if cy is not None:
                                others.add(cy[0])
                if x[0] == 'cast' and x[1] == 'FloatToInt':
                    inner = strip_all(x[3])
                    if inner[0] == 'field' and inner[2] in ('x', 'y') and corner(inner[1]) is not None:
                        casts.append((bb, inner, corner(inner[1])[1]))
                if x[0] == 'call' and isinstance(x[1], str) and x[1].split('::')[-1] == 'round' and ('Box2D' in x[1] or 'Point2D' in x[1]) and x[2]:
                    rounds.append((bb, x))
        for d in an.defs:
            if d.kind == 'assign' and not d.partial and d.bb in an.cfg.reach:
                scan(an.def_term(d), d.bb)
        for bi, dd, ct in calls_in(ctx, b):
            scan(ct, bi)
        for si, t in b.terminators('switch'):
            if si in an.cfg.reach:
                scan(an.term_at(si, len(b.blocks[si]['st']), t['o']), si)
        two = [(bx, cs) for bx, cs in mapped.items() if set(cs) == {'min', 'max'} and bx not in others]
        key = short(q)
        if two:
            bx, cs = two[0]
            ctx.fail(R, key + '|box mapped by two corners', call_line(b, cs['min']), '%s maps only the min and the max corner of a box through self.transform and keeps using them as a box: under a rotation, a mirror or a shear the images of the two corners do not bound the image of the box (use outer_transformed_box / all four corners) — shapes that are partly visible are culled' % short(q))
        elif casts:
            bb, inner, which = casts[0]
            ctx.fail(R, key + '|bound truncated', call_line(b, bb), '%s turns the float bound %s into an integer with `as i32`, which truncates towards zero: a %s bound must be rounded %s (floor/ceil or round_out), or the partly covered edge pixels fall outside the integer box' % (short(q), fmt(b, inner)[:60], which, 'down' if which == 'min' else 'up'))
        elif rounds:
            bb, x = rounds[0]
            ctx.fail(R, key + '|bound rounded to nearest', call_line(b, bb), '%s rounds a float box/point to the nearest integers (%s): a bounding box must be rounded outwards (round_out), or edge pixels covered by less than half fall outside it' % (short(q), fmt(b, x)[:60]))
        else:
            ctx.ok(R, key + '|boxes mapped and digitised as boxes', b.loc(), None)
    ctx.floor(R, 'DrawTarget methods scanned for box handling', nfun, 30)


def r11_8(ctx):
    """a method that draws with its caller's Source draws it under its caller's transform: it never writes
    self.transform (pop_layer and clear, which do, draw sources of their own making)"""
    R = 'R11.8'
    n = 0
    for q in sorted(ctx.F.bodies):
        if not q.startswith(DT) or '{closure' in q or '::' in q[len(DT):]:
            continue
        b = ctx.F.body(q)
        if not b.argc or 'DrawTarget' not in b.local_ty(1):
            continue
        if not any('draw_target::Source' in b.local_ty(i) for i in range(2, b.argc + 1)):
            continue
        n += 1
        an = ctx.an(b)
        hits = [pt[0] for a, v, pt, kind in an.stores if field_path(a)[0] == ('param', 1) and field_path(a)[1][:1] == ['transform']]
        for bi, d, ct in calls_in(ctx, b):
            if d == DT + 'set_transform':
                hits.append(bi)
            elif any(strip_all(a)[0] in ('ref', 'addr') and 'mut' in str(strip_all(a)[1:2]) and is_self_field(strip_all(a)[-1], 'transform') for a in ct[2] if isinstance(a, tuple)):
                hits.append(bi)
        ctx.check(not hits, R, short(q) + '|source drawn under the caller\'s transform', call_line(b, hits[0]) if hits else b.loc(), 'no write to self.transform',
                  '%s receives its caller\'s Source and changes self.transform before drawing: a gradient or image source is then positioned by a different transform than the one the caller set (sources are fixed in user space)' % short(q))
    ctx.floor(R, 'methods drawing a caller-supplied Source', n, 4)


def r11_10(ctx):
    """whether a path's ops reach the rasteriser does not depend on the transform: no comparison that dominates one of
    apply_path's move_to/line_to/quad_to/cubic_to/close calls — or a call of apply_path in fill / push_clip, or of fill in
    stroke — reads self.transform, except a test of its determinant against exactly zero (a singular transform leaves
    no area).  A transform-dependent skip drops the geometry for a whole class of invertible transforms (e.g.
    `!(det > 0.)` drops every reflection).  A test with such calls on both sides is a choice between two ways of adding
    the ops (an identity fast path), not a gate"""
    R = 'R11.10'
    total = 0
    for fn, names in (('apply_path', ('move_to', 'line_to', 'quad_to', 'cubic_to', 'close')), ('fill', ('apply_path',)), ('push_clip', ('apply_path',)), ('stroke', ('fill',))):
        b = ctx.body(DT + fn, R)
        an = ctx.an(b)
        key = 'draw_target::DrawTarget::%s' % fn
        sites = [(bi, d, ct) for bi, d, ct in calls_in(ctx, b) if d and d.startswith(DT) and d[len(DT):] in names]
        total += len(sites)
        def reads_transform(t):
            # condition terms are expanded through locals and inlined helpers: the read of self.transform is a subterm
            return any(x[0] == 'field' and x[2] == 'transform' and strip_all(x[1]) in (('param', 1), ('deref', ('param', 1))) for x in subterms(t))
        def singular_test(c):
            while c[0] == 'un' and c[1] == 'Not':
                c = c[2]
            if c[0] == 'bin' and c[1] in ('Eq', 'Ne'):
                for x, z in ((c[2], c[3]), (c[3], c[2])):
                    if const_val(z) == 0 and is_call(strip_all(x), 'determinant'):
                        return True
            return False
        bad = {}
        sides = {}
        for bi, d, ct in sites:
            for cond, truth, si in bool_guards(ctx, b, bi):
                if reads_transform(cond) and not singular_test(cond):
                    sides.setdefault(si, {}).setdefault(truth, (cond, truth, d))
        for si, by in sides.items():
            if len(by) == 1:
                bad[si] = list(by.values())[0]
        if not bad:
            ctx.ok(R, key + '|ops independent of the transform', b.loc(), 'no comparison on the transform decides whether the geometry is handed on (%d calls)' % len(sites))
        for si, (cond, truth, d) in sorted(bad.items()):
            ctx.fail(R, key + '|ops independent of the transform', b.loc(b.blocks[si]['t'].get('sp')),
                     'whether %s hands the path to the rasteriser depends on the transform: %s is reached only when `%s` is %s — geometry is dropped for every transform on the other side of that test (a test of the determinant against exactly zero would be the only exact one)'
                     % (fn, d.split('::')[-1], fmt(b, cond)[:120], 'true' if truth else 'false'))
    ctx.floor(R, 'edge-adding calls of apply_path and calls handing a path on', total, 8)


def _r04_5(ctx):
    import sd
    sd.r04_5(ctx)


_r04_5.__name__ = 'r04_5'


def run(ctx):
    import props.c14 as c14
    engine.run_rules(ctx, [ras.r08_1, ras.r08_34, r11_2, r11_3, r11_7, r11_8, r11_9, r11_10, c14.r14_1, _r04_5, dt.r11_6, dt.r06_5, r11_5, c13.r13_1, c13.r13_3, c13.r13_5, c12.r12_1, c12.r12_2, c12.r12_3, c20.r20_3, lambda c: c15.r15_3(c, c.body(c15.CS, 'R15.3'))])
