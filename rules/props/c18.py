"""C18 — premultiplied-alpha validity is preserved by every drawing operation."""
from util import *
from terms import fmt, subterms
import shared
import dt
import engine

META = {
    'explanation': 'The invariant r,g,b <= a under 28 blend formulas is arithmetic inside sw-composite and is NOT decided. Decided clauses: '
                   'R18.1 SolidSource::from_unpremultiplied_argb stores a unchanged and each of r,g,b as muldiv255(a, own channel), and '
                   'From<Color> forwards (a(), r(), g(), b()) to the parameters of the same name; R03.4 every coverage-weighted write is '
                   'interp(old, blend(src, old), w) / over_in(src, old, w) with whole-word combinators on operands of one pixel; R03.6 every '
                   'float->byte alpha conversion saturates at 255 (a scale above 256 breaks r,g,b <= a by overflowing into the neighbouring '
                   'channel); R03.5 the solid colour is scaled by the whole-word alpha_mul.',
    'decides': ['R06.3 layer opacity is applied through the coverage weighting of composite', 'R03.11 global alpha converted to the 0..=256 scale exactly once', 'R18.1 premultiplying conversions', 'R18.2 alpha-carrying image shaders scale texels with the whole-word alpha_mul family', 'R03.4 whole-word combinators with the right operand roles', 'R03.6 alpha scale factors saturate', 'R03.5 solid colour scaled by alpha_mul'],
    'does_not_decide': ['the invariant itself under blending, coverage interpolation and source-over (sw-composite arithmetic)', 'gradient and image sampling'],
    'assumptions': ['muldiv255(a, c) <= a for c <= 255; alpha_mul/lerp/over_in keep r,g,b <= a for factors <= 256 (external, sw-composite)'],
    'trusted_base': ['sw-composite 0.7.16'],
    'technique': 'static analysis: MIR term matching of the conversion functions and compositing call sites (narrow claim: conversions and scale-factor saturation only)',
}


def r18_1(ctx):
    R = 'R18.1'
    b = ctx.body('raqote::draw_target::SolidSource::from_unpremultiplied_argb', R)
    rts = shared.ret_terms(ctx, b)
    ok = len(rts) == 1 and rts[0][0] == 'agg'
    names = {'a': 1, 'r': 2, 'g': 3, 'b': 4}
    if ok:
        f = dict(rts[0][4])
        ok = f.get('a') == ('param', 1)
        for ch in ('r', 'g', 'b'):
            t = strip_casts(f.get(ch, ('unknown',)), ('IntToInt',))
            okc = is_call(t, 'sw_composite::muldiv255') and {strip_casts(t[2][0], ('IntToInt',)), strip_casts(t[2][1], ('IntToInt',))} == {('param', 1), ('param', names[ch])}
            ctx.check(okc, R, 'draw_target::SolidSource::from_unpremultiplied_argb|' + ch, b.loc(), '%s = muldiv255(a, %s)' % (ch, ch), 'channel %s is %s, expected muldiv255(a, %s)' % (ch, fmt(b, f.get(ch, ('unknown', '?'))), ch))
    ctx.check(ok, R, 'draw_target::SolidSource::from_unpremultiplied_argb|a', b.loc(), 'a stored unchanged', 'alpha is not stored unchanged')
    fb = ctx.body('<raqote::draw_target::SolidSource as std::convert::From<sw_composite::Color>>::from', R, optional=True)
    if fb is None:
        cands = [bb for q, bb in ctx.F.bodies.items() if q.startswith('<raqote::draw_target::SolidSource as') and q.endswith('::from')]
        fb = cands[0] if cands else None
    if fb is None:
        ctx.fail(R, 'draw_target::SolidSource::from(Color)|anchor', '-', 'impl From<Color> for SolidSource not found (fail closed)')
        return
    cs = [ct for bi, d, ct in calls_in(ctx, fb) if d == 'raqote::draw_target::SolidSource::from_unpremultiplied_argb']
    ok = len(cs) == 1
    if ok:
        got = []
        for a in cs[0][2]:
            got.append(callee_last(a) if a[0] == 'call' else '?')
        ok = got == ['a', 'r', 'g', 'b']
    ctx.check(ok, R, 'draw_target::SolidSource::from(Color)|order', fb.loc(), 'from_unpremultiplied_argb(color.a(), color.r(), color.g(), color.b())', 'From<Color> does not forward (a, r, g, b) in order')


def r18_1b(ctx):
    """every way of turning an (unpremultiplied) Color into a source goes through the premultiplying conversion"""
    R = 'R18.1'
    n = 0
    for q, b in sorted(ctx.F.bodies.items()):
        an = ctx.an(b)
        for bi, k2, s in b.statements():
            if s['k'] == 'assign' and s['rv']['k'] == 'agg' and s['rv'].get('adt') == 'raqote::draw_target::SolidSource' and bi in an.cfg.reach:
                t = an.rvalue_term(bi, k2, s['rv'])
                from_color = [x for x in subterms(t) if x[0] == 'call' and isinstance(x[1], str) and x[1].startswith('sw_composite::Color::')]
                raw = []
                for fn, ft in t[4]:
                    if fn in ('r', 'g', 'b'):
                        ft2 = strip_casts(ft, ('IntToInt',))
                        if ft2[0] == 'call' and isinstance(ft2[1], str) and ft2[1].startswith('sw_composite::Color::'):
                            raw.append(fn)
                n += 1
                ctx.check(not raw, R, short(q) + '|SolidSource from Color channels', b.loc(s['sp']), 'no SolidSource built from raw Color channels',
                          '%s builds a SolidSource whose %s channel(s) are the raw (unpremultiplied) channels of a Color: translucent colours give r,g,b > a' % (short(q), '/'.join(raw)))
    fb = None
    for q, b in ctx.F.bodies.items():
        if q.startswith('<raqote::draw_target::Source as std::convert::From<sw_composite::Color>>') or (q.startswith('<raqote::draw_target::Source as') and 'Color' in q and q.endswith('::from')):
            fb = b
    if fb is None:
        ctx.fail(R, 'draw_target::Source::from(Color)|anchor', '-', 'impl From<Color> for Source not found (fail closed)')
        return
    rts = shared.ret_terms(ctx, fb)
    ok = len(rts) == 1 and rts[0][0] == 'agg' and rts[0][3] == 'Solid'
    if ok:
        inner = strip_all(rts[0][4][0][1])
        ok = inner[0] == 'call' and inner[2] and inner[2][0] == ('param', 1)
        if ok:
            ci = ctx.an(fb).callee_info(inner[3]) or {}
            target = ci.get('res') or ci.get('def') or ''
            ok = target.startswith('<raqote::draw_target::SolidSource as') and target.endswith('::from')
    ctx.check(ok, R, 'draw_target::Source::from(Color)|premultiplies', fb.loc(), 'Source::from(color) = Solid(SolidSource::from(color))', 'Source::from(Color) does not go through SolidSource::from(color) (the premultiplying conversion): %s' % [fmt(fb, t) for t in rts])


def r18_2(ctx):
    """image shaders that carry a global alpha scale every texel with sw-composite's whole-word scaling
    (alpha_mul / fetch_*_alpha) by self.alpha: a hand-rolled lane computation that leaks one channel into its
    neighbour produces r,g,b > a"""
    R = 'R18.2'
    SCALERS = ('sw_composite::alpha_mul', 'sw_composite::fetch_bilinear_alpha', 'sw_composite::fetch_nearest_alpha')
    n_impl = n_store = 0
    for q, b in sorted(ctx.F.bodies.items()):
        if not (q.endswith('as raqote::blitter::Shader>::shade_span')):
            continue
        self_adt = q[1:].split(' as ')[0]
        an = ctx.an(b)
        has_alpha = _adt_has_field(ctx, self_adt, 'alpha')
        if not has_alpha:
            continue
        n_impl += 1
        for a, v, pt, kind in an.stores:
            if kind != 'assign':
                continue
            n_store += 1
            v2 = strip_casts(v, ('IntToInt',))
            ok = v2[0] == 'call' and isinstance(v2[1], str) and v2[1] in SCALERS and is_self_field(strip_all(v2[2][-1]), 'alpha')
            ok = ok or is_inlined_alpha_mul(v2, lambda a: is_self_field(strip_all(a), 'alpha'))
            ctx.check(ok, R, short(q) + '|texel scaled by alpha_mul-family', b.loc(b.blocks[pt[0]]['st'][pt[1]]['sp']) if pt[1] < len(b.blocks[pt[0]]['st']) else b.loc(),
                      'pixel = %s(.., self.alpha)' % (v2[1].split('::')[-1] if ok else ''),
                      '%s writes %s: a shader with a global alpha must produce each pixel with alpha_mul / fetch_bilinear_alpha / fetch_nearest_alpha(.., self.alpha) (or alpha_mul written out exactly), which scale all four channels of the word alike (a hand-written lane computation can let one channel spill into its neighbour and yield r,g,b > a)' % (short(q), fmt(b, v)[:200]))
    ctx.floor(R, 'alpha-carrying image shaders', n_impl, 4)
    ctx.floor(R, 'pixel stores in alpha-carrying image shaders', n_store, 6)


COMM = ('BitAnd', 'BitOr', 'Mul', 'Add', 'BitXor')


def _canon(t):
    """commutative operands sorted, integer constants folded (u32), casts between integer types dropped"""
    t = strip_casts(t, ('IntToInt',))
    if t[0] in ('const', 'cnamed'):
        v = const_val(t)
        return ('c', v & 0xffffffff) if isinstance(v, int) else t
    if t[0] == 'un' and t[1] == 'Not':
        x = _canon(t[2])
        return ('c', (~x[1]) & 0xffffffff) if x[0] == 'c' else ('un', 'Not', x)
    if t[0] == 'bin':
        a, b = _canon(t[2]), _canon(t[3])
        if t[1] in COMM and repr(a) > repr(b):
            a, b = b, a
        return ('bin', t[1], a, b)
    return nosite(t)


def _bin(op, a, b):
    if op in COMM and repr(a) > repr(b):
        a, b = b, a
    return ('bin', op, a, b)


def is_inlined_alpha_mul(v, is_alpha):
    """v is sw-composite's alpha_mul written out: ((x & M) * a >> 8) & M | ((x >> 8) & M) * a & !M with M = 0x00ff00ff"""
    c = _canon(v)
    M, NM, E = ('c', 0x00ff00ff), ('c', 0xff00ff00), ('c', 8)
    if not (c[0] == 'bin' and c[1] == 'BitOr'):
        return False
    for x_side in (c[2], c[3]):
        # dig x and a out of the red/blue half: ((x & M) * a >> 8) & M
        for cand in subterms(x_side):
            if cand[0] == 'bin' and cand[1] == 'Mul':
                for xm, a in ((cand[2], cand[3]), (cand[3], cand[2])):
                    if xm[0] == 'bin' and xm[1] == 'BitAnd' and M in (xm[2], xm[3]) and is_alpha(a):
                        x = xm[3] if xm[2] == M else xm[2]
                        rb = _bin('BitAnd', _bin('Shr', _bin('Mul', _bin('BitAnd', x, M), a), E), M)
                        ag = _bin('BitAnd', _bin('Mul', _bin('BitAnd', _bin('Shr', x, E), M), a), NM)
                        if c == _bin('BitOr', rb, ag):
                            return True
    return False


def _adt_has_field(ctx, adt, field):
    a = ctx.F.adts.get(adt)
    return bool(a) and any(f.get('name') == field for v in a.get('variants', []) for f in v.get('fields', []))


def _r15_4(ctx):
    import props.c15 as c15
    c15.r15_4(ctx)


_r15_4.__name__ = 'r15_4'


def run(ctx):
    engine.run_rules(ctx, [r18_1, r18_1b, r18_2, dt.r03_4, dt.r03_6, dt.r03_5, dt.r03_8, dt.r02_7, dt.r03_11, dt.r03_1, _r15_4, dt.r06_3])
