"""C18 — premultiplied-alpha validity is preserved by every drawing operation."""
from util import *
from terms import fmt, subterms
import shared
import dt
import engine

META = {
    'explanation': 'The invariant r,g,b <= a under 28 blend formulas is arithmetic inside sw-composite and is NOT decided. Decided clauses: '
                   'R18.1 SolidSource::from_unpremultiplied_argb stores a unchanged and each of r,g,b as muldiv255(a, own channel), and '
                   'From<Color> forwards (a(), r(), g(), b()) to the parameters of the same name; R03.4 every coverage-weighted write is '
                   'interp(old, blend(src, old), w) / over_in(src, old, w) with whole-word combinators on operands of one pixel; R03.6 every '
                   'float->byte alpha conversion saturates at 255 (a scale above 256 breaks r,g,b <= a by overflowing into the neighbouring '
                   'channel); R03.5 the solid colour is scaled by the whole-word alpha_mul.',
    'decides': ['R18.1 premultiplying conversions', 'R03.4 whole-word combinators with the right operand roles', 'R03.6 alpha scale factors saturate', 'R03.5 solid colour scaled by alpha_mul'],
    'does_not_decide': ['the invariant itself under blending, coverage interpolation and source-over (sw-composite arithmetic)', 'gradient and image sampling'],
    'assumptions': ['muldiv255(a, c) <= a for c <= 255; alpha_mul/lerp/over_in keep r,g,b <= a for factors <= 256 (external, sw-composite)'],
    'trusted_base': ['sw-composite 0.7.16'],
    'technique': 'static analysis: MIR term matching of the conversion functions and compositing call sites (narrow claim: conversions and scale-factor saturation only)',
}


def r18_1(ctx):
    R = 'R18.1'
    b = ctx.body('raqote::draw_target::SolidSource::from_unpremultiplied_argb', R)
    rts = shared.ret_terms(ctx, b)
    ok = len(rts) == 1 and rts[0][0] == 'agg'
    names = {'a': 1, 'r': 2, 'g': 3, 'b': 4}
    if ok:
        f = dict(rts[0][4])
        ok = f.get('a') == ('param', 1)
        for ch in ('r', 'g', 'b'):
            t = strip_casts(f.get(ch, ('unknown',)), ('IntToInt',))
            okc = is_call(t, 'sw_composite::muldiv255') and {strip_casts(t[2][0], ('IntToInt',)), strip_casts(t[2][1], ('IntToInt',))} == {('param', 1), ('param', names[ch])}
            ctx.check(okc, R, 'draw_target::SolidSource::from_unpremultiplied_argb|' + ch, b.loc(), '%s = muldiv255(a, %s)' % (ch, ch), 'channel %s is %s, expected muldiv255(a, %s)' % (ch, fmt(b, f.get(ch, ('unknown', '?'))), ch))
    ctx.check(ok, R, 'draw_target::SolidSource::from_unpremultiplied_argb|a', b.loc(), 'a stored unchanged', 'alpha is not stored unchanged')
    fb = ctx.body('<raqote::draw_target::SolidSource as std::convert::From<sw_composite::Color>>::from', R, optional=True)
    if fb is None:
        cands = [bb for q, bb in ctx.F.bodies.items() if q.startswith('<raqote::draw_target::SolidSource as') and q.endswith('::from')]
        fb = cands[0] if cands else None
    if fb is None:
        ctx.fail(R, 'draw_target::SolidSource::from(Color)|anchor', '-', 'impl From<Color> for SolidSource not found (fail closed)')
        return
    cs = [ct for bi, d, ct in calls_in(ctx, fb) if d == 'raqote::draw_target::SolidSource::from_unpremultiplied_argb']
    ok = len(cs) == 1
    if ok:
        got = []
        for a in cs[0][2]:
            got.append(callee_last(a) if a[0] == 'call' else '?')
        ok = got == ['a', 'r', 'g', 'b']
    ctx.check(ok, R, 'draw_target::SolidSource::from(Color)|order', fb.loc(), 'from_unpremultiplied_argb(color.a(), color.r(), color.g(), color.b())', 'From<Color> does not forward (a, r, g, b) in order')


def r18_1b(ctx):
    """every way of turning an (unpremultiplied) Color into a source goes through the premultiplying conversion"""
    R = 'R18.1'
    n = 0
    for q, b in sorted(ctx.F.bodies.items()):
        an = ctx.an(b)
        for bi, k2, s in b.statements():
            if s['k'] == 'assign' and s['rv']['k'] == 'agg' and s['rv'].get('adt') == 'raqote::draw_target::SolidSource' and bi in an.cfg.reach:
                t = an.rvalue_term(bi, k2, s['rv'])
                from_color = [x for x in subterms(t) if x[0] == 'call' and isinstance(x[1], str) and x[1].startswith('sw_composite::Color::')]
                raw = []
                for fn, ft in t[4]:
                    if fn in ('r', 'g', 'b'):
                        ft2 = strip_casts(ft, ('IntToInt',))
                        if ft2[0] == 'call' and isinstance(ft2[1], str) and ft2[1].startswith('sw_composite::Color::'):
                            raw.append(fn)
                n += 1
                ctx.check(not raw, R, short(q) + '|SolidSource from Color channels', b.loc(s['sp']), 'no SolidSource built from raw Color channels',
                          '%s builds a SolidSource whose %s channel(s) are the raw (unpremultiplied) channels of a Color: translucent colours give r,g,b > a' % (short(q), '/'.join(raw)))
    fb = None
    for q, b in ctx.F.bodies.items():
        if q.startswith('<raqote::draw_target::Source as std::convert::From<sw_composite::Color>>') or (q.startswith('<raqote::draw_target::Source as') and 'Color' in q and q.endswith('::from')):
            fb = b
    if fb is None:
        ctx.fail(R, 'draw_target::Source::from(Color)|anchor', '-', 'impl From<Color> for Source not found (fail closed)')
        return
    rts = shared.ret_terms(ctx, fb)
    ok = len(rts) == 1 and rts[0][0] == 'agg' and rts[0][3] == 'Solid'
    if ok:
        inner = strip_all(rts[0][4][0][1])
        ok = inner[0] == 'call' and inner[2] and inner[2][0] == ('param', 1)
        if ok:
            ci = ctx.an(fb).callee_info(inner[3]) or {}
            target = ci.get('res') or ci.get('def') or ''
            ok = target.startswith('<raqote::draw_target::SolidSource as') and target.endswith('::from')
    ctx.check(ok, R, 'draw_target::Source::from(Color)|premultiplies', fb.loc(), 'Source::from(color) = Solid(SolidSource::from(color))', 'Source::from(Color) does not go through SolidSource::from(color) (the premultiplying conversion): %s' % [fmt(fb, t) for t in rts])


def run(ctx):
    engine.run_rules(ctx, [r18_1, r18_1b, dt.r03_4, dt.r03_6, dt.r03_5])
