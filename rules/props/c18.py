"""C18 — premultiplied-alpha validity is preserved by every drawing operation."""
from util import *
from terms import fmt, subterms
import shared
import dt
import engine

META = {
    'explanation': 'The invariant r,g,b <= a under 28 blend formulas is arithmetic inside sw-composite and is NOT decided. Decided clauses: '
                   'R18.1 SolidSource::from_unpremultiplied_argb stores a unchanged and each of r,g,b as muldiv255(a, own channel), and '
                   'From<Color> forwards (a(), r(), g(), b()) to the parameters of the same name; R03.4 every coverage-weighted write is '
                   'interp(old, blend(src, old), w) / over_in(src, old, w) with whole-word combinators on operands of one pixel; R03.6 every '
                   'float->byte alpha conversion saturates at 255 (a scale above 256 breaks r,g,b <= a by overflowing into the neighbouring '
                   'channel); R03.5 the solid colour is scaled by the whole-word alpha_mul.',
    'decides': ['R18.1 premultiplying conversions', 'R03.4 whole-word combinators with the right operand roles', 'R03.6 alpha scale factors saturate', 'R03.5 solid colour scaled by alpha_mul'],
    'does_not_decide': ['the invariant itself under blending, coverage interpolation and source-over (sw-composite arithmetic)', 'gradient and image sampling'],
    'assumptions': ['muldiv255(a, c) <= a for c <= 255; alpha_mul/lerp/over_in keep r,g,b <= a for factors <= 256 (external, sw-composite)'],
    'trusted_base': ['sw-composite 0.7.16'],
    'technique': 'static analysis: MIR term matching of the conversion functions and compositing call sites (narrow claim: conversions and scale-factor saturation only)',
}


def r18_1(ctx):
    R = 'R18.1'
    b = ctx.body('raqote::draw_target::SolidSource::from_unpremultiplied_argb', R)
    rts = shared.ret_terms(ctx, b)
    ok = len(rts) == 1 and rts[0][0] == 'agg'
    names = {'a': 1, 'r': 2, 'g': 3, 'b': 4}
    if ok:
        f = dict(rts[0][4])
        ok = f.get('a') == ('param', 1)
        for ch in ('r', 'g', 'b'):
            t = strip_casts(f.get(ch, ('unknown',)), ('IntToInt',))
            okc = is_call(t, 'sw_composite::muldiv255') and {strip_casts(t[2][0], ('IntToInt',)), strip_casts(t[2][1], ('IntToInt',))} == {('param', 1), ('param', names[ch])}
            ctx.check(okc, R, 'draw_target::SolidSource::from_unpremultiplied_argb|' + ch, b.loc(), '%s = muldiv255(a, %s)' % (ch, ch), 'channel %s is %s, expected muldiv255(a, %s)' % (ch, fmt(b, f.get(ch, ('unknown', '?'))), ch))
    ctx.check(ok, R, 'draw_target::SolidSource::from_unpremultiplied_argb|a', b.loc(), 'a stored unchanged', 'alpha is not stored unchanged')
    fb = ctx.body('<raqote::draw_target::SolidSource as std::convert::From<sw_composite::Color>>::from', R, optional=True)
    if fb is None:
        cands = [bb for q, bb in ctx.F.bodies.items() if q.startswith('<raqote::draw_target::SolidSource as') and q.endswith('::from')]
        fb = cands[0] if cands else None
    if fb is None:
        ctx.fail(R, 'draw_target::SolidSource::from(Color)|anchor', '-', 'impl From<Color> for SolidSource not found (fail closed)')
        return
    cs = [ct for bi, d, ct in calls_in(ctx, fb) if d == 'raqote::draw_target::SolidSource::from_unpremultiplied_argb']
    ok = len(cs) == 1
    if ok:
        got = []
        for a in cs[0][2]:
            got.append(callee_last(a) if a[0] == 'call' else '?')
        ok = got == ['a', 'r', 'g', 'b']
    ctx.check(ok, R, 'draw_target::SolidSource::from(Color)|order', fb.loc(), 'from_unpremultiplied_argb(color.a(), color.r(), color.g(), color.b())', 'From<Color> does not forward (a, r, g, b) in order')


def run(ctx):
    engine.run_rules(ctx, [r18_1, dt.r03_4, dt.r03_6, dt.r03_5])
