"""C20 — PathBuilder helpers and Path::transform produce the documented geometry."""
from util import *
from terms import fmt, subterms, Deps
import shared

META = {
    'explanation': 'Static rules R20.1-R20.4 over the MIR of src/path_builder.rs: every PathBuilder method pushes exactly one '
                   'PathOp of its namesake variant with coordinates in call order; rect() is five ops whose coordinates are the '
                   'polynomial forms x, x+w, y, y+h in the documented order; PathOp::transform rebuilds the same variant with '
                   'payload k = transform_point(payload k) in every arm and Path::transform maps all ops and forwards winding; '
                   'arc() builds the lyon Arc from its parameters in the right slots, draws line_to(a.from()) before the curve, '
                   'and forwards every quadratic as quad_to(ctrl, to).',
    'decides': ['R20.1 builder ops', 'R20.2 rect corner forms (as polynomials and computed as plain sums of the arguments: f32-exact)', 'R20.3 transform arms', 'R20.4 arc plumbing'],
    'does_not_decide': ['arc accuracy, sweep clamping and on-screen direction (lyon_geom)', 'float rounding'],
    'assumptions': ['euclid Transform2D::transform_point maps a point by the matrix (external, euclid 0.22.14)',
                    'lyon_geom Arc::from / for_each_quadratic_bezier approximate the arc described by the Arc fields (external)'],
    'trusted_base': ['euclid 0.22.14', 'lyon_geom 1.0.19'],
}

PB = 'raqote::path_builder::PathBuilder::'
PATHOP = 'raqote::path_builder::PathOp'


def point_new_args(t):
    t = strip_all(t)
    if is_call(t, 'Point2D::<T, U>::new', 'euclid::point2') and len(t[2]) == 2:
        return t[2]
    return None


def r20_1(ctx):
    R = 'R20.1'
    table = {'move_to': ('MoveTo', 1), 'line_to': ('LineTo', 1), 'quad_to': ('QuadTo', 2), 'cubic_to': ('CubicTo', 3), 'close': ('Close', 0)}
    n = 0
    for m, (variant, npts) in table.items():
        b = ctx.body(PB + m, R)
        an = ctx.an(b)
        pushes = [(bi, ct) for bi, d, ct in calls_in(ctx, b) if d and d.endswith('Vec::<T, A>::push')]
        key = 'path_builder::PathBuilder::%s' % m
        if not ctx.check(len(pushes) == 1, R, key + '|one-push', b.loc(), 'exactly one Vec::push', 'expected exactly one Vec::push, found %d' % len(pushes)):
            continue
        bi, ct = pushes[0]
        tgt = strip_all(ct[2][0])
        ctx.check(is_self_field(tgt, 'path', 'ops'), R, key + '|target', call_line(b, bi), 'pushes onto self.path.ops', 'push target is %s, not self.path.ops' % fmt(b, tgt))
        op = strip_all(ct[2][1])
        good = op[0] == 'agg' and op[2] == PATHOP and op[3] == variant
        if not ctx.check(good, R, key + '|variant', call_line(b, bi), 'pushes PathOp::%s' % variant, 'pushes %s, expected PathOp::%s' % (fmt(b, op), variant)):
            continue
        # payload k = Point::new(param 2k+2, param 2k+3)
        fields = op[4]
        okc = len(fields) == npts
        for k, (_, ft) in enumerate(fields):
            a = point_new_args(ft)
            if a is None or a[0] != ('param', 2 * k + 2) or a[1] != ('param', 2 * k + 3):
                okc = False
        ctx.check(okc, R, key + '|coords', call_line(b, bi), 'payload points are (x,y) parameter pairs in call order', 'payload of %s does not take the parameters pairwise in call order: %s' % (variant, fmt(b, op)))
        # every call appends its op: no path returns without the push (an op that "changes nothing", e.g. a move_to to the
        # current point, still ends the subpath / is part of the ops in call order)
        okp, pth = an.cfg.must_pass_through(0, set([bi]))
        ctx.check(okp, R, key + '|push on every path', call_line(b, bi), 'every returning path appends the op', '%s can return without appending its PathOp::%s (blocks %s): finish() no longer returns the ops in call order' % (m, variant, pth))
        n += 1
    ctx.floor(R, 'builder methods', n, 5)
    # new(): NonZero, empty ops
    b = ctx.body(PB + 'new', R)
    an = ctx.an(b)
    rts = shared.ret_terms(ctx, b)
    ok = False
    for t in rts:
        if is_call(strip_all(t), 'From::from') and len(strip_all(t)[2]) == 1:
            # Self::from(path): the audited `impl From<Path> for PathBuilder` wraps the path as it is
            fb = [b2 for q2, b2 in ctx.F.bodies.items() if q2.endswith('::from') and 'PathBuilder' in q2 and 'From' in q2]
            wraps = False
            for b2 in fb:
                r2 = shared.ret_terms(ctx, b2)
                wraps = len(r2) == 1 and r2[0][0] == 'agg' and r2[0][2].endswith('PathBuilder') and dict(r2[0][4]).get('path') == ('param', 1)
            if wraps:
                t = ('agg', 'adt', PB.rstrip(':'), 'PathBuilder', (('path', strip_all(t)[2][0]),))
        if t[0] == 'agg' and t[2].endswith('PathBuilder'):
            p = dict(t[4]).get('path')
            if p and p[0] == 'agg':
                w = dict(p[4]).get('winding')
                o = dict(p[4]).get('ops')
                ok = bool(w and w[0] == 'agg' and w[3] == 'NonZero' and o and is_call(o, 'Vec::<T>::new'))
    ctx.check(ok, R, 'path_builder::PathBuilder::new|nonzero-empty', b.loc(), 'new() = empty ops, Winding::NonZero', 'new() does not build {ops: Vec::new(), winding: NonZero}')
    # finish(): returns self.path
    b = ctx.body(PB + 'finish', R)
    rts = shared.ret_terms(ctx, b)
    ok = len(rts) == 1 and strip_all(rts[0]) == ('field', ('param', 1), 'path', 'raqote::path_builder::PathBuilder', None)
    ctx.check(ok, R, 'path_builder::PathBuilder::finish|identity', b.loc(), 'finish() returns self.path', 'finish() returns %s' % [fmt(b, t) for t in rts])


def r20_2(ctx):
    R = 'R20.2'
    b = ctx.body(PB + 'rect', R)
    an = ctx.an(b)
    seq = shared.linear_calls(ctx, b)
    if seq is None:
        # the three line_to calls rolled up: move_to(..); for &(cx, cy) in [(..), (..), (..)].iter() { line_to(cx, cy) }; close()
        cs0 = [(bi, d, ct) for bi, d, ct in calls_in(ctx, b) if d and d.startswith(PB)]
        mv = [c for c in cs0 if c[1] == PB + 'move_to']
        lt = [c for c in cs0 if c[1] == PB + 'line_to']
        cl = [c for c in cs0 if c[1] == PB + 'close']
        loops = an.cfg.loops()
        arr = None
        if len(mv) == 1 and len(lt) == 1 and len(cl) == 1 and len(cs0) == 3 and any(lt[0][0] in bl and mv[0][0] not in bl and cl[0][0] not in bl for bl in loops.values()) \
                and an.cfg.dominates(mv[0][0], lt[0][0]) and an.cfg.dominates(lt[0][0], cl[0][0]) is not None:
            xa, ya = strip_all(lt[0][2][2][1]), strip_all(lt[0][2][2][2])
            def elem_of(t, comp):
                while t[0] == 'deref':
                    t = strip_all(t[1])
                if t[0] == 'field' and t[2] == comp and t[3] == '(tuple)':
                    e = strip_all(t[1])
                    while e[0] == 'deref':
                        e = strip_all(e[1])
                    if e[0] == 'field' and e[4] == 'Some' and is_call(e[1], 'Iterator::next'):
                        return e[1]
                return None
            nx, ny = elem_of(xa, '0'), elem_of(ya, '1')
            if nx is not None and nosite(nx) == nosite(ny):
                D = Deps(an)
                D.closure(nx[2][0])
                arrs = [x for x in D.visited if x[0] == 'agg' and x[1] == 'array']
                plain_iter = not any(is_call(x, 'Iterator::rev', 'Iterator::skip', 'Iterator::take', 'Iterator::step_by', 'Iterator::filter', 'Iterator::chain') for x in D.visited)
                if len(arrs) == 1 and plain_iter:
                    arr = arrs[0]
        if arr is None:
            ctx.fail(R, 'path_builder::PathBuilder::rect|linear', b.loc(), 'rect() is not straight-line code any more: cannot recover the op order (fail closed)')
            return
        seq = [mv[0]]
        for _i, e in arr[4]:
            e = strip_all(e)
            comps = dict(e[4]) if e[0] == 'agg' and e[1] == 'tuple' else {}
            seq.append((lt[0][0], PB + 'line_to', ('call', PB + 'line_to', (lt[0][2][2][0], comps.get('0', ('unknown',)), comps.get('1', ('unknown',))), lt[0][0])))
        seq.append(cl[0])
    x, y, w, h = (Poly.leaf(('param', i)) for i in (2, 3, 4, 5))
    want = [('move_to', (x, y)), ('line_to', (x + w, y)), ('line_to', (x + w, y + h)), ('line_to', (x, y + h)), ('close', ())]
    got = []
    for bi, d, ct in seq:
        if d and d.startswith(PB):
            got.append((d[len(PB):], tuple(poly(a) for a in ct[2][1:]), bi))
    names = ['x', 'y', 'width', 'height']
    key = 'path_builder::PathBuilder::rect'
    def plain(t):
        t = strip_all(t)
        if t[0] == 'param':
            return True
        return t[0] == 'bin' and t[1] == 'Add' and strip_all(t[2])[0] == 'param' and strip_all(t[3])[0] == 'param' and strip_all(t[2]) != strip_all(t[3])
    array_plain = []
    if not got:
        # the five ops appended at once: self.path.ops.extend_from_slice(&[MoveTo(..), LineTo(..), .., Close])
        import geomalg
        va = geomalg.VA(ctx)
        for bi, d, ct in seq:
            if d and d.endswith('extend_from_slice') and len(ct[2]) == 2:
                r0, n0 = field_path(strip_all(ct[2][0]))
                arr = strip_all(ct[2][1])
                if arr[0] == 'mem':
                    arr = shared.resolve_mem(an, arr)
                if r0 == ('param', 1) and n0[:2] == ['path', 'ops'] and arr[0] == 'agg' and arr[1] == 'array':
                    opn = {'MoveTo': 'move_to', 'LineTo': 'line_to', 'Close': 'close', 'QuadTo': 'quad_to', 'CubicTo': 'cubic_to'}
                    for _i, e in arr[4]:
                        e = strip_all(e)
                        if e[0] == 'agg' and e[2] == PATHOP:
                            pts = []
                            for _n, pt in e[4]:
                                pts.extend(va.vec(pt))
                                pt1 = strip_all(pt)
                                comps = None
                                if is_call(pt1, 'Point2D::<T, U>::new') and len(pt1[2]) == 2:
                                    comps = pt1[2]
                                elif pt1[0] == 'agg' and (pt1[2] or '').endswith('Point2D'):
                                    comps = [dict(pt1[4]).get('x', ('unknown',)), dict(pt1[4]).get('y', ('unknown',))]
                                array_plain.append(comps is not None and all(plain(c0) for c0 in comps))
                            got.append((opn.get(e[3], e[3]), tuple(pts), bi))
    if not ctx.check(len(got) == 5, R, key + '|five-ops', b.loc(), 'five builder calls', 'rect() makes %d builder calls, expected 5' % len(got)):
        return
    # each coordinate must also be *computed* as the plain sum: in f32, (x + w) - w is not x and (x + w) + 0. differs
    # from x + w for -0.0; a corner derived from another corner drifts off the rectangle for large/fractional values
    if array_plain:
        ctx.check(all(array_plain), R, key + '|corners computed directly', b.loc(), 'every corner is Point::new of x, y, x + width, y + height as written',
                  'the corners appended by rect() are equal to the rectangle\'s corners as real numbers but are not computed as plain sums of the arguments (a corner derived from another corner, e.g. (x + width) - width, is not the requested corner in f32 for large or fractional values)')
    raw_list = [ct[2][1:] for bi, d, ct in seq if d and d.startswith(PB)]
    for i, ((wn, wa), (gn, ga, bi)) in enumerate(zip(want, got)):
        ok = wn == gn and tuple(wa) == tuple(ga)
        if ok and len(raw_list) == 5 and not array_plain:
            okp = all(plain(a) for a in raw_list[i])
            ctx.check(okp, R, key + '|op%d computed directly' % i, call_line(b, bi), 'corner coordinates are x, y, x + width, y + height as written',
                      'op %d is %s(%s): equal to the corner as a real number but not computed as a plain sum of the arguments — in f32 a corner derived from another corner ((x + width) - width) is not the requested corner for large or fractional values' % (i, gn, ', '.join(fmt(b, a)[:60] for a in raw_list[i])))
        ctx.check(ok, R, key + '|op%d' % i, call_line(b, bi),
                  'op %d is %s(%s)' % (i, gn, ', '.join(p.show(b) for p in ga)),
                  'op %d is %s(%s), expected %s(%s)' % (i, gn, ', '.join(p.show(b) for p in ga), wn, ', '.join(p.show(b) for p in wa)))


def _check_op_mapper(ctx, R, b, key, op_t, is_xform):
    """body b maps the PathOp op_t variant by variant: every arm returns the same variant with payload k =
    xform.transform_point(payload k)"""
    an = ctx.an(b)
    ms = [m for m in matches(ctx, b, 'PathOp') if strip_all(m.scrut) == op_t]
    if not ctx.check(len(ms) == 1, R, key + '|match', b.loc(), 'one match on the op', 'expected one match on the op, found %d' % len(ms)):
        return
    m = ms[0]
    ctx.check(m.otherwise is None, R, key + '|no-wildcard', b.loc(), 'no live wildcard arm', 'match has a live wildcard arm')
    npts = {'MoveTo': 1, 'LineTo': 1, 'QuadTo': 2, 'CubicTo': 3, 'Close': 0}
    # the value returned on each arm: the definition, in the arm's region, of _0 or of a local that is moved into _0
    # (the result of an inlined helper)
    ret_locals = [0]
    for _ in range(4):
        for d in list(an.defs_of.get(ret_locals[-1], [])):
            if d.kind == 'assign' and not d.partial and d.node['rv'].get('k') == 'use' and d.node['rv']['o'].get('k') in ('move', 'copy') and not d.node['rv']['o']['p']['pr']:
                src = d.node['rv']['o']['p']['l']
                if src not in ret_locals:
                    ret_locals.append(src)
    n = 0
    for v, tgt in m.arms.items():
        region = arm_region(an.cfg, m.bb, tgt)
        rt = None
        for rl in ret_locals:
            for d in an.defs_of.get(rl, []):
                if d.bb in region and not d.partial and d.kind == 'assign':
                    t0 = an.def_term(d)
                    if t0[0] == 'agg':
                        rt = t0
        k = key + '|arm ' + v
        if rt is None or rt[0] != 'agg' or rt[2] != PATHOP:
            ctx.fail(R, k, b.loc(), 'arm %s does not build a PathOp' % v)
            continue
        ok = rt[3] == v and len(rt[4]) == npts.get(v, -1)
        for i, (_, ft) in enumerate(rt[4]):
            ft = strip_all(ft)
            if not (is_call(ft, 'transform_point') and is_xform(strip_all(ft[2][0]))
                    and ft[2][1] == ('field', op_t, str(i), PATHOP, v)):
                ok = False
        ctx.check(ok, R, k, b.loc(), '%s -> %s with payload k = xform.transform_point(payload k)' % (v, v),
                  'arm %s returns %s: not the same variant with every payload point k mapped from its own payload k' % (v, fmt(b, rt)))
        n += 1
    ctx.floor(R, 'PathOp::transform arms', n, 5)


def r20_3(ctx):
    R = 'R20.3'
    b = ctx.body(PATHOP + '::transform', R, optional=True)
    mapper_inline = b is None
    if b is not None:
        _check_op_mapper(ctx, R, b, 'path_builder::PathOp::transform', ('param', 1), lambda x: x in (('param', 2), ('deref', ('param', 2))))

    # Path::transform
    b = ctx.body('raqote::path_builder::Path::transform', R)
    an = ctx.an(b)
    key = 'path_builder::Path::transform'
    rts = shared.ret_terms(ctx, b)
    ok = False
    detail = ''
    if len(rts) == 1 and rts[0][0] == 'agg' and rts[0][2].endswith('path_builder::Path'):
        f = dict(rts[0][4])
        w = f.get('winding')
        ok_w = w == ('field', ('param', 1), 'winding', 'raqote::path_builder::Path', None)
        ctx.check(ok_w, R, key + '|winding', b.loc(), 'winding forwarded from self', 'result winding is %s, not self.winding' % fmt(b, w))
        o = f.get('ops')
        # ops = collect(map(into_iter(self.ops), closure[&transform]))
        SELF_OPS = ('field', ('param', 1), 'ops', 'raqote::path_builder::Path', None)
        def over_ops(it):
            # self.ops.into_iter(), or self.ops.iter() (the ops are Copy: mapping copies is mapping the ops)
            it = strip_all(it)
            if is_call(it, 'IntoIterator::into_iter') and len(it[2]) == 1 and it[2][0] == SELF_OPS:
                return True
            if is_call(it, '::iter') and len(it[2]) == 1:
                a0 = strip_all(it[2][0])
                while a0[0] in ('ref', 'deref') or is_call(a0, 'Deref::deref'):
                    a0 = strip_all(a0[1] if a0[0] in ('ref', 'deref') else a0[2][0])
                return a0 == SELF_OPS
            return False
        shape = (is_call(o, 'Iterator::collect') and is_call(o[2][0], 'Iterator::map') and over_ops(o[2][0][2][0]))
        clo = o[2][0][2][1] if shape else None
        shape = shape and clo[0] == 'agg' and clo[1] == 'closure' and strip_all(clo[4][0][1]) == ('param', 2)
        inplace = False
        if not shape:
            # the same map done in place: for op in ops.iter_mut() { *op = op.transform(transform) } on the vector taken
            # from self.ops, with no other write to it
            ol = strip_all(o)
            if ol[0] in ('mem', 'phi'):
                vecl = ol[1]
                whole = [d for d in an.defs_of.get(vecl, []) if not d.partial and d.kind in ('assign', 'local')]
                from_self = len(whole) == 1 and strip_all(an.def_term(whole[0])) == ('field', ('param', 1), 'ops', 'raqote::path_builder::Path', None)
                sts = [(a2, v2, pt2) for a2, v2, pt2, k2 in an.stores if k2 == 'assign' and a2[0] == 'deref']
                okst = len(sts) == 1
                if okst:
                    a2, v2, pt2 = sts[0]
                    el = strip_all(a2[1])           # the &mut PathOp yielded by the iterator
                    v2 = strip_all(v2)
                    okst = (el[0] == 'field' and el[4] == 'Some' and is_call(el[1], 'Iterator::next')
                            and is_call(v2, 'PathOp::transform') and strip_all(v2[2][0]) in (('deref', el), a2, strip_all(a2)) and strip_all(v2[2][1]) in (('param', 2), ('deref', ('param', 2))))
                    if okst:
                        D = Deps(an)
                        D.closure(el[1][2][0])
                        okst = any(is_call(x, 'iter_mut') for x in D.visited) and any(x[0] in ('mem', 'phi') and x[1] == vecl for x in (D.visited | D.touched))
                others = [d for bi2, d, ct2 in calls_in(ctx, b) if d and ct2[2] and strip_all(ct2[2][0])[0] in ('mem', 'ref') and any(x == ('mem', vecl) for x in subterms(ct2[2][0])) and d.split('::')[-1] not in ('iter_mut', 'deref_mut', 'into_iter', 'next')]
                inplace = from_self and okst and not others
        ctx.check(shape or inplace, R, key + '|ops', b.loc(), 'ops = self.ops mapped op by op through PathOp::transform(transform), in order', 'ops is %s: not every op of self.ops mapped in order' % fmt(b, o))
        if shape and mapper_inline:
            # the per-op mapper written out in the closure: |op| match op { .. }
            cb = ctx.body(clo[2], R)
            _check_op_mapper(ctx, R, cb, 'path_builder::Path::transform::{closure}', ('param', 2), lambda x: shared.upvar_index(x) == 0 or (x[0] == 'deref' and shared.upvar_index(x[1]) == 0))
        elif mapper_inline:
            ctx.fail(R, 'anchor|path_builder::PathOp::transform', '-', 'anchor item %s::transform not found and Path::transform does not map the ops in a closure: cannot decide (fail closed)' % PATHOP)
        elif shape:
            cb = ctx.body(clo[2], R)
            crt = shared.ret_terms(ctx, cb)
            okc = (len(crt) == 1 and is_call(crt[0], 'PathOp::transform') and strip_all(crt[0][2][0]) in (('param', 2), ('deref', ('param', 2)))
                   and shared.upvar_index(crt[0][2][1]) == 0)
            ctx.check(okc, R, key + '|closure', cb.loc(), 'closure = |op| op.transform(transform)', 'closure returns %s, not op.transform(transform)' % [fmt(cb, t) for t in crt])
    elif len(rts) == 1 and _whole_self(an, rts[0]) is not None:
        # the path itself is returned after its ops were mapped in place: winding is untouched by construction
        root = _whole_self(an, rts[0])
        wst = [1 for a2, v2, pt2, k2 in an.stores if k2 in ('assign', 'local') and any(len(x) == 5 and x[0] == 'field' and x[2] == 'winding' and x[3] == 'raqote::path_builder::Path' for x in subterms(a2))]
        ctx.check(not wst, R, key + '|winding', b.loc(), 'winding left as it is', 'Path::transform writes the winding rule of the path it returns')
        sts = [(a2, v2, pt2) for a2, v2, pt2, k2 in an.stores if k2 == 'assign' and a2[0] in ('deref', 'index')]
        okst = len(sts) == 1
        if okst:
            a2, v2, pt2 = sts[0]
            v2 = strip_all(v2)
            okst = is_call(v2, 'PathOp::transform') and strip_all(v2[2][1]) in (('param', 2), ('deref', ('param', 2)))
            if okst:
                old = strip_all(v2[2][0])
                okst = nosite(old) in (nosite(strip_all(a2)), nosite(('deref', strip_all(a2[1]))) if a2[0] == 'deref' else None) or nosite(old) == nosite(a2)
            if okst:
                # the element written ranges over every op, in order: iter_mut() over the ops, or an index over 0..len
                D = Deps(an)
                D.closure(a2)
                over_ops = any(len(x) == 5 and x[0] == 'field' and x[2] == 'ops' and x[3] == 'raqote::path_builder::Path' for x in (D.visited | D.touched))
                it = any(is_call(x, 'iter_mut') for x in D.visited)
                rng = False
                for x in D.visited:
                    if x[0] == 'agg' and x[2] and x[2].endswith('ops::Range'):
                        f2 = dict(x[4])
                        ln = strip_all(f2['end'])
                        rng = rng or (const_val(f2['start']) == 0 and (is_call(ln, '::len') or (ln[0] == 'un' and ln[1] == 'PtrMetadata')))
                okst = over_ops and (it or rng)
        ctx.check(okst, R, key + '|ops', b.loc(), 'every op replaced in place by op.transform(transform), in order', 'Path::transform does not replace every op of the path by op.transform(transform) in place')
    else:
        ctx.fail(R, key + '|result', b.loc(), 'Path::transform does not return a Path aggregate: %s' % [fmt(b, t) for t in rts])


def _whole_self(an, t):
    """the returned value is the path parameter itself (possibly moved through a local): its root, else None"""
    t = strip_all(t)
    for _ in range(4):
        if t == ('param', 1):
            return t
        if t[0] == 'mem' and t[1] == 1:
            return t
        if t[0] in ('mem', 'phi'):
            ds = [d for d in an.defs_of.get(t[1], []) if not d.partial and d.kind in ('assign', 'local')]
            if len(ds) == 1:
                t = strip_all(an.def_term(ds[0]))
                continue
        break
    return None


def r20_4(ctx):
    R = 'R20.4'
    b = ctx.body(PB + 'arc', R)
    an = ctx.an(b)
    key = 'path_builder::PathBuilder::arc'
    arcs = []
    for bi, k, s in b.statements():
        if s['k'] == 'assign' and s['rv']['k'] == 'agg' and s['rv'].get('adt', '').endswith('lyon_geom::Arc'):
            arcs.append((bi, k, an.rvalue_term(bi, k, s['rv'])))
    if not ctx.check(len(arcs) == 1, R, key + '|arc-agg', b.loc(), 'one Arc aggregate', 'expected one lyon_geom::Arc aggregate, found %d' % len(arcs)):
        return
    abi, ak, at = arcs[0]
    f = dict(at[4])
    P = lambda i: ('param', i)
    c = strip_all(f['center'])
    ctx.check(is_call(c, 'Point2D::<T, U>::new') and c[2] == (P(2), P(3)), R, key + '|center', b.loc(), 'center = (x, y)', 'Arc.center is %s, expected Point::new(x, y)' % fmt(b, c))
    r = strip_all(f['radii'])
    ctx.check(is_call(r, 'Vector2D::<T, U>::new') and r[2] == (P(4), P(4)), R, key + '|radii', b.loc(), 'radii = (r, r)', 'Arc.radii is %s, expected Vector::new(r, r)' % fmt(b, r))
    sa = strip_all(f['start_angle'])
    ctx.check(is_call(sa, 'Angle::<T>::radians') and sa[2] == (P(5),), R, key + '|start_angle', b.loc(), 'start_angle = radians(start_angle)', 'Arc.start_angle is %s, expected Angle::radians(start_angle)' % fmt(b, sa))
    sw = strip_all(f['sweep_angle'])
    ctx.check(is_call(sw, 'Angle::<T>::radians') and sw[2] == (P(6),), R, key + '|sweep_angle', b.loc(), 'sweep_angle = radians(sweep_angle)', 'Arc.sweep_angle is %s, expected Angle::radians(sweep_angle)' % fmt(b, sw))
    xr = strip_all(f['x_rotation'])
    ctx.check((is_call(xr, '::zero') and not xr[2]) or (is_call(xr, 'Angle::<T>::radians') and len(xr[2]) == 1 and const_val(xr[2][0]) == 0.0), R, key + '|x_rotation', b.loc(), 'x_rotation = 0', 'Arc.x_rotation is %s, expected Angle::zero()' % fmt(b, xr))
    # line_to(a.from()) dominates for_each_quadratic_bezier(a, closure)
    cs = calls_in(ctx, b)
    lts = [(bi, ct) for bi, d, ct in cs if d == PB + 'line_to']
    fes = [(bi, ct) for bi, d, ct in cs if d and 'for_each_quadratic_bezier' in d]
    if not ctx.check(len(lts) == 1 and len(fes) == 1, R, key + '|calls', b.loc(), 'one line_to and one for_each_quadratic_bezier', 'expected one line_to and one for_each_quadratic_bezier (found %d, %d)' % (len(lts), len(fes))):
        return
    lbi, lt = lts[0]
    fbi, fe = fes[0]
    def from_of_arc(t, fld):
        t = strip_all(t)
        return (t[0] == 'field' and t[2] == fld and is_call(t[1], 'Arc::<S>::from') and strip_all(t[1][2][0]) == at)
    ctx.check(from_of_arc(lt[2][1], 'x') and from_of_arc(lt[2][2], 'y'), R, key + '|line_to-start', call_line(b, lbi),
              'line_to(a.from().x, a.from().y)', 'line_to arguments are (%s, %s), expected the arc start a.from()' % (fmt(b, lt[2][1]), fmt(b, lt[2][2])))
    ctx.check(an.cfg.dominates(lbi, fbi) and lbi != fbi, R, key + '|line-before-curve', call_line(b, lbi), 'line_to precedes the curve', 'the line_to to the arc start does not precede the curve on every path')
    okp, pth = an.cfg.must_pass_through(0, set([lbi]))
    # the curve may be left out for a sweep of exactly zero (an arc over no angle is its starting point: the line_to
    # alone); nothing else lets a path skip it
    zero_sweep = set()
    for si, t in b.terminators('switch'):
        if si not in an.cfg.reach or t.get('ty') != 'bool':
            continue
        c = strip_all(an.term_at(si, len(b.blocks[si]['st']), t['o']))
        neg = False
        while c[0] == 'un' and c[1] == 'Not':
            c, neg = strip_all(c[2]), not neg
        if c[0] == 'bin' and c[1] in ('Eq', 'Ne') and ((strip_all(c[2]) == P(6) and const_val(strip_all(c[3])) == 0.0) or (strip_all(c[3]) == P(6) and const_val(strip_all(c[2])) == 0.0)):
            eq_true = (c[1] == 'Eq') != neg
            false_t = [tt for v, tt in t['targets'] if v == '0']
            if false_t and false_t[0] != t['otherwise']:
                zero_sweep.add(t['otherwise'] if eq_true else false_t[0])
    okq, pth2 = an.cfg.must_pass_through(0, set([fbi]) | zero_sweep)
    ctx.check(okp and okq, R, key + '|line and curve on every path', call_line(b, lbi), 'every returning path emits the line to the arc start and the curve',
              'arc() can return without emitting the line_to to its starting point or the curve (blocks %s): e.g. an early return for a zero sweep drops the required line from the current point to the arc\'s start and leaves the current point stale' % (pth or pth2))
    ctx.check(strip_all(fe[2][0]) == at, R, key + '|curve-of-arc', call_line(b, fbi), 'curve is generated from the same Arc', 'for_each_quadratic_bezier is not called on the Arc built from the parameters')
    clo = shared.resolve_mem(an, fe[2][1])
    if clo[0] == 'agg' and clo[1] == 'closure':
        cb = ctx.body(clo[2], R)
        qs = [(bi, ct) for bi, d, ct in calls_in(ctx, cb) if d == PB + 'quad_to']
        ok = len(qs) == 1
        if ok:
            a = qs[0][1][2]
            def qf(t, p, c):
                t = strip_all(t)
                return t[0] == 'field' and t[2] == c and t[1][0] == 'field' and t[1][2] == p and strip_all(t[1][1]) in (('param', 2), ('deref', ('param', 2)))
            ok = qf(a[1], 'ctrl', 'x') and qf(a[2], 'ctrl', 'y') and qf(a[3], 'to', 'x') and qf(a[4], 'to', 'y')
        if not ok and not qs:
            # two phases: the callback only collects the segments (quads.push(*q)); a loop over the collection then
            # forwards each one, in order
            pushes = [ct for bi, d, ct in calls_in(ctx, cb) if d and d.endswith('Vec::<T, A>::push')]
            ui = shared.upvar_index(pushes[0][2][0]) if len(pushes) == 1 else None
            if ui is None and len(pushes) == 1 and pushes[0][2][0][0] in ('deref', 'ref'):
                ui = shared.upvar_index(strip_all(pushes[0][2][0][1]))
            okp = ui is not None and strip_all(pushes[0][2][1]) in (('deref', ('param', 2)), ('param', 2)) and len(calls_in(ctx, cb)) == 1
            vec_l = None
            if okp and ui < len(clo[4]):
                cap = strip_all(clo[4][ui][1])
                while cap[0] in ('ref', 'deref'):
                    cap = strip_all(cap[1])
                vec_l = cap[1] if cap[0] in ('mem', 'phi') else None
            qs2 = [(bi, ct) for bi, d, ct in cs if d == PB + 'quad_to']
            ok = vec_l is not None and len(qs2) == 1
            if ok:
                qbi, qct = qs2[0]
                a = qct[2]
                def qf2(t, p, c):
                    t = strip_all(t)
                    if not (t[0] == 'field' and t[2] == c and t[1][0] == 'field' and t[1][2] == p):
                        return False
                    el = strip_all(t[1][1])
                    while el[0] == 'deref':
                        el = strip_all(el[1])
                    if not (el[0] == 'field' and el[4] == 'Some' and is_call(el[1], 'Iterator::next')):
                        return False
                    D = Deps(an)
                    D.closure(el[1][2][0])
                    return any(x[0] in ('mem', 'phi') and x[1] == vec_l for x in (D.visited | D.touched)) and not any(is_call(x, 'Iterator::rev', 'Iterator::skip', 'Iterator::take', 'Iterator::step_by') for x in D.visited)
                ok = qf2(a[1], 'ctrl', 'x') and qf2(a[2], 'ctrl', 'y') and qf2(a[3], 'to', 'x') and qf2(a[4], 'to', 'y') and an.cfg.dominates(fbi, qbi)
                # nothing else touches the collection between the two phases
                touch = [d for bi, d, ct in cs if d and ct[2] and any(x == ('mem', vec_l) for a0 in ct[2][:1] for x in subterms(a0)) and d.split('::')[-1] not in ('into_iter', 'iter', 'next', 'new', 'deref')]
                ok = ok and not touch
        ctx.check(ok, R, key + '|closure', cb.loc(), 'closure = quad_to(q.ctrl.x, q.ctrl.y, q.to.x, q.to.y)', 'the arc callback does not forward each quadratic as quad_to(ctrl, to)')
    else:
        ctx.fail(R, key + '|closure', call_line(b, fbi), 'the arc callback is not a closure of arc(): cannot analyse (fail closed)')
    # nothing else touches the ops: arc() appends through line_to and the callback's quad_to only (no patching of what was emitted)
    others = []
    for a0, v, pt, kind in an.stores:
        r, nm = field_path(a0)
        if r == ('param', 1) and nm[:1] == ['path'] and not (kind == 'call' and strip_all(v)[0] == 'call' and strip_all(v)[1] in (PB + 'line_to',)):
            others.append(fmt(b, v)[:80])
    for bi, d, ct in cs:
        if d and d not in (PB + 'line_to',) and ct[2] and any(len(x) == 5 and x[0] == 'field' and x[2] == 'path' and x[3] == 'raqote::path_builder::PathBuilder' for a0 in ct[2] for x in subterms(a0)):
            others.append(d)
    ctx.check(not others, R, key + '|no patching of emitted ops', b.loc(), 'arc() reaches self.path only through line_to / quad_to',
              'arc() also accesses self.path directly (%s): ops that were emitted are modified afterwards (e.g. the last end point overwritten with Arc::to(), which is not on the emitted curve for sweeps beyond a full turn)' % sorted(set(others)))


def run(ctx):
    import engine
    engine.run_rules(ctx, [r20_1, r20_2, r20_3, r20_4])
