"""C19 — pixel word layout, byte views and PNG export agree."""
from util import *
from terms import fmt, subterms, Deps
import shared

META = {
    'explanation': 'Static rules over src/draw_target.rs: R19.1 one channel table — SolidSource::to_u32 packs {a:24, r:16, g:8, b:0}; write_png '
                   '(png feature) extracts the four channels with the same shifts and mask 0xff, pushes bytes in the order R,G,B,A, '
                   'un-premultiplies each colour as c*255/a only under a > 0, leaves alpha unchanged, declares Rgba/Eight and sizes the image '
                   'from self.width/self.height, iterating buf in order; R19.2 get_data_u8[_mut] build the byte slice from the pointer of buf '
                   'and len*size_of::<u32>(), get_data[_mut] return buf itself; R19.3 from_vec stores the argument resized to width*height, '
                   'from_backing stores its argument, into_vec/into_inner return the buf field.',
    'decides': ['R19.1 channel table agreement between to_u32 and write_png, byte order, un-premultiply guard', 'R19.2 byte/word views alias the same buffer with the right length', 'R19.3 buffer round trips'],
    'does_not_decide': ['endianness (the statement is conditional on it)', 'validity of the PNG byte stream (png crate)', 'rounding of c*255/a beyond its syntactic form'],
    'assumptions': ['png::Encoder writes width x height 8-bit RGBA rows from the byte vector (external, png 0.17)', 'sw-composite uses A32_SHIFT=24,R=16,G=8,B=0 (external, pinned by Cargo.lock)'],
    'trusted_base': ['png 0.17', 'sw-composite 0.7.16'],
}

DT = 'raqote::draw_target::DrawTarget::'
EXPECT = {'a': 24, 'r': 16, 'g': 8, 'b': 0}


def shl_parts(t):
    """flatten a BitOr tree into [(field name, shift)]"""
    t = strip_casts(t)
    # u32::from_be_bytes([b3, b2, b1, b0]) = b3<<24 | b2<<16 | b1<<8 | b0 (from_le_bytes the other way round)
    if is_call(t, 'u32::from_be_bytes', 'u32::from_le_bytes', 'num::<impl u32>::from_be_bytes', 'num::<impl u32>::from_le_bytes') and len(t[2]) == 1:
        arr = strip_all(t[2][0])
        if arr[0] == 'agg' and len(arr[4]) == 4:
            shifts = [24, 16, 8, 0] if 'from_be_bytes' in t[1] else [0, 8, 16, 24]
            out = []
            for (nm, el), k in zip(arr[4], shifts):
                root, names = field_path(strip_casts(el))
                if root != ('param', 1) or len(names) != 1:
                    return None
                out.append((names[0], k))
            return out
        return None
    if t[0] == 'bin' and t[1] == 'BitOr':
        a = shl_parts(t[2])
        b = shl_parts(t[3])
        if a is None or b is None:
            return None
        return a + b
    if t[0] == 'bin' and t[1] == 'Shl':
        src = strip_casts(t[2])
        k = const_val(t[3])
        root, names = field_path(src)
        if root == ('param', 1) and len(names) == 1 and k is not None:
            return [(names[0], k)]
        return None
    # an unshifted channel is shifted by 0; `a + b` of disjoint bit ranges is not accepted (it is not `|` in general)
    root, names = field_path(t)
    if root == ('param', 1) and len(names) == 1 and t[0] in ('field', 'deref'):
        return [(names[0], 0)]
    return None


def shift_mask(t):
    """(source term, shift) if t = (src >> k) & 0xff"""
    t = strip_casts(t)
    # byte k of p.to_be_bytes() is (p >> (24 - 8k)) & 0xff, of p.to_le_bytes() (p >> 8k) & 0xff
    if t[0] in ('index', 'cidx'):
        base = strip_all(t[1])
        # bytes.map(u32::from): the same bytes, widened
        if is_call(base, '::map') and len(base[2]) == 2 and strip_all(base[2][1])[0] == 'fn' and str(strip_all(base[2][1])[1]).split('::')[-1] == 'from':
            t = (t[0], strip_all(base[2][0])) + tuple(t[2:])
    if t[0] in ('index', 'cidx') and is_call(strip_all(t[1]), 'to_be_bytes', 'to_le_bytes') and len(strip_all(t[1])[2]) == 1:
        k = const_val(t[2]) if t[0] == 'index' else t[2]
        c0 = strip_all(t[1])
        if isinstance(k, int) and 0 <= k <= 3:
            return value_of(c0[2][0]), (24 - 8 * k) if c0[1].endswith('to_be_bytes') else 8 * k
    if is_call(t, 'BitAnd::bitand') and len(t[2]) == 2 and const_val(t[2][1]) == 255:
        t = ('bin', 'BitAnd', t[2][0], t[2][1])       # `&u32 & 0xff` is an operator call
    if t[0] == 'bin' and t[1] == 'BitAnd' and const_val(t[3]) == 255:
        s = strip_casts(t[2])
        if s[0] == 'bin' and s[1] == 'Shr':
            return value_of(s[2]), const_val(s[3])
        if is_call(s, 'Shr::shr') and len(s[2]) == 2:
            return value_of(s[2][0]), const_val(s[2][1])
        # `x & 0xff` is the byte at shift 0
        return value_of(s), 0
    # `x >> 24` of a 32-bit word is its top byte: the mask is redundant
    if t[0] == 'bin' and t[1] == 'Shr' and const_val(t[3]) == 24:
        return value_of(t[2]), 24
    if is_call(t, 'Shr::shr') and len(t[2]) == 2 and const_val(t[2][1]) == 24:
        return value_of(t[2][0]), 24
    return None


def is_buf_view(t):
    """t is the pixel slice of self: self.buf.as_ref() / self.buf.as_mut(), or the accessors get_data() / get_data_mut()
    (which R19.2 requires to return exactly that)"""
    t = strip_all(t)
    while t[0] in ('ref', 'deref'):
        t = strip_all(t[1])
    if is_call(t, 'AsRef::as_ref', 'AsMut::as_mut') and len(t[2]) == 1:
        return is_self_field(strip_all(t[2][0]), 'buf')
    if t[0] == 'call' and t[1] in (DT + 'get_data', DT + 'get_data_mut') and len(t[2]) == 1:
        a = strip_all(t[2][0])
        while a[0] in ('ref', 'deref'):
            a = strip_all(a[1])
        return a == ('param', 1)
    return False


def value_of(t):
    """the u32 read, whether it is shifted by value or through a reference (`pixel >> k` on &u32 or `*pixel >> k`)"""
    t = strip_all(t)
    while t[0] == 'deref':
        t = strip_all(t[1])
    return t


def r19_1(ctx):
    R = 'R19.1'
    b = ctx.body('raqote::draw_target::SolidSource::to_u32', R)
    rts = shared.ret_terms(ctx, b)
    parts = shl_parts(rts[0]) if len(rts) == 1 else None
    key = 'draw_target::SolidSource::to_u32'
    ok = parts is not None and dict(parts) == EXPECT and len(parts) == 4
    ctx.check(ok, R, key + '|table', b.loc(), 'to_u32 = a<<24 | r<<16 | g<<8 | b<<0', 'to_u32 packs %s, expected a<<24|r<<16|g<<8|b<<0' % (parts,))
    wp = ctx.body(DT + 'write_png', R, optional=True)
    if wp is None:
        if 'png' in ctx.F.features:
            ctx.fail(R, 'draw_target::DrawTarget::write_png|anchor', '-', 'png feature enabled but write_png not found (fail closed)')
        else:
            ctx.note('write_png absent in config %s (png feature off)' % ctx.config)
        return
    an = ctx.an(wp)
    key = 'draw_target::DrawTarget::write_png'
    cs = calls_in(ctx, wp)
    # encoder set-up
    enc = [ct for bi, d, ct in cs if d and d.endswith('Encoder::<\'a, W>::new')]
    ok = len(enc) == 1
    if ok:
        w, h = strip_casts(enc[0][2][1]), strip_casts(enc[0][2][2])
        ok = is_self_field(w, 'width') and is_self_field(h, 'height')
    ctx.check(ok, R, key + '|size', wp.loc(), 'Encoder::new(_, self.width, self.height)', 'the PNG is not sized (self.width, self.height) in that order')
    col = [ct for bi, d, ct in cs if d and d.endswith('::set_color')]
    dep = [ct for bi, d, ct in cs if d and d.endswith('::set_depth')]
    okc = len(col) == 1 and col[0][2][1][0] == 'agg' and col[0][2][1][3] == 'Rgba'
    okd = len(dep) == 1 and dep[0][2][1][0] == 'agg' and dep[0][2][1][3] == 'Eight'
    ctx.check(okc and okd, R, key + '|format', wp.loc(), 'ColorType::Rgba, BitDepth::Eight', 'the PNG is not declared as 8-bit RGBA')
    # the pixel loop: iterates as_ref(self.buf) in order
    pushes = [(bi, ct) for bi, d, ct in cs if d and d.endswith('Vec::<T, A>::push') and ct[2][1][0] == 'cast' and ct[2][1][2] == 'u8']
    if not pushes:
        # the four bytes appended at once: output.extend_from_slice(&[r as u8, g as u8, b as u8, a as u8])
        for bi, d, ct in cs:
            if d and d.endswith('extend_from_slice') and len(ct[2]) == 2:
                arr = strip_all(ct[2][1])
                if arr[0] == 'mem':
                    arr = shared.resolve_mem(an, arr)
                if arr[0] == 'agg' and arr[1] == 'array' and len(arr[4]) == 4 and all(e[1][0] == 'cast' and e[1][2] == 'u8' for e in arr[4]):
                    pushes = [(bi, ('call', d, (ct[2][0], e[1]), ct[3])) for e in arr[4]]
    slot_form = False
    if not pushes:
        # the output pre-sized and filled four bytes at a time: for (rgba, pixel) in output.chunks_exact_mut(4).zip(buf) {
        # rgba[0] = r as u8; .. rgba[3] = a as u8 }
        slots = {}
        for a0, v0, pt0, kind0 in an.stores:
            if kind0 != 'assign' or a0[0] != 'index' or not (v0[0] == 'cast' and v0[2] == 'u8'):
                continue
            k0 = const_val(a0[2])
            root0, _n0 = field_path(a0[1])
            if k0 not in (0, 1, 2, 3) or not is_call(root0, 'Iterator::next'):
                continue
            D0 = Deps(an)
            D0.closure(root0[2][0])
            if any(is_call(x, 'chunks_exact_mut', 'chunks_mut') and len(x[2]) == 2 and const_val(x[2][1]) == 4 for x in D0.visited):
                slots.setdefault(k0, []).append((pt0[0], ('call', 'store', (a0[1], v0), pt0[0])))
        if sorted(slots) == [0, 1, 2, 3] and all(len(v) == 1 for v in slots.values()):
            pushes = [slots[k0][0] for k0 in (0, 1, 2, 3)]
            slot_form = True
    if not ctx.check(len(pushes) == 4, R, key + '|four pushes', wp.loc(), 'four byte pushes per pixel', 'expected four byte pushes per pixel, found %d' % len(pushes)):
        return
    for i in range(3):
        if slot_form:
            break
        if not an.cfg.dominates(pushes[i][0], pushes[i + 1][0]):
            snapshot = list(pushes)        # (a list looks empty to its own key function while it is being sorted)
            pushes = sorted(snapshot, key=lambda p: sum(1 for q in snapshot if an.cfg.dominates(q[0], p[0])))
            break
    order = ['r', 'g', 'b', 'a']
    alpha_term = None
    chans = []
    for (bi, ct), ch in zip(pushes, order):
        v = strip_casts(ct[2][1])
        defs = an.phi_terms(v) if v[0] in ('phi', 'rec') else [v]
        if v[0] == 'field' and strip_all(v[1])[0] == 'phi':
            # a component of `let (r, g, b) = if a > 0 { (..) } else { (r, g, b) }`
            comps = []
            for i2 in strip_all(v[1])[2]:
                d2 = an.defs[i2]
                t2 = strip_all(an.def_term(d2)) if d2.kind == 'assign' else None
                if t2 is not None and t2[0] == 'agg' and t2[1] == 'tuple' and v[2] in dict(t2[4]):
                    comps.append(strip_casts(dict(t2[4])[v[2]]))
            if len(comps) == len(strip_all(v[1])[2]):
                defs = comps
        base = None
        scaled = []
        for dterm in defs:
            sm = shift_mask(dterm)
            if sm is not None:
                base = sm
            else:
                scaled.append(dterm)
        chans.append((ch, bi, base, scaled, v))
    pixel = None
    for ch, bi, base, scaled, v in chans:
        k = key + '|channel ' + ch
        if base is None:
            ctx.fail(R, k, call_line(wp, bi), 'byte %s of each pixel is not extracted as (pixel >> k) & 0xff: %s' % (ch.upper(), fmt(wp, v)))
            continue
        src, sh = base
        if pixel is None:
            pixel = src
        ctx.check(sh == EXPECT[ch] and src == pixel, R, k, call_line(wp, bi), 'byte %s = (pixel >> %d) & 0xff' % (ch.upper(), EXPECT[ch]),
                  'byte %s of the output is taken from bits %s of the pixel, to_u32 puts %s at %d' % (ch.upper(), sh, ch, EXPECT[ch]))
    # un-premultiply: r,g,b have exactly one scaled def = Div(Mul(base,255), a) guarded by a > 0; a has none
    a_entry = [c for c in chans if c[0] == 'a'][0]
    ctx.check(not a_entry[3] and a_entry[2] is not None, R, key + '|alpha unchanged', call_line(wp, a_entry[1]), 'alpha byte is written unchanged', 'the alpha byte is modified before it is written')
    for ch, bi, base, scaled, v in chans:
        if ch == 'a' or base is None:
            continue
        k = key + '|unpremultiply ' + ch
        ok = len(scaled) == 1
        if ok:
            s = scaled[0]
            ok = s[0] == 'bin' and s[1] == 'Div' and shift_mask(s[3]) is not None and shift_mask(s[3])[1] == 24
            if ok:
                num = s[2]
                ok = num[0] == 'bin' and num[1] == 'Mul' and const_val(num[3]) == 255 and shift_mask(num[2]) == base
        ctx.check(ok, R, k, call_line(wp, bi), '%s = %s*255/a when a > 0' % (ch, ch), 'colour %s is not un-premultiplied as %s*255/a (it is %s)' % (ch, ch, [fmt(wp, x) for x in scaled]))
    # the division is guarded by a > 0
    divs = []
    for bi, k2, s in wp.statements():
        if s['k'] == 'assign' and s['rv']['k'] == 'binop' and s['rv']['op'] == 'Div':
            divs.append(bi)
    okg = bool(divs)
    for bi in divs:
        gs = normalized_guards(ctx, wp, bi)
        if not any(op == 'Gt' and shift_mask(a) is not None and shift_mask(a)[1] == 24 and const_val(b2) == 0 for op, a, b2, si in gs):
            okg = False
    ctx.check(okg, R, key + '|a>0 guard', wp.loc(), 'division only under a > 0', 'a colour is divided by alpha without the a > 0 guard (fully transparent pixels must pass through)')
    # ... and by nothing that depends on other pixels: the exported bytes of a pixel are a function of that pixel alone
    per_pixel = True
    foreign = []
    if pixel is not None:
        import dt as _dt
        loops = an.cfg.loops()
        for bi in divs:
            for op, a, b2, si in normalized_guards(ctx, wp, bi):
                if not any(si in bl and bi in bl for bl in loops.values()):
                    continue      # a test outside the pixel loop (none today) is not a per-pixel decision
                for side in (a, b2):
                    if side is None or side[0] in ('const', 'cnamed'):
                        continue
                    sm = shift_mask(side)
                    if sm is not None and sm[0] == pixel:
                        continue
                    deps = _dt.direct_deps(an, side)
                    if pixel in deps and not any(isinstance(x, tuple) and x and x[0] in ('phi', 'mem') and x != pixel and x not in _dt.direct_deps(an, pixel) for x in deps):
                        continue
                    per_pixel = False
                    foreign.append(fmt(wp, side)[:80])
    ctx.check(per_pixel, R, key + '|per-pixel decision', wp.loc(), 'whether a pixel is un-premultiplied depends on that pixel only',
              'whether a pixel is un-premultiplied depends on %s, i.e. on something other than the pixel itself (e.g. a whole-surface "is opaque" shortcut): translucent pixels are exported premultiplied when the shortcut misfires' % sorted(set(foreign)))
    # iteration source: the pixel comes from next() of into_iter(as_ref(self.buf))
    okb = False
    if pixel is not None:
        D = Deps(an)
        leaves = D.closure(pixel)
        okb = (any(l[0] == 'path' and l[1] == ('param', 1) and l[2][-1:] == (('f', 'buf'),) for l in leaves) or any(x[0] == 'call' and is_buf_view(x) for x in D.visited)) and any(is_call(x, 'Iterator::next') for x in D.visited)
    ctx.check(okb, R, key + '|iterates buf', wp.loc(), 'pixels come from iterating self.buf', 'the exported pixels are not obtained by iterating self.buf')
    wr = [ct for bi, d, ct in cs if d and d.endswith('write_image_data')]
    ctx.check(len(wr) == 1, R, key + '|write', wp.loc(), 'write_image_data called once', 'write_image_data is called %d times' % len(wr))


def r19_2(ctx):
    R = 'R19.2'
    for name, mutable in (('get_data_u8', False), ('get_data_u8_mut', True)):
        b = ctx.body(DT + name, R)
        key = 'draw_target::DrawTarget::%s' % name
        rts = [strip_all(t) for t in shared.ret_terms(ctx, b)]
        ok = len(rts) == 1 and is_call(rts[0], 'from_raw_parts_mut' if mutable else 'from_raw_parts')
        if ok:
            p, n = rts[0][2]
            p = strip_all(p)
            if is_call(p, '::cast') and len(p[2]) == 1:
                p = strip_all(p[2][0])          # ptr.cast::<u8>() for `ptr as *const u8`
            okp = is_call(p, 'as_mut_ptr' if mutable else 'as_ptr') and is_buf_view(p[2][0])
            n = strip_casts(n)
            sv = ctx.an(b).callee_info(n[3]) if is_call(n, 'size_of_val') else None
            if is_call(n, 'size_of_val') and len(n[2]) == 1 and is_buf_view(n[2][0]) and sv is not None and sv.get('substs') == ['[u32]']:
                # the byte size of the very slice: len * size_of::<u32>() by definition
                n = ('bin', 'Mul', ('call', 'core::slice::<impl [T]>::len', (n[2][0],), 0), ('const', 'usize', '4'))
            if n[0] == 'bin' and n[1] == 'Mul' and is_call(n[2], 'size_of') and not is_call(n[3], 'size_of'):
                n = ('bin', 'Mul', n[3], n[2])      # multiplication commutes
            lenok = (n[0] == 'bin' and n[1] == 'Mul' and is_call(strip_all(n[2]), '::len') and is_buf_view(strip_all(n[2])[2][0]))
            okn = lenok and is_call(n[3], 'size_of') and n[3][1].endswith('size_of')
            if okn:
                ci = ctx.an(b).callee_info(n[3][3])
                okn = ci is not None and ci.get('substs') == ['u32']
            elif lenok and const_val(n[3]) == 4:
                okn = True        # the size of a u32 written as a constant
            ok = okp and okn
        ctx.check(ok, R, key, b.loc(), 'byte view = (buf pointer, buf.len() * size_of::<u32>())', '%s does not expose exactly buf\'s memory: %s' % (name, [fmt(b, t) for t in rts]))
    for name, conv in (('get_data', 'AsRef::as_ref'), ('get_data_mut', 'AsMut::as_mut')):
        b = ctx.body(DT + name, R)
        rts = [strip_all(t) for t in shared.ret_terms(ctx, b)]
        ok = len(rts) == 1 and is_call(rts[0], conv) and is_self_field(rts[0][2][0], 'buf')
        ctx.check(ok, R, 'draw_target::DrawTarget::%s' % name, b.loc(), 'returns buf itself', '%s returns %s, not self.buf' % (name, [fmt(b, t) for t in rts]))


def r19_3(ctx):
    R = 'R19.3'
    for name in ('into_vec', 'into_inner'):
        b = ctx.body(DT + name, R)
        rts = shared.ret_terms(ctx, b)
        ok = len(rts) == 1 and rts[0][0] == 'field' and rts[0][1] == ('param', 1) and rts[0][2] == 'buf'
        if not ok and name == 'into_vec' and len(rts) == 1:
            # into_vec() = self.into_inner(), which is held to return self.buf just below
            r0 = strip_all(rts[0])
            ok = r0[0] == 'call' and r0[1] == DT + 'into_inner' and len(r0[2]) == 1 and strip_all(r0[2][0]) == ('param', 1)
        ctx.check(ok, R, 'draw_target::DrawTarget::%s' % name, b.loc(), 'returns the buf field', '%s returns %s, not self.buf' % (name, [fmt(b, t) for t in rts]))
    b = ctx.body(DT + 'from_backing', R)
    rts = shared.ret_terms(ctx, b)
    ok = len(rts) == 1 and rts[0][0] == 'agg' and dict(rts[0][4]).get('buf') == ('param', 3) and dict(rts[0][4]).get('width') == ('param', 1) and dict(rts[0][4]).get('height') == ('param', 2)
    ctx.check(ok, R, 'draw_target::DrawTarget::from_backing', b.loc(), 'stores (width, height, buf) as given', 'from_backing does not store its arguments unchanged')
    b = ctx.body(DT + 'from_vec', R)
    an = ctx.an(b)
    rts = shared.ret_terms(ctx, b)
    # the struct literal itself, or delegation to from_backing(width, height, vec), which stores its arguments as given
    deleg = len(rts) == 1 and is_call(strip_all(rts[0]), DT + 'from_backing') and len(strip_all(rts[0])[2]) == 3
    ok = len(rts) == 1 and (rts[0][0] == 'agg' or deleg)
    if ok:
        if deleg:
            a3 = strip_all(rts[0])[2]
            f = {'width': a3[0], 'height': a3[1], 'buf': a3[2]}
        else:
            f = dict(rts[0][4])
        ok = f.get('buf') == ('mem', 3) and f.get('width') == ('param', 1) and f.get('height') == ('param', 2)
        rs = [ct for bi, d, ct in calls_in(ctx, b) if d and d.endswith('::resize')]
        rbs = [bi for bi, d, ct in calls_in(ctx, b) if d and d.endswith('::resize')]
        okr = len(rs) == 1 and strip_all(rs[0][2][0]) == ('mem', 3)
        # ... on every path: a vector that is longer than width*height is cut down as well (the buffer is the surface)
        okr = okr and an.cfg.must_pass_through(0, set(rbs))[0]
        if okr:
            n = poly(rs[0][2][1])
            okr = n == Poly.leaf(('param', 1)) * Poly.leaf(('param', 2)) and const_val(rs[0][2][2]) == 0
        # nothing else touches vec
        # nothing else *mutates* vec (read-only uses through a shared reference — len(), is_empty(), capacity() — are harmless)
        others = []
        for bi, d, ct in calls_in(ctx, b):
            if d and (d.endswith('::resize') or (deleg and d == DT + 'from_backing')):
                continue
            tys = b.blocks[bi]['t'].get('arg_tys') or []
            for k3, a in enumerate(ct[2]):
                if strip_all(a) == ('mem', 3):
                    ty = tys[k3] if k3 < len(tys) else '&mut'
                    if not (ty.startswith('&') and not ty.startswith('&mut')):
                        others.append(ct)
        ok = ok and okr and not others
    ctx.check(ok, R, 'draw_target::DrawTarget::from_vec', b.loc(), 'stores the argument vector resized to width*height', 'from_vec does not store exactly its vector resized to width*height zero-filled')
    b = ctx.body(DT + 'new', R)
    rts = shared.ret_terms(ctx, b)
    ok = len(rts) == 1 and rts[0][0] == 'agg' and dict(rts[0][4]).get('width') == ('param', 1) and dict(rts[0][4]).get('height') == ('param', 2)
    ctx.check(ok, R, 'draw_target::DrawTarget::new', b.loc(), 'stores (width, height)', 'DrawTarget::new does not store width and height as given')


def run(ctx):
    import engine
    import statecoh
    engine.run_rules(ctx, [r19_1, r19_2, r19_3, statecoh.r10_6])
