"""C04 — strokes cover exactly the offset region implied by width, joins and caps."""
import sd
import engine
import props.c11 as c11
import props.c16 as c16

META = {
    'explanation': 'Static rules over src/stroke.rs and DrawTarget::stroke: R04.1 join_line dispatches Round->join_round(arc), Bevel->bevel, '
                   'Miter->(miter_limit test ? line_intersection : bevel); cap_line dispatches Butt->nothing, Round->closed figure with arc, '
                   'Square->closed 5-vertex polygon; R04.2 each place an open subpath can end (MoveTo arm, after the loop) emits exactly two caps '
                   'under "cursor and start both set": end cap (cursor, last normal) and start cap (start point, flipped start normal); Close '
                   'clears the start record on every path and emits no cap; R04.3 LineTo joins (cursor, last normal, new normal) when a first '
                   'segment exists and remembers the new normal; Close joins at the last vertex and at the closing vertex (also when already '
                   'closed); R04.4 every emission is on the true edge of an ordered width > 0 test (NaN rejected), same for the dash period; '
                   'R04.5 stroke = fill(stroke_to_path(dash?(flatten(path, scaled tolerance))), src, options), dashing skipped only for an '
                   'empty dash array; R11.3 the tolerance scales with the transform.',
    'decides': ['R04.15 no ordering comparison of floats other than the width test guards a join or cap', 'R04.6 interior-angle normalisation flips and exchanges the normals', 'R04.7 segment rectangles, square caps and bevels are wound the same way (signed-area polynomials have one common sign)', 'R04.1 join and cap dispatch', 'R04.2 caps at both ends of open subpaths only', 'R04.3 joins at interior and closing vertices', 'R04.4 width guard rejects non-positive and NaN', 'R04.5 stroke pipeline', 'R11.3 tolerance scaled by the transform'],
    'does_not_decide': ['geometry: which side is outer, the miter-limit inequality, arc accuracy, cap extents, pixel margins (numeric)'],
    'assumptions': ['Path::flatten emits only MoveTo/LineTo/Close (R16.1)'],
    'trusted_base': ['euclid 0.22.14'],
}


def flatten_rules(c):
    """the stroker consumes Path::flatten's output: the flattening clauses are part of the stroke pipeline"""
    fb = c.body(c16.FLATTEN, 'R16')
    fm = c16.op_match(c, fb, 'R16.1', 'path_builder::Path::flatten')
    if fm is not None:
        c16.r16_1(c, fb, fm)
        c16.r16_2(c, fb, fm)
        c16.r16_6(c, fb, fm)
        c16.r16_3(c, fb, fm)
        c16.r16_5(c, fb, fm)


flatten_rules.__name__ = 'r16_flatten'


def run(ctx):
    engine.run_rules(ctx, [sd.r04_6, sd.r04_7, sd.r04_8, sd.r04_9, sd.r04_10, sd.r04_12, sd.r04_13, sd.r04_14, sd.r04_15, sd.r04_1, sd.r04_2, sd.r04_3, sd.r04_4, sd.r04_5, c11.r11_3, flatten_rules])
