"""C10 — a drawing call's effect is independent of earlier calls."""
import dt
import ras
import engine
import statecoh

META = {
    'explanation': 'Static rules: R10.1 the only functions that feed or run the shared rasteriser are fill and push_clip (via apply_path), and in '
                   'each every path from the first edge insertion to return passes Rasterizer::reset; R10.2 reset re-initialises every field '
                   'that add_edge/rasterize (and their callees) dirty — on the main path all of them with their Rasterizer::new values, on '
                   'the bounds_bottom < bounds_top early-out at least the arena — and clears edge_starts over exactly the range rasterize '
                   'scans; R10.3 every insertion into edge_starts is preceded by the four bounds updates; R10.4 apply_path resets the path '
                   'cursor (current_point, first_point) before the first op of every path, so no value survives from the previous call; R10.6 (rules/statecoh.py) '
                   'the DrawTarget has no memory of its own: its fields are the audited nine, and any further field is shown not to carry information from one call to the next other than a coherent summary of visible state.',
    'decides': ['R10.1 reset pairs with use', 'R10.2 reset covers what was dirtied', 'R10.3 bounds cover every insertion', 'R10.4 no stale scratch state on the DrawTarget', 'R10.6 a field added to the DrawTarget is scratch (emptied or written before it is read), a derived cache that passes the cache lemma (then dissolved, A13), a validated memo, or a summary written at every mutation site of the visible field it describes'],
    'does_not_decide': ['pixel equality of replays (needs determinism of the arithmetic)', 'arena pointer validity across reset (unsafe linked lists; Miri territory)'],
    'assumptions': ['typed_arena::Arena::new() drops all previous allocations (external)'],
    'trusted_base': ['typed-arena 2.0'],
}


def run(ctx):
    engine.run_rules(ctx, [ras.r10_1, ras.r10_2, ras.r10_3, ras.r10_4, dt.r06_3, dt.r06_5, dt.r05_3, statecoh.r10_6, dt.r05_8])
