"""C08 — curved paths fill their true interior (quads, cubics, arcs, any transform)."""
import ras
import engine
import props.c20 as c20

META = {
    'explanation': 'Static rules: R08.1 every control point of every PathOp goes through self.transform.transform_point into its own argument of '
                   'move_to/line_to/quad_to/cubic_to; R08.2 add_quad chops non-monotonic quads under is_not_monotonic && valid_unit_divide and '
                   'adds the halves (dst[0],dst[2],ctrl dst[1]) and (dst[2],dst[4],ctrl dst[3]), otherwise (curve[0],curve[2],ctrl curve[1]); '
                   'x and y interpolation helpers are the same function of their axis; R08.3 quad_to passes [current, ctrl, to], cubic_to builds '
                   '{from: current, ctrl1, ctrl2, to} and forwards every quadratic as [from, ctrl, to]; cursors end at the end point, a curve as '
                   'first op starts at its first control point; R01.4 subpaths are implicitly closed (MoveTo closes first, close() after the '
                   'loop), close() adds current->first and returns the cursor to the start, curve flags are right; R20.4 arcs are forwarded as '
                   'quadratics; R08.7 the forward-difference set-up of a quadratic edge (dx, ddx, count, first step) satisfies the identities of the curve through (p1, c, p2).',
    'decides': ['R11.10 no transform-dependent skip of the geometry in apply_path', 'R08.8 no branch in quad_to/cubic_to/add_quad (all axes) or add_edge (x axis) is decided by end points without control points', 'R08.1 every control point transformed; each arm hands its op on as the op it is, on every path', 'R08.2 monotonic chopping delivers both halves', 'R08.3 cubic/quad plumbing and cursor law', 'R01.4 implicit close and curve flags', 'R08.5 x/y halves of the curve set-up are twins', 'R08.7 forward-difference coefficients of a quadratic edge are those of the curve it was given (polynomial identities, shifts as exact scalings), count = 2^shift, advance-then-update order in add_edge and ActiveEdge::step', 'R20.4 arc plumbing'],
    'does_not_decide': ['accuracy: subdivision count, rounding of the forward differences (shifts are read as exact scalings), the 0.01 cubic tolerance, the one-pixel margin (numeric)', 'the slope of each curve segment (div_fixed16_fixed16) and overflow of the 16.16 arithmetic'],
    'assumptions': ['lyon_geom CubicBezierSegment::for_each_quadratic_bezier approximates the cubic within its tolerance (external)'],
    'trusted_base': ['lyon_geom 1.0.19', 'euclid 0.22.14'],
}


def run(ctx):
    import props.c11 as c11
    engine.run_rules(ctx, [ras.r08_1, ras.r08_2, ras.r08_34, ras.r01_4_close, ras.r08_5, ras.r08_7, c20.r20_3, c20.r20_4, ras.r01_10, ras.r01_11, ras.r01_12, ras.r08_6, ras.r08_8, ras.r10_4, ras.r01_15, c11.r11_9, c11.r11_10])
