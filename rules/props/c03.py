"""C03 — each pixel is composited by the blend mode's formula weighted by coverage."""
import dt
import shared

META = {
    'explanation': 'Static rules: R03.1 build_blend_proc wires every BlendMode variant V to sw_composite::blend::V (28 arms, no wildcard) and each '
                   'Blender impl returns its own row proc instantiated at T; R03.2 choose_blitter builds the blitter the (mask, clip mask, '
                   'SrcOver) table demands, with origin/stride from dest_bounds, clip from the top clip and stride = surface width, '
                   'blend_fn from the right Blender; R03.3 mask-less compositing only under clip_stack.is_empty(); R03.4 operand roles: '
                   'new = interp(old, blend(src, old), coverage...) / over_in(tmp[i], dest[j], mask[i][, clip[k]]) at one index; R03.5 the '
                   'global alpha byte reaches every shader (or the arm is guarded by alpha == 255); R03.6 the three float->byte alpha '
                   'conversions are x*255+0.5 and saturate; R03.7 no rectangle uses a bare extent as max corner with a non-zero min; '
                   'plus R02.6/R02.7 (indexing, zero weight).',
    'decides': ['R03.11 the global alpha byte is converted to the 0..=256 scale exactly once on its way to every per-pixel multiplier (constructor field composed with the call-site argument)', 'R03.1 blend dispatch law', 'R03.2 blitter selection table and field plumbing', 'R03.3 mask-less route only without clip', 'R03.4 operand roles per pixel',
                'R03.5 global alpha plumbing', 'R03.6 alpha byte conversions saturate', 'R03.7 mask placement (position vs extent)', 'R02.6 index agreement', 'R02.7 zero coverage identity'],
    'does_not_decide': ['the arithmetic of the sw-composite combinators and blend formulas', 'exactness at full coverage', 'position independence beyond the index forms'],
    'assumptions': ['sw_composite::blend::V implements blend mode V; lerp/over_in/over_in_in/alpha_lerp as documented (external)'],
    'trusted_base': ['sw-composite 0.7.16'],
}


def _r18_2(ctx):
    import props.c18 as c18
    c18.r18_2(ctx)


_r18_2.__name__ = 'r18_2'


def run(ctx):
    import engine
    engine.run_rules(ctx, [dt.r03_1, dt.r03_2, dt.r03_3, dt.r03_4, dt.r03_5, dt.r03_6, dt.r03_7, dt.r03_8, dt.r02_6, dt.r02_7, dt.r02_3, dt.r03_9, dt.r03_10, dt.r03_11, _r18_2])
