"""A small symbolic 2-D vector algebra over terms: scalar terms become polynomials (util.Poly) and
Point/Vector-typed terms become pairs of polynomials.  Used by orientation rules (R04.7): the signed area
(shoelace sum) of a polygon the stroker emits is a polynomial in the coordinates of its inputs, and whether
that polynomial has one sign for all inputs can be read off its monomials.

Local pure helper functions (flip, perp, dot, compute_normal, ...) are inlined through their single
return term.  Division by a non-constant becomes multiplication by an opaque leaf ('inv', d)."""
from fractions import Fraction

from util import Poly, nosite, strip_all, const_val, is_call
import shared


def tsubst(t, env):
    """replace ('param', k) leaves by env[k]"""
    if not isinstance(t, tuple):
        return t
    if len(t) == 2 and t[0] == 'param' and t[1] in env:
        return env[t[1]]
    return tuple(tsubst(x, env) for x in t)


def psubst(p, mapping):
    """substitute leaves of a Poly by Polys"""
    out = Poly()
    for mono, c in p.d.items():
        term = Poly.const(c)
        for leaf in mono:
            term = term * mapping.get(leaf, Poly.leaf(leaf))
        out = out + term
    return out


class VA:
    def __init__(self, ctx, depth=4):
        self.ctx = ctx
        self.depth = depth
        self._ret = {}

    # ------------------------------------------------------------ inlining
    def single_ret(self, q, variant=None):
        """the single return term of a local function (for Option-returning helpers: the payload of its only Some return)"""
        key = (q, variant)
        if key in self._ret:
            return self._ret[key]
        b = self.ctx.F.body(q)
        res = None
        if b is not None:
            an = self.ctx.an(b)
            rets = [nosite(t) for t in shared.ret_terms(self.ctx, b)]
            if variant is not None:
                rets = [dict(t[4]).get('0') for t in rets if t[0] == 'agg' and t[3] == variant and t[4]]
            rets = [r for r in rets if r is not None]
            has_heap_store = any(kind == 'assign' for a, v, pt, kind in an.stores)
            if len(set(rets)) == 1 and not has_heap_store:
                res = (rets[0], b.argc if hasattr(b, 'argc') else None)
        self._ret[key] = res
        return res

    def inline(self, t, variant=None):
        """call term of a local fn -> its return term with arguments substituted, or None"""
        if t[0] != 'call' or not isinstance(t[1], str) or not t[1].startswith('raqote::'):
            return None
        r = self.single_ret(t[1], variant)
        if r is None:
            return None
        env = {i + 1: a for i, a in enumerate(t[2])}
        return tsubst(r[0], env)

    # -------------------------------------------------------------- scalars
    def sp(self, t, d=0):
        t = nosite(t)
        h = t[0]
        if h == 'cast' and t[1] in ('FloatToFloat', 'IntToFloat', 'IntToInt'):
            return self.sp(t[3], d)
        if h in ('const', 'cnamed'):
            v = const_val(t)
            if v is not None:
                return Poly.const(Fraction(v).limit_denominator(1 << 20) if isinstance(v, float) else v)
            return Poly.leaf(t)
        if h == 'bin' and t[1] in ('Add', 'Sub', 'Mul'):
            a, b = self.sp(t[2], d), self.sp(t[3], d)
            return a + b if t[1] == 'Add' else (a - b if t[1] == 'Sub' else a * b)
        if h == 'bin' and t[1] == 'Div':
            a, b = self.sp(t[2], d), self.sp(t[3], d)
            cb = b.const_value()
            if cb is not None and cb != 0:
                return a * Poly.const(Fraction(1) / cb)
            den = nosite(strip_all(t[3]))
            if den[0] == 'call' and isinstance(den[1], str) and 'Vector2D' in den[1] and den[1].endswith('::length') and len(den[2]) == 1:
                den = ('call', 'euclid::Vector2D::length', (nosite(strip_all(den[2][0])),))
            return a * Poly.leaf(('inv', den))
        if h == 'un' and t[1] == 'Neg':
            return -self.sp(t[2], d)
        if h == 'field' and t[2] in ('x', 'y') and t[3] in ('euclid::Point2D', 'euclid::Vector2D'):
            return self.vec(t[1], d)[0 if t[2] == 'x' else 1]
        if h == 'call' and d < self.depth:
            it = self.inline(t)
            if it is not None:
                return self.sp(it, d + 1)
        return Poly.leaf(t)

    # -------------------------------------------------------------- vectors
    def vec(self, t, d=0):
        t = nosite(strip_all(t))
        h = t[0]
        if h == 'call':
            name = t[1] if isinstance(t[1], str) else ''
            a = t[2]
            if name.endswith('ops::Add::add') and len(a) == 2:
                x, y = self.vec(a[0], d), self.vec(a[1], d)
                return (x[0] + y[0], x[1] + y[1])
            if name.endswith('ops::Sub::sub') and len(a) == 2:
                x, y = self.vec(a[0], d), self.vec(a[1], d)
                return (x[0] - y[0], x[1] - y[1])
            if name.endswith('ops::Mul::mul') and len(a) == 2:
                x, s = self.vec(a[0], d), self.sp(a[1], d)
                return (x[0] * s, x[1] * s)
            if name.endswith('ops::Neg::neg') and len(a) == 1:
                x = self.vec(a[0], d)
                return (-x[0], -x[1])
            if (name.startswith('euclid::Vector2D') or name.startswith('euclid::Point2D')) and name.endswith('::new') and len(a) == 2:
                return (self.sp(a[0], d), self.sp(a[1], d))
            if name.split('::')[-1] in ('to_vector', 'to_point') and len(a) == 1:
                return self.vec(a[0], d)
            if 'Vector2D' in name and name.endswith('::normalize') and len(a) == 1:
                # v / |v|: 1/|v| is one symbol, the reciprocal of length(v) (whatever path the method is named by)
                v0 = nosite(strip_all(a[0]))
                x = self.vec(v0, d)
                il = Poly.leaf(('inv', ('call', 'euclid::Vector2D::length', (v0,))))
                return (x[0] * il, x[1] * il)
            if name.split('::')[-1] in ('vec2', 'point2') and len(a) == 2:
                return (self.sp(a[0], d), self.sp(a[1], d))
            if d < self.depth:
                it = self.inline(t)
                if it is not None:
                    return self.vec(it, d + 1)
        if h == 'agg' and t[2] in ('euclid::Point2D', 'euclid::Vector2D'):
            f = dict(t[4])
            if 'x' in f and 'y' in f:
                return (self.sp(f['x'], d), self.sp(f['y'], d))
        if h == 'field' and t[2] == '0' and t[4] == 'Some' and d < self.depth:
            base = strip_all(t[1])
            it = self.inline(base, 'Some') if base[0] == 'call' else None
            if it is not None:
                return self.vec(it, d + 1)
        return (Poly.leaf(('field', t, 'x', 'P', None)), Poly.leaf(('field', t, 'y', 'P', None)))


def shoelace(vs):
    """twice the signed area of the closed polygon with vertices vs = [(Poly x, Poly y)]"""
    s = Poly()
    n = len(vs)
    for i in range(n):
        x0, y0 = vs[i]
        x1, y1 = vs[(i + 1) % n]
        s = s + x0 * y1 - x1 * y0
    return s


def sign_definite(p, positive):
    """+1 / -1 when every monomial of p has even degree in every leaf not known to be positive and all
    coefficients have one sign (then p never changes sign); 0 for the zero polynomial; None otherwise"""
    if not p.d:
        return 0
    sg = None
    for mono, c in p.d.items():
        cnt = {}
        for leaf in mono:
            cnt[leaf] = cnt.get(leaf, 0) + 1
        for leaf, k in cnt.items():
            if k % 2 and not positive(leaf):
                return None
        s = 1 if c > 0 else -1
        if sg is None:
            sg = s
        elif sg != s:
            return None
    return sg


# ------------------------------------------------------------------ affine maps (euclid Transform2D)
class Aff:
    """row-vector affine map as in euclid: x' = x*m11 + y*m21 + m31, y' = x*m12 + y*m22 + m32; entries are Polys"""

    def __init__(self, m11, m12, m21, m22, m31, m32, inverse_of=None):
        self.m = (m11, m12, m21, m22, m31, m32)
        self.inverse_of = inverse_of      # when set, this object stands for the inverse of that Aff (entries unused)

    @staticmethod
    def identity():
        one, zero = Poly.const(1), Poly()
        return Aff(one, zero, zero, one, zero, zero)

    def then(self, o):
        a11, a12, a21, a22, a31, a32 = self.m
        b11, b12, b21, b22, b31, b32 = o.m
        return Aff(a11 * b11 + a12 * b21, a11 * b12 + a12 * b22,
                   a21 * b11 + a22 * b21, a21 * b12 + a22 * b22,
                   a31 * b11 + a32 * b21 + b31, a31 * b12 + a32 * b22 + b32)

    def cancelled(self):
        return Aff(*[cancel_inv(p) for p in self.m])

    def __eq__(self, o):
        return isinstance(o, Aff) and self.inverse_of is None and o.inverse_of is None and all(x == y for x, y in zip(self.m, o.m))


def cancel_inv(p):
    """x * inv(x) = 1 for a leaf x (division by x is only defined for x != 0 anyway)"""
    out = Poly()
    for mono, c in p.d.items():
        m = list(mono)
        changed = True
        while changed:
            changed = False
            for leaf in m:
                if isinstance(leaf, tuple) and leaf and leaf[0] == 'inv':
                    t = nosite(leaf[1])
                    if t in m:
                        m.remove(leaf)
                        m.remove(t)
                        changed = True
                        break
        out = out + Poly({tuple(sorted(m, key=repr)): c})
    return out


def eval_affine(va, t, d=0):
    """Aff for a Transform2D-valued term built from translation/scale/identity/new/then*/pre_*/inverse, else None"""
    t = nosite(strip_all(t))
    if t[0] != 'call' or not isinstance(t[1], str):
        return None
    name, a = t[1], t[2]
    last = name.split('::')[-1]
    if 'Transform2D' not in name:
        return None
    zero, one = Poly(), Poly.const(1)
    def vec_arg(x):
        return va.vec(x, d)
    if last == 'identity' and not a:
        return Aff.identity()
    if last == 'translation' and len(a) == 2:
        return Aff(one, zero, zero, one, va.sp(a[0], d), va.sp(a[1], d))
    if last == 'scale' and len(a) == 2:
        return Aff(va.sp(a[0], d), zero, zero, va.sp(a[1], d), zero, zero)
    if last == 'new' and len(a) == 6:
        return Aff(*[va.sp(x, d) for x in a])
    if last == 'then' and len(a) == 2:
        x, y = eval_affine(va, a[0], d), eval_affine(va, a[1], d)
        return x.then(y) if x is not None and y is not None and x.inverse_of is None and y.inverse_of is None else None
    if last in ('then_scale', 'pre_scale') and len(a) == 3:
        x = eval_affine(va, a[0], d)
        s = Aff(va.sp(a[1], d), zero, zero, va.sp(a[2], d), zero, zero)
        if x is None or x.inverse_of is not None:
            return None
        return x.then(s) if last == 'then_scale' else s.then(x)
    if last in ('then_translate', 'pre_translate') and len(a) == 2:
        x = eval_affine(va, a[0], d)
        v = vec_arg(a[1])
        tr = Aff(one, zero, zero, one, v[0], v[1])
        if x is None or x.inverse_of is not None:
            return None
        return x.then(tr) if last == 'then_translate' else tr.then(x)
    if last == 'inverse' and len(a) == 1:
        x = eval_affine(va, a[0], d)
        return Aff(zero, zero, zero, zero, zero, zero, inverse_of=x) if x is not None and x.inverse_of is None else None
    return None


def is_inverse_of(va, t, forward):
    """the Transform2D-valued term t denotes the inverse of the Aff `forward` (either written as inverse(forward) —
    possibly unwrapped — or as a map M with forward.then(M) == identity after cancelling x * (1/x))"""
    t = strip_all(t)
    while t[0] == 'call' and isinstance(t[1], str) and t[1].split('::')[-1] in ('unwrap', 'expect', 'unwrap_or_default') and t[2]:
        t = strip_all(t[2][0])
    m = eval_affine(va, t)
    if m is None:
        return False
    if m.inverse_of is not None:
        return m.inverse_of == forward
    return forward.then(m).cancelled() == Aff.identity()
