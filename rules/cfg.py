"""A2: CFG structure over a Body: dominators, post-dominators, loops, reachability
with removed blocks, edge guards, control dependence.

Unwind edges are not part of the facts; cleanup blocks are ignored.  Diverging
blocks (failed asserts are not edges; `unreachable`, calls without a return
target, i.e. panics) have no successors."""
from facts import term_succs


class CFG:
    def __init__(self, body):
        self.body = body
        n = body.nblocks
        self.n = n
        self.succ = [[] for _ in range(n)]
        self.pred = [[] for _ in range(n)]
        dead = set(i for i, b in enumerate(body.blocks) if b['t']['k'] == 'unreachable' and not b['st'])
        self.dead = dead
        for i, b in enumerate(body.blocks):
            if b.get('cleanup'):
                continue
            for s in term_succs(b['t']):
                if s in dead:
                    continue      # `unreachable` arms are infeasible edges
                if s not in self.succ[i]:
                    self.succ[i].append(s)
                    self.pred[s].append(i)
        self.reach = self._reach_from(0, set())
        self.returns = [i for i in self.reach if body.blocks[i]['t']['k'] == 'return']
        self.diverge = [i for i in self.reach if not self.succ[i] and body.blocks[i]['t']['k'] != 'return']
        self._dom = None
        self._pdom = None

    # ---------------------------------------------------------- reachability
    def _reach_from(self, start, removed, succ=None):
        succ = succ or self.succ
        seen = set()
        if start in removed:
            return seen
        stack = [start]
        seen.add(start)
        while stack:
            x = stack.pop()
            for y in succ[x]:
                if y not in seen and y not in removed:
                    seen.add(y)
                    stack.append(y)
        return seen

    def reachable_from(self, start, removed=()):
        return self._reach_from(start, set(removed))

    def can_reach(self, a, targets, removed=()):
        r = self._reach_from(a, set(removed))
        return any(t in r for t in targets)

    def path(self, a, targets, removed=()):
        """one shortest path a -> any target avoiding removed (list of blocks) or None"""
        removed = set(removed)
        targets = set(targets)
        if a in removed:
            return None
        prev = {a: None}
        q = [a]
        while q:
            nq = []
            for x in q:
                if x in targets:
                    p = []
                    while x is not None:
                        p.append(x)
                        x = prev[x]
                    return p[::-1]
                for y in self.succ[x]:
                    if y not in prev and y not in removed:
                        prev[y] = x
                        nq.append(y)
            q = nq
        return None

    # ------------------------------------------------------------ dominators
    def _idom(self, succ, pred, roots):
        # Cooper-Harvey-Kennedy on a graph with a virtual root
        n = self.n
        VR = n
        s2 = [list(x) for x in succ] + [list(roots)]
        p2 = [list(x) for x in pred] + [[]]
        for r in roots:
            p2[r] = p2[r] + [VR]
        order = []
        seen = set([VR])
        st = [(VR, iter(s2[VR]))]
        while st:
            x, it = st[-1]
            adv = False
            for y in it:
                if y not in seen:
                    seen.add(y)
                    st.append((y, iter(s2[y])))
                    adv = True
                    break
            if not adv:
                order.append(x)
                st.pop()
        rpo = order[::-1]
        idx = {b: i for i, b in enumerate(rpo)}
        idom = {VR: VR}
        changed = True
        while changed:
            changed = False
            for b in rpo[1:]:
                new = None
                for p in p2[b]:
                    if p in idom:
                        if new is None:
                            new = p
                        else:
                            a, c = p, new
                            while a != c:
                                while idx[a] > idx[c]:
                                    a = idom[a]
                                while idx[c] > idx[a]:
                                    c = idom[c]
                            new = a
                if new is not None and idom.get(b) != new:
                    idom[b] = new
                    changed = True
        return idom, VR

    @property
    def dom(self):
        if self._dom is None:
            self._dom = self._idom(self.succ, self.pred, [0])
        return self._dom

    @property
    def pdom(self):
        if self._pdom is None:
            # post-dominance w.r.t. normal termination: diverging blocks (panics) are not exits
            exits = list(self.returns) or [i for i in self.reach if not self.succ[i]]
            self._pdom = self._idom(self.pred, self.succ, exits)
        return self._pdom

    def _dominates(self, tree, a, b):
        idom, VR = tree
        if b not in idom:
            return False
        x = b
        while True:
            if x == a:
                return True
            if x == VR:
                return False
            x = idom[x]

    def dominates(self, a, b):
        """every path entry -> b passes a"""
        return self._dominates(self.dom, a, b)

    def postdominates(self, a, b):
        """every path b -> return passes a (paths into panics are ignored)"""
        return self._dominates(self.pdom, a, b)

    def ipdom(self, b):
        idom, VR = self.pdom
        x = idom.get(b)
        return None if x is None or x == VR else x

    def edge_dominates(self, s, t, b):
        """every path entry -> b uses edge s->t: b unreachable from entry once the edge is cut"""
        if t not in self.succ[s]:
            return False
        succ = [list(x) for x in self.succ]
        succ[s] = [y for y in succ[s] if y != t]
        # careful: a switch may have two edges to the same target; we cut them all, which is what callers mean
        return b not in self._reach_from(0, set(), succ)

    # ----------------------------------------------------------------- loops
    def sccs(self):
        index = {}
        low = {}
        onst = set()
        st = []
        out = []
        counter = [0]
        for root in sorted(self.reach):
            if root in index:
                continue
            work = [(root, 0)]
            while work:
                v, pi = work.pop()
                if pi == 0:
                    index[v] = low[v] = counter[0]
                    counter[0] += 1
                    st.append(v)
                    onst.add(v)
                recurse = False
                for k in range(pi, len(self.succ[v])):
                    w = self.succ[v][k]
                    if w not in index:
                        work.append((v, k + 1))
                        work.append((w, 0))
                        recurse = True
                        break
                    elif w in onst:
                        low[v] = min(low[v], index[w])
                if recurse:
                    continue
                if low[v] == index[v]:
                    comp = []
                    while True:
                        w = st.pop()
                        onst.discard(w)
                        comp.append(w)
                        if w == v:
                            break
                    out.append(comp)
                if work:
                    u = work[-1][0]
                    low[u] = min(low[u], low[v])
        return out

    def loops(self):
        """natural loops keyed by header: header -> set(blocks); uses back edges t->h where h dominates t"""
        res = {}
        for t in self.reach:
            for h in self.succ[t]:
                if self.dominates(h, t):
                    body = set([h, t])
                    stack = [t]
                    while stack:
                        x = stack.pop()
                        if x == h:
                            continue
                        for p in self.pred[x]:
                            if p not in body and p in self.reach:
                                body.add(p)
                                stack.append(p)
                    res.setdefault(h, set()).update(body)
        return res

    def cyclic_without(self, blocks, removed):
        """is there still a cycle inside `blocks` once `removed` blocks are deleted?"""
        blocks = set(blocks) - set(removed)
        color = {}
        for r in blocks:
            if r in color:
                continue
            st = [(r, iter(self.succ[r]))]
            color[r] = 1
            while st:
                x, it = st[-1]
                adv = False
                for y in it:
                    if y not in blocks:
                        continue
                    if color.get(y) == 1:
                        return True
                    if y not in color:
                        color[y] = 1
                        st.append((y, iter(self.succ[y])))
                        adv = True
                        break
                if not adv:
                    color[x] = 2
                    st.pop()
        return False

    def cycle_through(self, header, blocks, removed):
        """is there still a cycle through `header` inside `blocks` once `removed` blocks are deleted?
        (cycles of inner loops that do not pass the header are ignored)"""
        blocks = set(blocks)
        removed = set(removed)
        if header in removed:
            return False
        seen = set()
        st = [y for y in self.succ[header] if y in blocks and y not in removed]
        while st:
            x = st.pop()
            if x == header:
                return True
            if x in seen:
                continue
            seen.add(x)
            for y in self.succ[x]:
                if y in blocks and y not in removed:
                    st.append(y)
        return False

    # ----------------------------------------------------- control dependence
    def control_deps(self):
        """block -> set of (switch block, successor) edges it is control dependent on"""
        res = {i: set() for i in self.reach}
        for a in self.reach:
            if len(self.succ[a]) < 2:
                continue
            for s in self.succ[a]:
                # walk the post-dominator tree from s up to (excl.) ipdom(a)
                stop = self.ipdom(a)
                x = s
                seen = set()
                while x is not None and x != stop and x not in seen:
                    seen.add(x)
                    res.setdefault(x, set()).add((a, s))
                    x = self.ipdom(x)
        return res

    def must_pass_through(self, start, marked, exits=None):
        """every path start -> exit passes a marked block (start itself counts)"""
        exits = self.returns if exits is None else exits
        if start in marked:
            return True, None
        p = self.path(start, exits, removed=marked)
        return (p is None), p
